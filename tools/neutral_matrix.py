#!/venv/bin/python
"""Behaviour-preserving refactorings x checks, through the loader overlay: every report is a false alarm, every
ANALYSIS-ERROR a refusal. usage: neutral_matrix.py [dir with */patch.diff ...] (default /verif/neutral)"""
import glob, importlib, json, os, sys, multiprocessing as mp
sys.path.insert(0, os.path.dirname(os.path.dirname(os.path.abspath(__file__))))
import warnings; warnings.filterwarnings("ignore")
from hivecheck.loader import Repo
from hivecheck.report import Ctx
from hivecheck import selftest as st, AnalysisError
ALL = [f"C{i:02d}" for i in range(1, 21)]

def one(args):
    prop, nid, pf = args
    eds = st.edits_from_patch(pf, reverse=False)
    if not eds:
        return prop, nid, "stale", "empty patch"
    v = st.V(f"neutral-{nid}", eds[0][0], eds[0][1], eds[0][2], kind="quiet", more=tuple(eds[1:]))
    r = st._run_variant((prop, v, "/repo", BASE[prop]))
    return prop, nid, r[2], r[3]

if __name__ == "__main__":
    roots = [a for a in sys.argv[1:] if os.path.isdir(a)] or ["/verif/neutral"]
    only = [a for a in sys.argv[1:] if a.startswith("C") and len(a) == 3] or ALL
    patches = []
    for r in roots:
        for pf in sorted(glob.glob(os.path.join(r, "**", "patch.diff"), recursive=True)):
            if os.path.getsize(pf) > 0:
                nid = os.path.relpath(os.path.dirname(pf), r).replace("/", "-")
                patches.append((nid, pf))
    ids = [a for a in sys.argv[1:] if not os.path.isdir(a) and not (a.startswith("C") and len(a) == 3)]
    if ids:
        patches = [(n, pf) for n, pf in patches if n in ids]
    BASE = {}
    for p in only:
        mod = importlib.import_module(f"hivecheck.props.{p.lower()}")
        ctx = Ctx(p, Repo(), "quick", 0, quiet=True)
        try:
            mod.run(ctx)
        except AnalysisError as e:
            ctx.soft_fail(str(e))
        BASE[p] = st._viol_keys(ctx)
    jobs = [(p, nid, pf) for nid, pf in patches for p in only]
    with mp.get_context("fork").Pool(16, maxtasksperchild=25) as pool:
        res = pool.map(one, jobs, chunksize=1)
    out = {}
    for p, nid, status, msg in res:
        d = out.setdefault(nid, {"alarms": {}, "noverdict": {}, "stale": []})
        if status == "fail":
            d["alarms"][p] = msg[:500]
        elif status == "stale":
            d["stale"].append(p)
        elif "no verdict" in msg:
            d["noverdict"][p] = msg[:300]
    json.dump(out, open("/tmp/neutral_matrix.json", "w"), indent=1)
    na = sum(1 for d in out.values() if d["alarms"]); nn = sum(1 for d in out.values() if d["noverdict"] and not d["alarms"])
    for nid in sorted(out):
        d = out[nid]
        if d["alarms"] or d["noverdict"] or d["stale"]:
            print(nid, "ALARMS=" + ",".join(sorted(d["alarms"])) if d["alarms"] else "", "noverdict=" + ",".join(sorted(d["noverdict"])) if d["noverdict"] else "", "STALE" if d["stale"] else "")
    print(f"{len(out)} refactorings: {na} with an alarm, {nn} with a refusal only, {len(out) - na - nn} silent under all {len(only)} checks")
