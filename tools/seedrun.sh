#!/bin/sh
# usage: seedrun.sh <patch.diff> <prop> [<prop>...] : apply a seeded change to /repo, run the quick checks, undo it
p="$1"; shift
git -C /repo diff --quiet || { echo "/repo not clean"; exit 9; }
git -C /repo apply "$p" || { echo APPLY-FAILED; exit 9; }
for c in "$@"; do
  out=$(/verif/check "$c" --tier quick 2>&1); rc=$?
  echo "== $c exit=$rc"; echo "$out" | grep -E "VIOLATION|ANALYSIS-ERROR|^  nrel" | cut -c1-400 | head -8
done
git -C /repo checkout -q -- .
