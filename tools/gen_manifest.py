#!/venv/bin/python
"""Regenerates /verif/MANIFEST.json from the table below (claimed checks) + properties.jsonl."""
import json, os
V = os.path.dirname(os.path.dirname(os.path.abspath(__file__)))
props = [json.loads(l) for l in open(os.path.join(V, "properties.jsonl"))]

TRUST = ("Trusted base: CPython's ast module, the hivecheck path enumerator (structured paths, loops entered 0/1 times, "
         "exceptions only at try-entry), the frozen expectation/exception tables in hivecheck (each entry reasoned in DESIGN.md). "
         "Decides the named structural clauses (necessary conditions), not the run-time behaviour as a whole.")

CLAIMED = {
 "C02": ("typestate pairing (acquire/release on all success paths) + who-may-call + finite-ordering truth tables",
         "Static decision of the preservation obligations of the count invariant over every path of every enter()/exit(): A(enter)=R(exit) per activity class, must-flow of the updated entity, enter-call discipline, transition atomicity, closed caller/writer sets of the counters, bounded-counter truth tables over all orderings, helper contracts, state lineage (no result is built on a state older than one produced by a call that can touch a counter), every successful enter installs the activity. Right level because the invariant quantifies over all instruction sequences, which only an inductive (per-transition) argument covers.", "4/C02"),
 "C07": ("guard dominance over path conditions of every enter() + provenance of instruction routes",
         "For every path of every enter() that reaches the state write, the location atom required by the activity is in the path condition with the accepting polarity; arrival branches, the route validator, instruction route provenance and the drop-off destination check are decided the same way. Covers every instruction from any controller because it quantifies over code paths, not over sampled instructions.", "4/C07"),
 "C10": ("guard dominance (membership atoms) + receiver-role census + truth tables of the membership predicates",
         "Every state write in every enter() is dominated by the membership test of the entity whose resource is used; the built-in dispatchers' filters and per-fleet fold are checked over all fleet counts; every grant_access_* call site is classified by receiver role. One construct (Dispatcher._is_valid_for_dispatch uses the vehicle as receiver) is a listed known finding.", "4/C10"),
 "C17": ("typestate pairing for the assignment record + enter-call discipline + guard dominance in the dispatcher filter",
         "Assignment record acquired in enter() is released on every success path of exit() (except request gone), every enter() call is preceded by the previous activity's exit(), the record has a closed writer/caller set, the dispatcher's request filter implies 'no vehicle dispatched'; no state produced by a call that can touch the record is dropped from a result (state lineage), and every successful enter installs the activity. Inductive over all redirect/interrupt/strand histories.", "4/C17"),
 "C09": ("typestate transition shape + adopt-on-success / fold-threading dataflow + push/pop end consistency + phase threading",
         "transition_previous_to_next returns enter(exit(sim)) or no state on every path; apply_instructions adopts only tested-successful states, threads its accumulator through every iteration without early exit and records 'applied' only when adopting; generator order, driver-last push, head/head stack ends and the phase threading of StepSimulation.update are decided on the expanded data flow; on the instruction path (everything apply_instructions can reach) no produced state is dropped, every successful enter installs the activity, and error pairs are used only after their error was ruled out. Covers every instruction/rejection combination because it is a statement about all paths.", "4/C09"),
}
CLAIMED.update(json.load(open(os.path.join(V, "tools", "claimed_extra.json"))) if os.path.exists(os.path.join(V, "tools", "claimed_extra.json")) else {})

NA_REASON = "check not built yet in this round (DESIGN.md section 4 describes the planned static clauses); not claimed until built and validated both ways"

m = {
 "version": 1,
 "setup_cmd": "/venv/bin/python -W ignore -m hivecheck.setup",
 "hooks": {"guard": "NREL_HIVE_VERIF", "enable": "none needed: static analysis reads /repo's sources; there is no instrumentation in /repo",
           "baseline_off_cmd": "cd /repo && /venv/bin/python -m pytest -ra -q -p no:cacheprovider --timeout=900 --continue-on-collection-errors",
           "source_commits": [], "add_only": True},
 "engines": [{"name": "hivecheck", "path": "hivecheck/", "serves_properties": sorted(CLAIMED),
              "kind_free_text": "repository-specific static analyser: ast loader, path-sensitive symbolic def-use (flow.py), typestate/guard-dominance/who-may-call/finite-ordering rules; mypy-as-library types for the hash-order and immutability rules"}],
 "checks": [],
 "notes": "Static analysis only: no check imports or runs nrel.hive. Exit 0 = all obligations discharged (KNOWN-FINDING lines for listed findings), 1 = VIOLATION, 2 = ANALYSIS-ERROR (checker could not decide; never a verdict). known_findings.json lists fixed and known findings; seeded/ holds independently written breaking changes and which checks catch them (DESIGN.md section 10).",
 "not_applicable": [],
}
for p in props:
    pid = p["id"]
    if pid in CLAIMED and os.path.exists(os.path.join(V, "hivecheck", "props", pid.lower() + ".py")):
        tech, text, ref = CLAIMED[pid]
        m["checks"].append({
            "property_id": pid,
            "quick_cmd": f"./check {pid} --tier quick",
            "thorough_cmd": f"./check {pid} --tier thorough",
            "evidence_file": f"evidence/{pid}.json",
            "replay_cmd_template": "./check --replay {path}",
            "engine": "hivecheck",
            "level_claimed": {"category": "other", "text": text, "design_ref": f"DESIGN.md section {ref}"},
            "level_note": TRUST,
            "technique": "static analysis: " + tech,
        })
    else:
        m["not_applicable"].append({"property_id": pid, "reason": NA_REASON})
json.dump(m, open(os.path.join(V, "MANIFEST.json"), "w"), indent=1)
print("claimed", [c["property_id"] for c in m["checks"]], "na", len(m["not_applicable"]))
