#!/venv/bin/python
"""Regenerates /verif/MANIFEST.json from the table below (claimed checks) + properties.jsonl."""
import json, os
V = os.path.dirname(os.path.dirname(os.path.abspath(__file__)))
props = [json.loads(l) for l in open(os.path.join(V, "properties.jsonl"))]

TRUST = ("Trusted base: CPython's ast module, the hivecheck path enumerator (structured paths, loops entered 0/1 times, "
         "exceptions only at try-entry), the frozen expectation/exception tables in hivecheck (each entry reasoned in DESIGN.md). "
         "Decides the named structural clauses (necessary conditions), not the run-time behaviour as a whole.")

CLAIMED = {
 "C02": ("typestate pairing (acquire/release on all success paths) + who-may-call + finite-ordering truth tables",
         "Static decision of the preservation obligations of the count invariant over every path of every enter()/exit(): A(enter)=R(exit) per activity class, must-flow of the updated entity, enter-call discipline, transition atomicity, closed caller/writer sets of the counters, bounded-counter truth tables over all orderings, helper contracts, state lineage (no result is built on a state older than one produced by a call that can touch a counter), every successful enter installs the activity. Right level because the invariant quantifies over all instruction sequences, which only an inductive (per-transition) argument covers.", "4/C02"),
 "C07": ("guard dominance over path conditions of every enter() + provenance of instruction routes",
         "For every path of every enter() that reaches the state write, the location atom required by the activity is in the path condition with the accepting polarity; arrival branches, the route validator, instruction route provenance and the drop-off destination check are decided the same way. Covers every instruction from any controller because it quantifies over code paths, not over sampled instructions.", "4/C07"),
 "C10": ("guard dominance (membership atoms) + receiver-role census + truth tables of the membership predicates",
         "Every state write in every enter() is dominated by the membership test of the entity whose resource is used; the built-in dispatchers' filters and per-fleet fold are checked over all fleet counts; every grant_access_* call site is classified by receiver role. One construct (Dispatcher._is_valid_for_dispatch uses the vehicle as receiver) is a listed known finding.", "4/C10"),
 "C17": ("typestate pairing for the assignment record + enter-call discipline + guard dominance in the dispatcher filter",
         "Assignment record acquired in enter() is released on every success path of exit() (except request gone), every enter() call is preceded by the previous activity's exit(), the record has a closed writer/caller set, the dispatcher's request filter implies 'no vehicle dispatched'; no state produced by a call that can touch the record is dropped from a result (state lineage), and every successful enter installs the activity. Inductive over all redirect/interrupt/strand histories.", "4/C17"),
 "C09": ("typestate transition shape + adopt-on-success / fold-threading dataflow + push/pop end consistency + phase threading",
         "transition_previous_to_next returns enter(exit(sim)) or no state on every path; apply_instructions adopts only tested-successful states, threads its accumulator through every iteration without early exit and records 'applied' only when adopting; generator order, driver-last push, head/head stack ends and the phase threading of StepSimulation.update are decided on the expanded data flow; on the instruction path (everything apply_instructions can reach) no produced state is dropped, every successful enter installs the activity, and error pairs are used only after their error was ruled out. Covers every instruction/rejection combination because it is a statement about all paths.", "4/C09"),
}
CLAIMED.update(json.load(open(os.path.join(V, "tools", "claimed_extra.json"))) if os.path.exists(os.path.join(V, "tools", "claimed_extra.json")) else {})

ADD4 = {
 "C01": " Round 4: calls whose value depends on the ambient time zone / locale / environment (datetime.fromtimestamp without tz, time.localtime, os.environ ...) are reported (HO.ambient).",
 "C02": " Round 4: a counter record in its initial state (ChargerState / Base) is built only where the entity is constructed or extended; Base.has_available_stall truth table; both state slots tested in the generic transition; dynamic `**` field writes count for every closed writer set.",
 "C03": " Round 4: drop_off_trip refuses for no other reason than a missing vehicle or a misplaced passenger (other direction of the iff); drop-off in every update whose path has not established that the vehicle left its trip; both state slots of exit / enter tested in the generic transition.",
 "C04": " Round 4: both energy tallies start at zero at every Vehicle construction site; the consumption rate of a tabular powertrain is a value the table spans (np.interp, a table element, or an interpolation whose speed is boxed in by the table's ends).",
 "C05": " Round 4: energy_gained / energy_dispensed / balance start at zero at every construction site of Vehicle / Station (base case of the conservation law).",
 "C06": " Round 4: every travelling activity is entered only with a route checked to start at the vehicle (GD.START) and the validator accepts a non-empty route only if it does; the two halves of the traversal partition have a closed writer set; successor conditions are specialised to the hand-over's own predecessor; Base.has_available_stall truth table.",
 "C07": " Round 4: the validator table treats atoms outside the specification as free (an extra accepted case is a violation, not a refusal); closed writer set of the traversal partition.",
 "C08": " Round 4: `_replace(**computed)` / `Cls(**computed)` are writers of every field whose name occurs as a constant in that module.",
 "C10": " Round 4: every path that builds a DispatchStationInstruction is judged (a memo / cache hit is a path of its own).",
 "C11": " Round 4: the price rows read in one step are merged row by row into one accumulator by the per-row merge (any key-level merge of blocks is reported); the price setter is judged by effect.",
 "C12": " Round 4: other direction of eligibility — a vehicle is turned away only for a stated reason, and the base-charging guard is exactly `at a base AND below the threshold` (truth table; the side of the threshold itself is not pinned); infinite-entry mask and bound update judged semantically.",
 "C13": " Round 4: an empty route for distinct positions only when a step of the assembly failed (each deciding condition classified); search helpers of the network are followed; link table / KD-tree rules by syntax tree.",
 "C16": " Round 4: values handed out by the road network's own structures (networkx returns its internal dictionaries) are tracked through locals, iteration and holder containers: any store into them outside __init__ is reported, temporary edits included.",
 "C18": " Round 4: the hand-over of the head of the queue is a truth table over (vehicle, station, free plug): ChargingStation(own station, own plug) exactly when all three hold; grant conditions are specialised to a queued vehicle.",
 "C20": " Round 4: the per-vehicle step of the driver phase hands on the state the driver's update produced whenever it produced one; closures created in a loop that outlive their iteration and read loop variables are reported (PY.late-binding, on every property's anchor files).",
}
ADD5 = {
 "C01": " Round 5: process-lifetime memory package-wide (module/class containers written at run time, cached mutable results changed by a caller, stateful closures).",
 "C02": " Round 5: the vehicle-update phase threads its state.",
 "C03": " Round 5: the vehicle-update phase threads its state; move() hands back no state only when the traversal produced none; entities enter a state only at initialisation and through the request updates.",
 "C04": " Round 5: the out-of-energy helper ends in OutOfService.enter on every non-error path.",
 "C05": " Round 5: energy is booked as gained only by add_energy.",
 "C06": " Round 5: vehicle-phase fold threading; move() rejections.",
 "C08": " Round 5: closed caller set of the entity-adding operations.",
 "C09": " Round 5: acquire/release pairing for all four resource kinds; instructions applied without one pop per vehicle are a violation.",
 "C10": " Round 5: admission truth table (fleets configured iff the request names a fleet).",
 "C11": " Round 5: Request.from_row refuses only for a missing field or a failed conversion; process memory in the configuration modules.",
 "C12": " Round 5: process memory and cross-key normalisation slips in the configuration modules the thresholds come from.",
 "C13": " Round 5: the road network is not changed after construction (C16's rule).",
 "C14": " Round 5: the road network is not changed after construction (C16's rule).",
 "C15": " Round 5: pending reports are bound only by Reporter.__init__ / flush and never emptied or cut; collectors do not hand out containers they later empty.",
 "C16": " Round 5: process-lifetime memory package-wide.",
 "C17": " Round 5: one-pop clause; entity entry closed.",
 "C18": " Round 5: the built-in charging controller's candidates exclude queued and charging vehicles.",
 "C19": " Round 5: pending reports never withdrawn; add_energy books as gained the difference of the stored level; station-load sum also in case-split form.",
 "C20": " Round 5: the driver phase folds over the vehicles on every path; stateful closures in the schedule table's builders.",
}
for _k, _v in ADD5.items():
    ADD4[_k] = ADD4.get(_k, "") + _v
ADD7 = {
 "C01": " Round 7: a filter / sort-key callable handed to a collection iterator keeps nothing from one element to the next (HO.stateful-callback: no write into captured state, directly or through a package function that writes into its parameter).",
 "C06": " Round 7: a vehicle written back with a new position -- by move() or by a helper that commits its parameter -- carries the odometer tick too.",
 "C11": " Round 7: rows reach the stepper in file order also through a new constructor; the fold of the rows read in a step reaches _map_to_station_ids whole, and a step that read price rows ends without applying any only when they folded to nothing.",
 "C12": " Round 7: writer/reader agreement of valid_dispatch_states (the loader folds configured names by lower / strip / separator removal only; the dispatcher compares the lower-cased class name).",
 "C16": " Round 7: a one-shot iterator stored in a state record through a local is reported.",
 "C19": " Round 7: an advanced odometer committed inside a helper move() hands the vehicle to is reported once, too.",
}
for _k, _v in ADD7.items():
    ADD4[_k] = ADD4.get(_k, "") + _v
TRUST = TRUST + (" Since round 4 the loader canonicalises spellings before analysis (hivecheck/canon.py: argument style of the pinned tree, walrus, chained _replace, library forms, moved functions put back) "
                 "and the path enumerator splices the paths of functions the pinned tree does not have into their callers; both are behaviour-preserving by construction and part of the trusted base."
                 " Round 7 adds to that base: pinned names of locals restored by binding-site signatures (localsback.py), package-wide inlining of new single-expression members, assertions read as non-branches.")

NA_REASON = "check not built yet in this round (DESIGN.md section 4 describes the planned static clauses); not claimed until built and validated both ways"

m = {
 "version": 1,
 "setup_cmd": "/venv/bin/python -W ignore -m hivecheck.setup",
 "hooks": {"guard": "NREL_HIVE_VERIF", "enable": "none needed: static analysis reads /repo's sources; there is no instrumentation in /repo",
           "baseline_off_cmd": "cd /repo && /venv/bin/python -m pytest -ra -q -p no:cacheprovider --timeout=900 --continue-on-collection-errors",
           "source_commits": [], "add_only": True},
 "engines": [{"name": "hivecheck", "path": "hivecheck/", "serves_properties": sorted(CLAIMED),
              "kind_free_text": "repository-specific static analyser: ast loader, path-sensitive symbolic def-use (flow.py), typestate/guard-dominance/who-may-call/finite-ordering rules; mypy-as-library types for the hash-order and immutability rules"}],
 "checks": [],
 "notes": "Static analysis only: no check imports or runs nrel.hive. Exit 0 = all obligations discharged (KNOWN-FINDING lines for listed findings), 1 = VIOLATION, 2 = ANALYSIS-ERROR (checker could not decide; never a verdict). known_findings.json lists fixed and known findings; seeded/ holds independently written breaking changes and which checks catch them (DESIGN.md section 10).",
 "not_applicable": [],
}
for p in props:
    pid = p["id"]
    if pid in CLAIMED and os.path.exists(os.path.join(V, "hivecheck", "props", pid.lower() + ".py")):
        tech, text, ref = CLAIMED[pid]
        text = text + ADD4.get(pid, "")
        m["checks"].append({
            "property_id": pid,
            "quick_cmd": f"./check {pid} --tier quick",
            "thorough_cmd": f"./check {pid} --tier thorough",
            "evidence_file": f"evidence/{pid}.json",
            "replay_cmd_template": "./check --replay {path}",
            "engine": "hivecheck",
            "level_claimed": {"category": "other", "text": text, "design_ref": f"DESIGN.md section {ref}"},
            "level_note": TRUST,
            "technique": "static analysis: " + tech,
        })
    else:
        m["not_applicable"].append({"property_id": pid, "reason": NA_REASON})
json.dump(m, open(os.path.join(V, "MANIFEST.json"), "w"), indent=1)
print("claimed", [c["property_id"] for c in m["checks"]], "na", len(m["not_applicable"]))
