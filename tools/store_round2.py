#!/usr/bin/env python3
"""Copy validated round-2 seeds from /tmp/seedout2 into /verif/seeded/<id>/ with the builder's validation record and the
own-check result measured BEFORE the checks were adapted (from /tmp/round2.log)."""
import json, os, re, shutil, subprocess, sys
log = {}
for line in open("/tmp/round2.log"):
    parts = [x.strip() for x in line.split(" | ", 2)]
    if len(parts) == 3:
        log[parts[0]] = (parts[1], parts[2])
head = subprocess.run(["git", "-C", "/tmp/wt/val", "rev-parse", "--short", "HEAD"], capture_output=True, text=True).stdout.strip()
for sid, (val, res) in sorted(log.items()):
    p, v = sid.split("-")
    src = f"/tmp/seedout2/{p}/{v}"
    dst = f"/verif/seeded/{sid}"
    if not os.path.isdir(src):
        continue
    ok = "demo_before_exit=0 demo_after_exit=1" in val and "failing_set=b0536415" in val
    if not ok:
        print("NOT VALID", sid, val); continue
    os.makedirs(dst, exist_ok=True)
    for f in ("patch.diff", "demo.py"):
        shutil.copy(os.path.join(src, f), os.path.join(dst, f))
    try:
        meta = json.load(open(os.path.join(src, "meta.json")))
    except Exception as e:
        meta = {"note": f"author's meta.json unreadable: {e}"}
    m = re.search(r"exit=(\d)", res)
    rc = int(m.group(1)) if m else None
    rules = sorted(set(re.findall(r"\[([A-Za-z.\-]+) / D\d+\]", res)))
    meta.update({
        "id": sid, "property": p, "round": 2,
        "author": "independent sub-agent given only the property text and a scratch worktree under /tmp/wt, nothing from /verif",
        "validated_by_builder": {
            "worktree_commit": f"{head} (scratch worktree /tmp/wt/val of /repo)",
            "command": f"tools/validate_seed.sh /tmp/seedout2/{p}/{v} /tmp/wt/val",
            "result": val,
            "meaning": "demo exits 0 (PASS) on the unchanged worktree, exits 1 (FAIL) with the patch applied; the pytest result line and the md5 of the sorted set of failing test ids (b0536415 = the 8 always-failing tests of BASELINE.json) are unchanged with the patch",
        },
        "own_check_before_adaptation": {"exit": rc, "verdict": {0: "missed", 1: "caught", 2: "analysis-error (no verdict)"}.get(rc, "?"), "rules": rules},
    })
    json.dump(meta, open(os.path.join(dst, "meta.json"), "w"), indent=1)
    print("stored", sid, meta["own_check_before_adaptation"]["verdict"])
