#!/bin/sh
# usage: validate_seed.sh <src dir with patch.diff+demo.py> <scratch worktree>
# confirms: patch applies, suite result unchanged (273 passed / same 8 failing), demo PASS before, FAIL after
src="$1"; wt="$2"
git -C "$wt" checkout -q -- . || exit 9
cd "$wt"
PYTHONPATH="$wt" /venv/bin/python "$src/demo.py" >/tmp/demo_before.$$ 2>&1; b=$?
git -C "$wt" apply "$src/patch.diff" || { echo "APPLY-FAILED"; exit 9; }
PYTHONPATH="$wt" /venv/bin/python "$src/demo.py" >/tmp/demo_after.$$ 2>&1; a=$?
t=$(PYTHONPATH="$wt" /venv/bin/python -m pytest -q -p no:cacheprovider --timeout=900 2>&1 | tail -1)
f=$(PYTHONPATH="$wt" /venv/bin/python -m pytest -q -p no:cacheprovider --timeout=900 2>&1 | grep '^FAILED' | sed 's/ - .*//' | sort | md5sum | cut -c1-8)
git -C "$wt" checkout -q -- .
echo "demo_before_exit=$b demo_after_exit=$a tests='$t' failing_set=$f"
tail -3 /tmp/demo_after.$$ | cut -c1-300
rm -f /tmp/demo_before.$$ /tmp/demo_after.$$
