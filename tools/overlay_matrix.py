#!/venv/bin/python
"""Seed x check matrix computed through the loader overlay (nothing is written to /repo): for every stored seeded change and
every property, what the quick check reports that it does not report on the current tree. Writes /tmp/overlay_matrix.json."""
import glob, importlib, json, os, sys, multiprocessing as mp
sys.path.insert(0, "/verif")
import warnings; warnings.filterwarnings("ignore")
from hivecheck.loader import Repo
from hivecheck.report import Ctx
from hivecheck import selftest as st, AnalysisError

ALL = [f"C{i:02d}" for i in range(1, 21)]

def one(args):
    prop, sid = args
    mod = importlib.import_module(f"hivecheck.props.{prop.lower()}")
    eds = st.edits_from_patch(f"/verif/seeded/{sid}/patch.diff", reverse=False)
    v = st.V(f"seed-{sid}", eds[0][0], eds[0][1], eds[0][2], kind="quiet", more=tuple(eds[1:]))
    base = BASE[prop]
    r = st._run_variant((prop, v, "/repo", base))
    return prop, sid, r[2], r[3]

if __name__ == "__main__":
    props = [a for a in sys.argv[1:] if a.startswith("C") and "-" not in a] or ALL
    seeds = [a for a in sys.argv[1:] if "-" in a] or sorted(os.path.basename(os.path.dirname(p)) for p in glob.glob("/verif/seeded/C*/patch.diff"))
    BASE = {}
    for p in props:
        mod = importlib.import_module(f"hivecheck.props.{p.lower()}")
        ctx = Ctx(p, Repo(), "quick", 0, quiet=True)
        try:
            mod.run(ctx)
        except AnalysisError as e:
            ctx.soft_fail(str(e))
        BASE[p] = st._viol_keys(ctx)
    jobs = [(p, s) for p in props for s in seeds]
    with mp.get_context("fork").Pool(16, maxtasksperchild=25) as pool:
        res = pool.map(one, jobs, chunksize=1)
    out = {}
    for p, s, status, msg in res:
        d = out.setdefault(s, {"fires": {}, "noverdict": [], "stale": []})
        if status == "fail":
            d["fires"][p] = msg[:300]
        elif status == "stale":
            d["stale"].append(p)
        elif "no verdict" in msg:
            d["noverdict"].append(p)
    json.dump(out, open("/tmp/overlay_matrix.json", "w"), indent=1)
    for s in sorted(out):
        d = out[s]
        print(s, sorted(d["fires"]), ("noverdict=" + ",".join(d["noverdict"])) if d["noverdict"] else "", ("STALE=" + ",".join(d["stale"])) if d["stale"] else "")
