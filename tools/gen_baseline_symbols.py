#!/venv/bin/python
"""Writes hivecheck/baseline_symbols.json: every (file, qualified function name) of /repo's package as of now. Functions not
in this table are 'new' to the checker and, when they are pure expression helpers, are inlined at their call sites."""
import ast, json, os, sys
sys.path.insert(0, os.path.dirname(os.path.dirname(os.path.abspath(__file__))))
from hivecheck.inline import qualnames
out = []
root = "/repo"
for dp, dns, fns in os.walk(os.path.join(root, "nrel", "hive")):
    dns.sort()
    for fn in sorted(fns):
        if fn.endswith(".py"):
            rel = os.path.relpath(os.path.join(dp, fn), root)
            tree = ast.parse(open(os.path.join(dp, fn), encoding="utf-8").read())
            for qn, d, cls, outer in qualnames(tree):
                a = d.args
                out.append([rel, qn, [x.arg for x in a.posonlyargs + a.args + a.kwonlyargs]])
            for c in ast.walk(tree):
                if isinstance(c, ast.ClassDef):
                    out.append([rel, "class:" + c.name, None])
            # module-level names bound by assignment (constants) and the module's import table
            for st_ in tree.body:
                tg = st_.targets if isinstance(st_, ast.Assign) else ([st_.target] if isinstance(st_, ast.AnnAssign) else [])
                for t_ in tg:
                    if isinstance(t_, ast.Name):
                        out.append([rel, "const:" + t_.id, None])
            for st_ in ast.walk(tree):
                if isinstance(st_, ast.Import):
                    for a_ in st_.names:
                        out.append([rel, "import:" + (a_.asname or a_.name.split(".")[0]), [a_.name if a_.asname else a_.name.split(".")[0]]])
                elif isinstance(st_, ast.ImportFrom) and st_.module and not st_.level:
                    for a_ in st_.names:
                        out.append([rel, "import:" + (a_.asname or a_.name), [st_.module + "." + a_.name]])
json.dump(sorted(out), open(os.path.join(os.path.dirname(os.path.dirname(os.path.abspath(__file__))), "hivecheck", "baseline_symbols.json"), "w"))
print(len(out), "symbols")

# ---- local variable binding sites of every function (hivecheck/localsback.py, pass LB): hivecheck/baseline_locals.json
from hivecheck import localsback
loc = {}
for dp, dns, fns in os.walk(os.path.join(root, "nrel", "hive")):
    dns.sort()
    for fn in sorted(fns):
        if fn.endswith(".py"):
            rel = os.path.relpath(os.path.join(dp, fn), root)
            if "/resources/" in rel:
                continue
            tree = ast.parse(open(os.path.join(dp, fn), encoding="utf-8").read())
            for qn, d, cls, outer in qualnames(tree):
                b = localsback.bindings(d)
                if b:
                    loc.setdefault(rel, {})[qn] = b
json.dump(loc, open(os.path.join(os.path.dirname(os.path.dirname(os.path.abspath(__file__))), "hivecheck", "baseline_locals.json"), "w"), sort_keys=True)
print(sum(len(v) for v in loc.values()), "functions with local bindings")

# ---- argument style of every (callee name, parameter) in the pinned tree: hivecheck/baseline_calls.json (canon.py, pass K)
from hivecheck import canon
sigs = canon.Sigs()
trees = {}
for dp, dns, fns in os.walk(os.path.join(root, "nrel", "hive")):
    dns.sort()
    for fn in sorted(fns):
        if fn.endswith(".py"):
            rel = os.path.relpath(os.path.join(dp, fn), root)
            trees[rel] = ast.parse(open(os.path.join(dp, fn), encoding="utf-8").read())
            sigs.add_tree(trees[rel])
seen = {}
for rel, tree in trees.items():
    def walk(node, cls):
        for ch in ast.iter_child_nodes(node):
            c2 = ch.name if isinstance(ch, ast.ClassDef) else cls
            if isinstance(ch, ast.Call):
                nm = canon.call_name(ch)
                sig = sigs.resolve(ch, cls) if nm else None
                if sig:
                    st = canon.arg_styles(ch, sig)
                    if st:
                        for key in canon.call_names(ch, cls):
                            for p, s in st.items():
                                seen.setdefault((key, p), set()).add(s)
            walk(ch, c2)
    walk(tree, None)
rows = sorted([a, b, next(iter(s))] for (a, b), s in seen.items() if len(s) == 1)
json.dump(rows, open(os.path.join(os.path.dirname(os.path.dirname(os.path.abspath(__file__))), "hivecheck", "baseline_calls.json"), "w"))
print(len(rows), "single-style (callee, parameter) pairs;", sum(1 for s in seen.values() if len(s) > 1), "mixed")
