#!/venv/bin/python
"""Writes hivecheck/baseline_symbols.json: every (file, qualified function name) of /repo's package as of now. Functions not
in this table are 'new' to the checker and, when they are pure expression helpers, are inlined at their call sites."""
import ast, json, os, sys
sys.path.insert(0, os.path.dirname(os.path.dirname(os.path.abspath(__file__))))
from hivecheck.inline import qualnames
out = []
root = "/repo"
for dp, dns, fns in os.walk(os.path.join(root, "nrel", "hive")):
    dns.sort()
    for fn in sorted(fns):
        if fn.endswith(".py"):
            rel = os.path.relpath(os.path.join(dp, fn), root)
            tree = ast.parse(open(os.path.join(dp, fn), encoding="utf-8").read())
            for qn, d, cls, outer in qualnames(tree):
                a = d.args
                out.append([rel, qn, [x.arg for x in a.posonlyargs + a.args + a.kwonlyargs]])
json.dump(sorted(out), open(os.path.join(os.path.dirname(os.path.dirname(os.path.abspath(__file__))), "hivecheck", "baseline_symbols.json"), "w"))
print(len(out), "symbols")
