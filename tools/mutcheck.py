#!/venv/bin/python
"""mutcheck.py <mutant id> [Cxx...] : run quick checks on one mutant of /tmp/mut/mutants.json through the overlay"""
import sys, os, json, importlib, warnings
warnings.filterwarnings("ignore")
sys.path.insert(0, os.path.dirname(os.path.dirname(os.path.abspath(__file__))))
from hivecheck.loader import Repo
from hivecheck.report import Ctx, apply_known
from hivecheck import AnalysisError, loader as _loader, selftest as st
m = {x["id"]: x for x in json.load(open("/tmp/mut/mutants.json"))}[int(sys.argv[1])]
b = open("/repo/" + m["file"], "rb").read()
ov = {m["file"]: (b[:m["a"]] + m["new"].encode() + b[m["b"]:]).decode()}
print(m["file"], m["line"], m["func"], m["op"], repr(m["old"][:80]), "->", repr(m["new"][:80]))
props = [a.upper() for a in sys.argv[2:]] or [f"C{i:02d}" for i in range(1, 21)]
for p in props:
    mod = importlib.import_module(f"hivecheck.props.{p.lower()}")
    res = {}
    for name, o in (("base", None), ("mut", ov)):
        st._clear_caches(); _loader.set_inline_for(p)
        ctx = Ctx(p, Repo("/repo", o), "quick", 0, quiet=True)
        err = None
        try:
            try: mod.run(ctx)
            except AnalysisError as e: ctx.soft_fail(str(e))
            ctx.end_of_run()
        except AnalysisError as e: err = str(e)
        apply_known(ctx)
        res[name] = ({(o_.rule, o_.file, o_.function, o_.construct): o_ for o_ in ctx.obs if o_.status == "violation"}, err)
    new = [o_ for k, o_ in res["mut"][0].items() if k not in res["base"][0]]
    if new: print(f"  {p}: VIOLATION [{new[0].rule}] {new[0].instance[:100]} -- {new[0].why[:160]}")
    elif res["mut"][1]: print(f"  {p}: ANALYSIS-ERROR {res['mut'][1][:200]}")
