#!/venv/bin/python
"""Apply every seeded change to /repo in turn, run all quick checks, undo; print which checks fire."""
import json, os, subprocess, sys, glob
V = "/verif"
ALL = [f"C{i:02d}" for i in range(1, 21)]
roots = sys.argv[1:] or sorted(glob.glob("/verif/seeded/*/patch.diff"))
assert subprocess.run(["git", "-C", "/repo", "diff", "--quiet"]).returncode == 0, "/repo not clean"
out = {}
for patch in roots:
    name = os.path.basename(os.path.dirname(patch)) if patch.endswith("patch.diff") else patch
    if subprocess.run(["git", "-C", "/repo", "apply", patch]).returncode != 0:
        print(name, "APPLY-FAILED"); continue
    fired = {}
    try:
        procs = {c: subprocess.Popen([f"{V}/check", c, "--tier", "quick"], stdout=subprocess.PIPE, stderr=subprocess.STDOUT, text=True) for c in ALL}
        for c, p in procs.items():
            o, _ = p.communicate()
            if p.returncode == 1:
                rules = sorted({l.split("[")[1].split(" /")[0] for l in o.splitlines() if l.startswith("  nrel") and "[" in l})
                fired[c] = rules
            elif p.returncode != 0:
                fired[c] = ["EXIT%d: %s" % (p.returncode, [l for l in o.splitlines() if "ANALYSIS-ERROR" in l][:1])]
    finally:
        subprocess.run(["git", "-C", "/repo", "checkout", "-q", "--", "."])
    out[name] = fired
    print(name, json.dumps(fired))
    sys.stdout.flush()
json.dump(out, open("/tmp/seed_matrix.json", "w"), indent=1)
