#!/venv/bin/python
"""Run quick checks on /repo + one patch through the loader overlay (nothing is written to /repo).
usage: ov.py <patch.diff | dir with patch.diff> [Cxx ...]   (default: all 20)"""
import sys, os, importlib, re, shutil, subprocess, tempfile, warnings
warnings.filterwarnings("ignore")
sys.path.insert(0, os.path.dirname(os.path.dirname(os.path.abspath(__file__))))
from hivecheck.loader import Repo
from hivecheck.report import Ctx, apply_known
from hivecheck import AnalysisError, loader as _loader, selftest as st

def overlay_from_patch(pf, repo="/repo"):
    files = sorted({m.group(1) for ln in open(pf, errors="replace") for m in [re.match(r"^(?:\+\+\+ b|--- a)/(.*)$", ln.rstrip("\n"))] if m})
    tmp = tempfile.mkdtemp(prefix="ov_")
    try:
        for f in files:
            if os.path.exists(os.path.join(repo, f)):
                os.makedirs(os.path.dirname(os.path.join(tmp, f)), exist_ok=True)
                shutil.copy(os.path.join(repo, f), os.path.join(tmp, f))
        r = subprocess.run(["git", "apply", "--unsafe-paths", "--directory", tmp, os.path.abspath(pf)], cwd=tmp, capture_output=True, text=True)
        if r.returncode:
            r = subprocess.run(["patch", "-p1", "-s", "-i", os.path.abspath(pf)], cwd=tmp, capture_output=True, text=True)
            if r.returncode:
                raise SystemExit("patch does not apply: " + r.stderr[:300])
        return {f: open(os.path.join(tmp, f), encoding="utf-8").read() for f in files if f.endswith(".py") and os.path.exists(os.path.join(tmp, f))}
    finally:
        shutil.rmtree(tmp, ignore_errors=True)

if __name__ == "__main__":
    pf = sys.argv[1]
    if os.path.isdir(pf):
        pf = os.path.join(pf, "patch.diff")
    props = [a.upper() for a in sys.argv[2:]] or [f"C{i:02d}" for i in range(1, 21)]
    ov = overlay_from_patch(pf)
    for p in props:
        mod = importlib.import_module(f"hivecheck.props.{p.lower()}")
        res = {}
        for name, o in (("base", None), ("patched", ov)):
            st._clear_caches()
            _loader.set_inline_for(p)
            ctx = Ctx(p, Repo("/repo", o), "quick", 0, quiet=True)
            try:
                try:
                    mod.run(ctx)
                except AnalysisError as e:
                    ctx.soft_fail(str(e))
                ctx.end_of_run()
                err = None
            except AnalysisError as e:
                err = str(e)
            apply_known(ctx)
            res[name] = ({(o.rule, o.file, o.function, o.construct): o for o in ctx.obs if o.status == "violation"}, err)
        new = [o for k, o in res["patched"][0].items() if k not in res["base"][0]]
        if new:
            print(f"{p}: {len(new)} NEW VIOLATION(S)")
            for o in new[:6]:
                print(f"   {o.file}:{o.line} {o.function} [{o.rule}] {o.instance[:110]} -- {o.why[:260]}")
        elif res["patched"][1]:
            print(f"{p}: ANALYSIS-ERROR {res['patched'][1][:300]}")
        else:
            print(f"{p}: silent")
