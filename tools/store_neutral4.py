#!/usr/bin/env python3
"""Copy the validated fourth-round refactorings from /tmp/neutral4 into /verif/neutral/<id>/ with the builder's validation
(/tmp/neutral4_validation.json: suite result line and failing set with the patch applied to a scratch worktree) and what the checker
FROZEN at tag r7-baseline reported (/tmp/neutral4_measure_frozen.json)."""
import json, os, shutil
val = json.load(open("/tmp/neutral4_validation.json"))
meas = json.load(open("/tmp/neutral4_measure_frozen.json"))
for nid in sorted(val):
    ok = "8 failed, 273 passed, 3 skipped" in val[nid] and "failing_set=b0536415" in val[nid]
    if not ok:
        print("NOT VALID", nid, val[nid]); continue
    src, dst = f"/tmp/neutral4/{nid}", f"/verif/neutral/{nid}"
    os.makedirs(dst, exist_ok=True)
    shutil.copy(f"{src}/patch.diff", f"{dst}/patch.diff")
    try:
        meta = json.load(open(f"{src}/meta.json"))
    except Exception as ex:
        meta = {"id": nid, "note": f"author's meta.json unreadable: {ex}"}
    e = meas.get(nid, {"fires": {}, "noverdict": {}})
    meta["round"] = 4
    meta["validated_by_builder"] = val[nid]
    meta["frozen_checker_r7_baseline"] = {"alarms": sorted(e["fires"]), "refusals": sorted(e["noverdict"])}
    json.dump(meta, open(f"{dst}/meta.json", "w"), indent=1)
    print("stored", nid, sorted(e["fires"]), sorted(e["noverdict"]))
