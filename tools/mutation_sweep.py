#!/venv/bin/python
"""Blind-spot search: first-order mutants of the functions the checks say they analyse (evidence/*.json `functions`).

phase enumerate : AST-positioned mutants (boundary comparisons, and/or, dropped `not`, negated branch, stale sibling name,
                  dropped functional update, dropped _replace keyword, swapped arguments, +/-, min/max, 0/1 subscripts)
phase tests     : each mutant on one of 16 scratch copies of /repo under /tmp/mut (never /repo): killed by the unedited suite?
phase checks    : every test-surviving mutant under all 20 quick checks through the loader overlay

A mutant that survives the suite AND every check is either equivalent, irrelevant to the 20 properties, or a blind spot of the
checker; the list is reviewed by hand (tools output only; this is checker validation, not a deciding step of any property).

usage: mutation_sweep.py enumerate|tests|checks|report [--only <substr of file>] [--limit N]
state: /tmp/mut/mutants.json
"""
import argparse, ast, glob, json, os, random, re, shutil, subprocess, sys, multiprocessing as mp
import warnings; warnings.filterwarnings("ignore")

ROOT = os.path.dirname(os.path.dirname(os.path.abspath(__file__)))
sys.path.insert(0, ROOT)
REPO = "/repo"
STATE = "/tmp/mut/mutants.json"
DESELECT = [
    "tests/test_initialize_simulation.py::TestInitializeSimulation::test_initialize_simulation_with_sampling",
    "tests/test_osm_roadnetwork.py::TestOSMRoadNetwork::test_route",
    "tests/test_routetraversal.py::TestRouteTraversal::test_traverse_with_enough_time",
    "tests/test_routetraversal.py::TestRouteTraversal::test_traverse_without_enough_time",
    "tests/test_sample_functions.py::TestSampleVehicles::test_sample_n_requests_default",
    "tests/test_sample_functions.py::TestSampleVehicles::test_sample_n_vehicles_default",
    "tests/test_sample_functions.py::TestSampleVehicles::test_sample_n_with_failure",
    "tests/test_update_requests_sampling.py::TestUpdateRequestsSampling::test_update",
]
STEMS = ("sim", "simulation", "state", "vehicle", "veh", "station", "base", "request", "req", "route", "env", "result", "traversal", "charger", "mechatronics")
NEIGH = {ast.Lt: "<=", ast.LtE: "<", ast.Gt: ">=", ast.GtE: ">", ast.Eq: "!=", ast.NotEq: "==", ast.Is: "is not", ast.IsNot: "is", ast.In: "not in", ast.NotIn: "in"}


def covered_functions():
    cov = {}
    for f in sorted(glob.glob(os.path.join(ROOT, "evidence", "C*.json"))):
        e = json.load(open(f))
        for fn in e.get("coverage", {}).get("functions", []):
            cov.setdefault(fn, set()).add(e["property_id"])
    return cov


def _off(lines_off, line, col, srcb):
    return lines_off[line - 1] + col


class Enum:
    def __init__(self, rel, src):
        self.rel, self.src = rel, src
        self.b = src.encode("utf-8")
        self.line_off = [0]
        for ln in self.b.split(b"\n"):
            self.line_off.append(self.line_off[-1] + len(ln) + 1)
        self.out = []

    def span(self, n):
        return self.line_off[n.lineno - 1] + n.col_offset, self.line_off[n.end_lineno - 1] + n.end_col_offset

    def seg(self, n):
        a, b = self.span(n)
        return self.b[a:b].decode("utf-8")

    def add(self, qn, op, node, new, a=None, b=None):
        if a is None:
            a, b = self.span(node)
        old = self.b[a:b].decode("utf-8")
        if old == new:
            return
        self.out.append({"file": self.rel, "func": qn, "op": op, "line": node.lineno, "a": a, "b": b, "old": old, "new": new})

    def function(self, qn, fn):
        params = [a.arg for a in fn.args.args + fn.args.kwonlyargs + fn.args.posonlyargs]
        defs = {p: fn.lineno for p in params}
        nested = set()
        for n in ast.walk(fn):
            if n is not fn and isinstance(n, (ast.FunctionDef, ast.Lambda, ast.AsyncFunctionDef)):
                for m in ast.walk(n):
                    nested.add(id(m))
        for n in ast.walk(fn):
            if isinstance(n, ast.Name) and isinstance(n.ctx, ast.Store):
                defs.setdefault(n.id, n.lineno)
                defs[n.id] = min(defs[n.id], n.lineno)
        stale_count = 0
        for n in ast.walk(fn):
            if isinstance(n, (ast.FunctionDef, ast.AsyncFunctionDef)) and n is not fn:
                continue
            # docstrings / log messages are not worth mutating
            if isinstance(n, ast.Compare) and len(n.ops) == 1 and type(n.ops[0]) in NEIGH:
                l, r = self.seg(n.left), self.seg(n.comparators[0])
                self.add(qn, "cmp", n, f"{l} {NEIGH[type(n.ops[0])]} {r}")
            elif isinstance(n, ast.BoolOp):
                # swap the operator between the first two operands
                a = self.span(n.values[0])[1]
                b = self.span(n.values[1])[0]
                mid = self.b[a:b].decode()
                word = "and" if isinstance(n.op, ast.And) else "or"
                other = "or" if word == "and" else "and"
                if re.search(rf"\b{word}\b", mid):
                    self.add(qn, "boolop", n, re.sub(rf"\b{word}\b", other, mid, count=1), a, b)
            elif isinstance(n, ast.UnaryOp) and isinstance(n.op, ast.Not):
                self.add(qn, "dropnot", n, "(" + self.seg(n.operand) + ")")
            elif isinstance(n, (ast.If, ast.IfExp)) and not (isinstance(n.test, ast.UnaryOp) and isinstance(n.test.op, ast.Not)):
                t = n.test
                if not isinstance(t, ast.Compare) and not isinstance(t, ast.BoolOp):
                    self.add(qn, "negate", t, f"not ({self.seg(t)})")
            elif isinstance(n, ast.BinOp) and isinstance(n.op, (ast.Add, ast.Sub, ast.Mult, ast.Div)):
                a = self.span(n.left)[1]
                b = self.span(n.right)[0]
                mid = self.b[a:b].decode()
                sym = {ast.Add: "+", ast.Sub: "-", ast.Mult: "*", ast.Div: "/"}[type(n.op)]
                oth = {"+": "-", "-": "+", "*": "/", "/": "*"}[sym]
                if mid.count(sym) == 1 and not isinstance(n.left, ast.Constant) or (mid.count(sym) == 1 and not isinstance(getattr(n.left, "value", None), str)):
                    if not (isinstance(n.left, ast.Constant) and isinstance(n.left.value, str)) and not isinstance(n.left, ast.JoinedStr) and not isinstance(n.right, ast.JoinedStr):
                        self.add(qn, "arith", n, mid.replace(sym, oth), a, b)
            elif isinstance(n, ast.Call):
                f = n.func
                if isinstance(f, ast.Name) and f.id in ("min", "max") :
                    self.add(qn, "minmax", f, "max" if f.id == "min" else "min")
                if isinstance(f, ast.Name) and f.id in ("any", "all"):
                    self.add(qn, "anyall", f, "all" if f.id == "any" else "any")
                # swapped first two positional arguments when both are plain names / attributes
                if len(n.args) >= 2 and all(isinstance(x, (ast.Name, ast.Attribute)) for x in n.args[:2]) and not n.keywords:
                    fname = f.attr if isinstance(f, ast.Attribute) else getattr(f, "id", "")
                    if fname not in ("isinstance", "getattr", "hasattr", "setattr", "format", "join", "debug", "info", "warning", "error"):
                        a0, a1 = self.seg(n.args[0]), self.seg(n.args[1])
                        a = self.span(n.args[0])[0]
                        b = self.span(n.args[1])[1]
                        mid = self.b[self.span(n.args[0])[1]:self.span(n.args[1])[0]].decode()
                        self.add(qn, "argswap", n, a1 + mid + a0, a, b)
                # dropped keyword of a functional update
                if isinstance(f, ast.Attribute) and f.attr in ("_replace",) or (isinstance(f, ast.Name) and f.id == "replace"):
                    if len(n.keywords) >= 2:
                        for i, kw in enumerate(n.keywords):
                            if kw.arg is None:
                                continue
                            # remove "name=value," textually
                            ka = self.line_off[kw.value.lineno - 1] + kw.value.col_offset - len(kw.arg) - 1
                            kb = self.span(kw.value)[1]
                            tail = self.b[kb:kb + 40].decode("utf-8", "ignore")
                            m = re.match(r"\s*,\s*", tail)
                            if m:
                                kb += len(m.group(0).encode())
                                self.add(qn, "dropkw", kw.value, "", ka, kb)
                # dropped link of a method chain x.a(..).b(..) -> x.b(..)   (x.a dropped)
                if isinstance(f, ast.Attribute) and isinstance(f.value, ast.Call) and isinstance(f.value.func, ast.Attribute):
                    inner = f.value
                    recv = self.seg(inner.func.value)
                    a, b = self.span(inner)
                    if not recv.startswith(("log", "os.", "ft.", "np.", "h3.", "json", "re.")) and inner.func.attr not in ("items", "values", "keys", "get", "format", "lower", "upper", "strip", "split"):
                        self.add(qn, "dropchain", inner, recv, a, b)
            elif isinstance(n, ast.Assign) and len(n.targets) == 1 and isinstance(n.targets[0], ast.Name) and isinstance(n.value, ast.Call):
                c = n.value
                f = c.func
                # x2 = x.method(...)  ->  x2 = x     /   x2 = f(x, ...) -> x2 = x  (only when names are siblings)
                src_name = None
                if isinstance(f, ast.Attribute) and isinstance(f.value, ast.Name):
                    src_name = f.value.id
                elif c.args and isinstance(c.args[0], ast.Name):
                    src_name = c.args[0].id
                if src_name and _sibling(src_name, n.targets[0].id) and src_name != n.targets[0].id:
                    self.add(qn, "dropupdate", c, src_name)
            elif isinstance(n, ast.Subscript) and isinstance(n.slice, ast.Constant) and n.slice.value in (0, 1, -1) and isinstance(n.ctx, ast.Load):
                new = {0: "1", 1: "0", -1: "0"}[n.slice.value]
                self.add(qn, "index", n.slice, new)
            elif isinstance(n, ast.Name) and isinstance(n.ctx, ast.Load) and id(n) not in nested and stale_count < 14:
                # stale sibling: replace a use of x by a sibling y that is defined before this line
                sibs = [y for y, ln in defs.items() if y != n.id and ln < n.lineno and _sibling(n.id, y)]
                # only when x itself was defined from something (not a parameter used at its first mention)
                for y in sibs[:2]:
                    self.add(qn, "stale", n, y)
                    stale_count += 1


def _sibling(x, y):
    tx, ty = set(x.lower().split("_")), set(y.lower().split("_"))
    common = tx & ty & set(STEMS)
    if not common:
        return False
    # err / error names are a different role
    bad = {"error", "err", "id", "ids", "time", "type", "count", "km", "geoid", "index", "idx"}
    if (tx & bad) != (ty & bad):
        return False
    return True


def enumerate_mutants(only=None):
    cov = covered_functions()
    byfile = {}
    for k, props in cov.items():
        rel, qn = k.split("::", 1)
        byfile.setdefault(rel, {})[qn] = sorted(props)
    muts = []
    for rel, fns in sorted(byfile.items()):
        if only and only not in rel:
            continue
        p = os.path.join(REPO, rel)
        if not os.path.exists(p):
            continue
        src = open(p, encoding="utf-8").read()
        tree = ast.parse(src)
        en = Enum(rel, src)

        def walk(node, prefix):
            for ch in ast.iter_child_nodes(node):
                if isinstance(ch, ast.ClassDef):
                    walk(ch, prefix + [ch.name])
                elif isinstance(ch, (ast.FunctionDef, ast.AsyncFunctionDef)):
                    qn = ".".join(prefix + [ch.name])
                    if qn in fns:
                        before = len(en.out)
                        en.function(qn, ch)
                        for m in en.out[before:]:
                            m["props"] = fns[qn]
                    walk(ch, prefix + [ch.name])
        walk(tree, [])
        # de-duplicate identical spans (nested functions are walked from their parent too)
        seen = set()
        for m in en.out:
            k = (m["a"], m["b"], m["new"])
            if k in seen:
                continue
            seen.add(k)
            # must compile
            b = en.b[:m["a"]] + m["new"].encode() + en.b[m["b"]:]
            try:
                compile(b.decode("utf-8"), rel, "exec")
            except SyntaxError:
                continue
            muts.append(m)
    for i, m in enumerate(muts):
        m["id"] = i
    return muts


def mutated_source(m):
    b = open(os.path.join(REPO, m["file"]), "rb").read()
    return (b[:m["a"]] + m["new"].encode() + b[m["b"]:]).decode("utf-8")


def _worker_dir():
    k = mp.current_process()._identity[0] if mp.current_process()._identity else 0
    d = f"/tmp/mut/w{k}"
    if not os.path.exists(d):
        subprocess.run(["rsync", "-a", "--exclude", ".git", REPO + "/", d + "/"], check=True)
    return d


def run_tests(m):
    d = _worker_dir()
    path = os.path.join(d, m["file"])
    orig = open(os.path.join(REPO, m["file"]), encoding="utf-8").read()
    try:
        open(path, "w", encoding="utf-8").write(mutated_source(m))
        cmd = ["/venv/bin/python", "-W", "ignore", "-m", "pytest", "-q", "-x", "-p", "no:cacheprovider", "--timeout=120", "--no-header"]
        for t in DESELECT:
            cmd += ["--deselect", t]
        env = dict(os.environ, PYTHONPATH=d, PYTHONDONTWRITEBYTECODE="1")
        try:
            r = subprocess.run(cmd, cwd=d, env=env, capture_output=True, text=True, timeout=400)
            tail = r.stdout.strip().split("\n")[-1] if r.stdout.strip() else ""
            status = "survived" if r.returncode == 0 else "killed"
        except subprocess.TimeoutExpired:
            status, tail = "killed", "timeout"
        return m["id"], status, tail[:200]
    finally:
        open(path, "w", encoding="utf-8").write(orig)


def run_checks(job):
    m, prop = job
    from hivecheck.loader import Repo
    from hivecheck.report import Ctx
    from hivecheck import selftest as st, AnalysisError, loader as _loader
    import importlib
    st._clear_caches()
    mod = importlib.import_module(f"hivecheck.props.{prop.lower()}")
    ov = {m["file"]: mutated_source(m)}
    try:
        _loader.set_inline_for(prop)
        ctx = Ctx(prop, Repo(REPO, ov), "quick", 0, quiet=True)
        try:
            mod.run(ctx)
        except AnalysisError as e:
            ctx.soft_fail(str(e))
        ctx.end_of_run()
        keys = st._viol_keys(ctx)
    except AnalysisError as e:
        return m["id"], prop, "noverdict", str(e)[:200]
    except Exception as e:
        return m["id"], prop, "noverdict", f"CRASH {type(e).__name__}: {e}"[:200]
    new = keys - BASE[prop]
    if new:
        return m["id"], prop, "fires", repr(sorted(new)[0])[:300]
    if ctx.shortfalls:
        return m["id"], prop, "noverdict", "; ".join(str(s) for s in ctx.shortfalls)[:200]
    return m["id"], prop, "silent", ""


BASE = {}

if __name__ == "__main__":
    ap = argparse.ArgumentParser()
    ap.add_argument("phase")
    ap.add_argument("--only")
    ap.add_argument("--limit", type=int, default=0)
    ap.add_argument("--jobs", type=int, default=16)
    ap.add_argument("--ops", default="")
    a = ap.parse_args()
    os.makedirs("/tmp/mut", exist_ok=True)
    if a.phase == "enumerate":
        muts = enumerate_mutants(a.only)
        json.dump(muts, open(STATE, "w"))
        from collections import Counter
        print(len(muts), "mutants", Counter(m["op"] for m in muts))
    elif a.phase == "tests":
        muts = json.load(open(STATE))
        todo = [m for m in muts if "test" not in m and (not a.ops or m["op"] in a.ops.split(","))]
        if a.limit:
            random.Random(1).shuffle(todo)
            todo = todo[: a.limit]
        byid = {m["id"]: m for m in muts}
        with mp.get_context("fork").Pool(a.jobs) as pool:
            for i, (mid, status, tail) in enumerate(pool.imap_unordered(run_tests, todo, chunksize=1)):
                byid[mid]["test"] = status
                byid[mid]["test_tail"] = tail
                if i % 50 == 0:
                    json.dump(muts, open(STATE, "w"))
                    print(i, "/", len(todo), flush=True)
        json.dump(muts, open(STATE, "w"))
        from collections import Counter
        print(Counter(m.get("test") for m in muts))
    elif a.phase == "checks":
        import importlib
        from hivecheck.loader import Repo
        from hivecheck.report import Ctx
        from hivecheck import selftest as st, AnalysisError, loader as _loader
        ALL = [f"C{i:02d}" for i in range(1, 21)]
        if os.environ.get("SWEEP_PROPS"):   # e.g. the syntax-tree-only checks (C01 / C16 re-run the type checker per mutant: ~10 s each)
            ALL = [p for p in os.environ["SWEEP_PROPS"].split(",") if p]
        for p in ALL:
            mod = importlib.import_module(f"hivecheck.props.{p.lower()}")
            _loader.set_inline_for(p)
            ctx = Ctx(p, Repo(REPO), "quick", 0, quiet=True)
            try:
                mod.run(ctx)
            except AnalysisError as e:
                ctx.soft_fail(str(e))
            BASE[p] = st._viol_keys(ctx)
        muts = json.load(open(STATE))
        byid = {m["id"]: m for m in muts}
        todo = [m for m in muts if m.get("test") == "survived" and "checks" not in m]
        jobs = [(m, p) for m in todo for p in ALL]
        for m in todo:
            m["checks"] = {"fires": {}, "noverdict": {}}
        with mp.get_context("fork").Pool(a.jobs, maxtasksperchild=30) as pool:
            for i, (mid, prop, status, msg) in enumerate(pool.imap_unordered(run_checks, jobs, chunksize=4)):
                if status in ("fires", "noverdict"):
                    byid[mid]["checks"][status][prop] = msg
                if i % 2000 == 0:
                    print(i, "/", len(jobs), flush=True)
        json.dump(muts, open(STATE, "w"))
    elif a.phase == "report":
        muts = json.load(open(STATE))
        from collections import Counter
        print("tests:", Counter(m.get("test") for m in muts))
        surv = [m for m in muts if m.get("test") == "survived" and "checks" in m]
        fired = [m for m in surv if m["checks"]["fires"]]
        nov = [m for m in surv if not m["checks"]["fires"] and m["checks"]["noverdict"]]
        silent = [m for m in surv if not m["checks"]["fires"] and not m["checks"]["noverdict"]]
        print(f"test-surviving: {len(surv)}  reported by a check: {len(fired)}  refused only: {len(nov)}  unnoticed: {len(silent)}")
        print("per operator (survived / reported):", {op: (sum(1 for m in surv if m['op'] == op), sum(1 for m in fired if m['op'] == op)) for op in sorted({m['op'] for m in surv})})
        for m in sorted(silent + nov, key=lambda m: (m["file"], m["line"])):
            if a.only and a.only not in m["file"]:
                continue
            tag = "REFUSED " + ",".join(m["checks"]["noverdict"]) if m["checks"]["noverdict"] else "unnoticed"
            print(f"#{m['id']} {m['file']}:{m['line']} {m['func']} [{m['op']}] props={','.join(m['props'])} {tag}\n     - {m['old'][:150]!r}\n     + {m['new'][:150]!r}")
