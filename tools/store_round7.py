#!/usr/bin/env python3
"""Copy validated round-7 seeds from /tmp/seedout7 into /verif/seeded/<id>/ with the builder's validation record
(/tmp/round7_validation.json) and what the checker FROZEN at tag r7-baseline reported (/tmp/round7_measure.json)."""
import json, os, shutil, subprocess, re
meas = json.load(open("/tmp/round7_measure.json"))
val = json.load(open("/tmp/round7_validation.json"))
head = subprocess.run(["git", "-C", "/repo", "rev-parse", "--short", "HEAD"], capture_output=True, text=True).stdout.strip()
base = subprocess.run(["git", "-C", "/verif", "rev-parse", "--short", "r7-baseline"], capture_output=True, text=True).stdout.strip()
for sid in sorted(val):
    p, v = sid.split("-")
    src = f"/tmp/seedout7/{p}/{v}"
    dst = f"/verif/seeded/{sid}"
    ok = "demo_before_exit=0 demo_after_exit=1" in val[sid] and "failing_set=b0536415" in val[sid]
    if not ok:
        print("NOT VALID", sid, val[sid]); continue
    e = meas[sid]
    os.makedirs(dst, exist_ok=True)
    for f in ("patch.diff", "demo.py"):
        shutil.copy(os.path.join(src, f), os.path.join(dst, f))
    try:
        meta = json.load(open(os.path.join(src, "meta.json")))
    except Exception as ex:
        meta = {"note": f"author's meta.json unreadable: {ex}"}
    if "breaks" not in meta:
        meta["breaks"] = meta.get("summary", "")
    own = "caught" if p in e["fires"] else ("analysis-error (no verdict)" if p in e["noverdict"] else "missed")
    rules = sorted(set(re.findall(r"\('([A-Za-z.\-]+)',", e["fires"].get(p, ""))))
    meta.update({
        "id": sid, "property": p, "round": 7,
        "author": "independent sub-agent given only the property text (with the kind of manifestation asked for: cooperating sites + history, or unusual input + fault point) and a scratch worktree under /tmp/wt, nothing from /verif",
        "validated_by_builder": {
            "worktree_commit": f"{head} (scratch worktrees /tmp/wt/val7_* of /repo)",
            "command": f"tools/validate_seed.sh /tmp/seedout7/{p}/{v} /tmp/wt/val7_k",
            "result": val[sid],
            "meaning": "demo exits 0 (PASS) on the unchanged worktree, exits 1 (FAIL) with the patch applied; the pytest result line and the md5 of the sorted set of failing test ids (b0536415 = the 8 always-failing tests of BASELINE.json) are unchanged with the patch",
        },
        "own_check_before_adaptation": {"checker": f"/verif at tag r7-baseline ({base}), frozen before any round-7 change was written", "verdict": own, "rules": rules,
                                        "other_checks_reporting": sorted(q for q in e["fires"] if q != p), "other_checks_refusing": sorted(q for q in e["noverdict"] if q != p)},
    })
    json.dump(meta, open(os.path.join(dst, "meta.json"), "w"), indent=1)
    print("stored", sid, own, sorted(q for q in e["fires"] if q != p))
