#!/venv/bin/python
"""For every fix: commit in /repo: reverse-apply it, run the mapped check, record what the check reports
(this is what a regression of that fix would look like), restore. Prints JSON entries for known_findings.json."""
import json, subprocess, glob, os, sys
MAP = {"5b22673": ["C04"], "9e113fc": ["C04"], "2492e48": ["C01"], "2d97c28": ["C01"], "8cc0a13": ["C01"], "ae1935c": ["C11"], "aa65ee5": ["C01"], "11d65eb": ["C01"],
       "0d57f92": ["C07"], "e3f2fbd": ["C10"], "89e7de8": ["C09"], "2c906a0": ["C17"], "51cdc4e": ["C19"], "2d5d9a8": ["C14"], "405b6bb": ["C14"], "92ca551": ["C01"],
       "fe4d620": ["C01"], "2b2c903": ["C05", "C03"], "df07953": ["C18"], "6b32c5c": ["C18"], "f99daf3": ["C06"]}
entries = []
assert subprocess.run(["git", "-C", "/repo", "diff", "--quiet"]).returncode == 0
only = sys.argv[1:]
for c, props in MAP.items():
    if only and c not in only:
        continue
    subj = subprocess.run(["git", "-C", "/repo", "log", "--format=%s", "-1", c], capture_output=True, text=True).stdout.strip()
    patch = subprocess.run(["git", "-C", "/repo", "show", c], capture_output=True, text=True).stdout
    r = subprocess.run(["git", "-C", "/repo", "apply", "-R", "-"], input=patch, text=True, capture_output=True)
    if r.returncode != 0:
        print("CANNOT-REVERT", c, r.stderr[:200], file=sys.stderr)
        continue
    try:
        for p in props:
            for f in glob.glob(f"/verif/evidence/replay/{p}-*.json"):
                os.remove(f)
            o = subprocess.run(["/verif/check", p], capture_output=True, text=True)
            reps = sorted(glob.glob(f"/verif/evidence/replay/{p}-*.json"))
            if o.returncode != 1 or not reps:
                print("NOT-DETECTED", c, p, o.returncode, file=sys.stderr)
                continue
            seen = set()
            for f in reps:
                ob = json.load(open(f))
                k = (ob["rule"], ob["file"], ob["function"], ob["construct"])
                if k in seen:
                    continue
                seen.add(k)
                entries.append({"status": "fixed", "property": p, "commit": c, "rule": ob["rule"], "file": ob["file"], "function": ob["function"],
                                "construct": ob["construct"], "what": subj})
    finally:
        subprocess.run(["git", "-C", "/repo", "checkout", "-q", "--", "."])
json.dump(entries, open("/tmp/fixed_entries.json", "w"), indent=1)
print(len(entries), "entries")
