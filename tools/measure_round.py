#!/venv/bin/python
"""Measure a set of patches (seeded changes or refactorings) against a checker, through the loader overlay.

usage: measure_round.py --checker <dir containing hivecheck/> --out <json> [--props C01,C02] <dir-with-patch.diff> ...

Each patch is applied with `git apply` to a scratch copy of the files it touches (so hunks need not be unique text and new
files are supported); the resulting full file texts are the overlay. For every patch x property the quick check is run on the
overlay and compared with what it reports on the unchanged tree. Nothing is written to /repo.
"""
import argparse, glob, importlib, json, os, re, shutil, subprocess, sys, tempfile, multiprocessing as mp
import warnings; warnings.filterwarnings("ignore")

ap = argparse.ArgumentParser()
ap.add_argument("--checker", default=os.path.dirname(os.path.dirname(os.path.abspath(__file__))))
ap.add_argument("--out", default="/tmp/measure.json")
ap.add_argument("--props", default="")
ap.add_argument("--repo", default="/repo")
ap.add_argument("dirs", nargs="+")
args = ap.parse_args()
sys.path.insert(0, args.checker)
from hivecheck.loader import Repo  # noqa: E402
from hivecheck.report import Ctx  # noqa: E402
from hivecheck import selftest as st, AnalysisError  # noqa: E402
from hivecheck import loader as _loader  # noqa: E402

ALL = [f"C{i:02d}" for i in range(1, 21)]
PROPS = [p for p in args.props.split(",") if p] or ALL


def overlay_from_patch(pf):
    files = []
    for ln in open(pf, encoding="utf-8", errors="replace"):
        m = re.match(r"^\+\+\+ b/(.*)$", ln.rstrip("\n"))
        if m:
            files.append(m.group(1))
        m = re.match(r"^--- a/(.*)$", ln.rstrip("\n"))
        if m:
            files.append(m.group(1))
    files = sorted(set(files))
    tmp = tempfile.mkdtemp(prefix="ov_")
    try:
        for f in files:
            src = os.path.join(args.repo, f)
            if os.path.exists(src):
                os.makedirs(os.path.dirname(os.path.join(tmp, f)), exist_ok=True)
                shutil.copy(src, os.path.join(tmp, f))
        r = subprocess.run(["git", "apply", "--unsafe-paths", "--directory", tmp, os.path.abspath(pf)], cwd=tmp, capture_output=True, text=True)
        if r.returncode != 0:
            r = subprocess.run(["patch", "-p1", "-s", "-i", os.path.abspath(pf)], cwd=tmp, capture_output=True, text=True)
            if r.returncode != 0:
                return None
        ov = {}
        for f in files:
            p = os.path.join(tmp, f)
            if os.path.exists(p) and f.endswith(".py"):
                ov[f] = open(p, encoding="utf-8").read()
        return ov
    finally:
        shutil.rmtree(tmp, ignore_errors=True)


def one(job):
    prop, sid, ov = job
    st._clear_caches()
    mod = importlib.import_module(f"hivecheck.props.{prop.lower()}")
    if ov is None:
        return prop, sid, "stale", "patch does not apply"
    try:
        if hasattr(_loader, "set_inline_for"):
            _loader.set_inline_for(prop)
        repo = Repo(args.repo, ov)
        ctx = Ctx(prop, repo, "quick", 0, quiet=True)
        try:
            mod.run(ctx)
        except AnalysisError as e:
            ctx.soft_fail(str(e))
        ctx.end_of_run()
        keys = st._viol_keys(ctx)
    except AnalysisError as e:
        return prop, sid, "noverdict", str(e)[:300]
    except Exception as e:  # a crash of the checker is a refusal, and worth seeing
        return prop, sid, "noverdict", f"CRASH {type(e).__name__}: {e}"[:300]
    new = keys - BASE[prop]
    if new:
        return prop, sid, "fires", repr(sorted(new)[:3])[:600]
    if ctx.shortfalls:
        return prop, sid, "noverdict", "; ".join(str(s) for s in ctx.shortfalls)[:300]
    return prop, sid, "silent", ""


if __name__ == "__main__":
    patches = []
    for r in args.dirs:
        for pf in sorted(glob.glob(os.path.join(r, "**", "patch.diff"), recursive=True)):
            if os.path.getsize(pf) > 0:
                sid = os.path.relpath(os.path.dirname(pf), r).replace("/", "-")
                patches.append((sid, overlay_from_patch(pf)))
    BASE = {}
    for p in PROPS:
        mod = importlib.import_module(f"hivecheck.props.{p.lower()}")
        if hasattr(_loader, "set_inline_for"):
            _loader.set_inline_for(p)
        ctx = Ctx(p, Repo(args.repo), "quick", 0, quiet=True)
        try:
            mod.run(ctx)
        except AnalysisError as e:
            ctx.soft_fail(str(e))
        BASE[p] = st._viol_keys(ctx)
    jobs = [(p, s, ov) for s, ov in patches for p in PROPS]
    with mp.get_context("fork").Pool(16, maxtasksperchild=20) as pool:
        res = pool.map(one, jobs, chunksize=1)
    out = {}
    for p, s, status, msg in res:
        d = out.setdefault(s, {"fires": {}, "noverdict": {}, "stale": []})
        if status == "fires":
            d["fires"][p] = msg
        elif status == "noverdict":
            d["noverdict"][p] = msg
        elif status == "stale":
            d["stale"].append(p)
    json.dump(out, open(args.out, "w"), indent=1)
    for s in sorted(out):
        d = out[s]
        print(s, "fires=" + ",".join(sorted(d["fires"])), ("noverdict=" + ",".join(sorted(d["noverdict"]))) if d["noverdict"] else "", "STALE" if d["stale"] else "")
