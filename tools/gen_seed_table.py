#!/usr/bin/env python3
"""Markdown table of the round-2 seeded changes for DESIGN.md section 10 (from seeded/<id>/meta.json, seeded/EXPECTED.json
and the last overlay matrix in /tmp/overlay_matrix.json)."""
import json, re, glob, os
exp = json.load(open("/verif/seeded/EXPECTED.json"))
om = json.load(open("/tmp/overlay_matrix.json")) if os.path.exists("/tmp/overlay_matrix.json") else {}
def rules(sid, p):
    msg = om.get(sid, {}).get("fires", {}).get(p, "")
    return ", ".join(sorted(set(re.findall(r"\('([A-Za-z.\-]+)',", msg)))) or "?"
def short(s, n):
    s = " ".join(str(s).split()).replace("|", "/")
    return s if len(s) <= n else s[: n - 1] + "…"
print("| id | what the change does (author's words, shortened) | needs to manifest | own check, before adaptation | reported now by (rule) | also reported under |")
print("|---|---|---|---|---|---|")
for sid in sorted(exp):
    if sid[-1] not in "cd":
        continue
    m = json.load(open(f"/verif/seeded/{sid}/meta.json"))
    p = sid[:3]
    before = m.get("own_check_before_adaptation", {})
    b = before.get("verdict", "?") + (f" ({', '.join(before.get('rules', []))})" if before.get("rules") else "")
    now = f"{p}: {rules(sid, p)}" if p in exp[sid]["fires"] else "**not reported** (see below)"
    also = "; ".join(f"{q} ({rules(sid, q)})" for q in exp[sid]["fires"] if q != p) or "–"
    if exp[sid].get("noverdict"):
        also += f"; no verdict (exit 2) under {', '.join(exp[sid]['noverdict'])}"
    print(f"| {sid} | {short(m.get('breaks', ''), 230)} | {short(m.get('needs_to_manifest', ''), 160)} | {b} | {now} | {also} |")
