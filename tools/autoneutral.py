#!/venv/bin/python
"""Author-less false-alarm search: whole-package, behaviour-preserving source transformations computed from the syntax tree,
run under every quick check through the loader overlay (nothing is written to /repo).

transformations
  unparse   : every module re-printed by ast.unparse (quotes, parentheses, line breaks, comments gone)
  locals    : every function's local variables alpha-renamed (x -> x_r); parameters, globals, nonlocals, attributes, keywords untouched
  lambdas   : parameters of lambdas and of nested (non-method) functions that are never called by keyword renamed (p -> p_q)
  black79 / black140 : the package re-formatted by black at another line length (needs /venv/bin/black)

usage: autoneutral.py <transformation> [Cxx ...] [--only <substr of file>]
A check that is not silent on one of these is wrong (or brittle): this is checker validation, not a deciding step of any property.
"""
import ast, builtins, glob, importlib, os, subprocess, sys, tempfile, shutil, warnings, multiprocessing as mp
warnings.filterwarnings("ignore")
ROOT = os.path.dirname(os.path.dirname(os.path.abspath(__file__)))
sys.path.insert(0, ROOT)
REPO = "/repo"

SCOPES = (ast.FunctionDef, ast.AsyncFunctionDef, ast.Lambda)
COMPS = (ast.ListComp, ast.SetComp, ast.DictComp, ast.GeneratorExp)


def _params(fn):
    a = fn.args
    return {x.arg for x in a.posonlyargs + a.args + a.kwonlyargs} | ({a.vararg.arg} if a.vararg else set()) | ({a.kwarg.arg} if a.kwarg else set())


def _own_nodes(fn):
    """nodes of fn's own scope: not inside nested defs / lambdas / classes (comprehensions included, their targets handled apart)"""
    out = []
    stack = list(fn.body) if not isinstance(fn, ast.Lambda) else [fn.body]
    while stack:
        n = stack.pop()
        out.append(n)
        for c in ast.iter_child_nodes(n):
            if isinstance(c, SCOPES + (ast.ClassDef,)):
                out.append(c)      # the def statement itself binds its name here
                # decorators / defaults are evaluated in the enclosing scope
                if not isinstance(c, ast.ClassDef):
                    for d in c.args.defaults + [k for k in c.args.kw_defaults if k is not None] + getattr(c, "decorator_list", []):
                        stack.append(d)
                continue
            stack.append(c)
    return out


def _binds(fn):
    """names bound in fn's own scope (assignment, for, with, except, import, def/class, walrus incl. inside comprehensions)"""
    b, decl = set(), set()
    for n in _own_nodes(fn):
        if isinstance(n, ast.Name) and isinstance(n.ctx, (ast.Store, ast.Del)):
            b.add(n.id)
        elif isinstance(n, (ast.FunctionDef, ast.AsyncFunctionDef, ast.ClassDef)):
            b.add(n.name)
        elif isinstance(n, ast.ExceptHandler) and n.name:
            b.add(n.name)
        elif isinstance(n, (ast.Import, ast.ImportFrom)):
            for a in n.names:
                b.add((a.asname or a.name).split(".")[0])
        elif isinstance(n, (ast.Global, ast.Nonlocal)):
            decl |= set(n.names)
        elif isinstance(n, (ast.MatchAs, ast.MatchStar)) and n.name:
            b.add(n.name)
        elif isinstance(n, ast.MatchMapping) and n.rest:
            b.add(n.rest)
    return b, decl


def _comp_targets(fn):
    t = set()
    for n in _own_nodes(fn):
        if isinstance(n, COMPS):
            for g in n.generators:
                for x in ast.walk(g.target):
                    if isinstance(x, ast.Name):
                        t.add(x.id)
    return t


class Renamer(ast.NodeTransformer):
    """rename `names` everywhere under a scope, stopping at nested scopes that rebind the name"""
    def __init__(self, mapping):
        self.m = mapping

    def visit_Name(self, n):
        if n.id in self.m:
            return ast.copy_location(ast.Name(self.m[n.id], n.ctx), n)
        return n

    def _nested(self, n):
        shadow = _params(n) | (_binds(n)[0] if not isinstance(n, ast.Lambda) else set())
        inner = {k: v for k, v in self.m.items() if k not in shadow}
        # defaults / decorators belong to the enclosing scope
        n.args.defaults = [self.visit(d) for d in n.args.defaults]
        n.args.kw_defaults = [self.visit(d) if d is not None else None for d in n.args.kw_defaults]
        if hasattr(n, "decorator_list"):
            n.decorator_list = [self.visit(d) for d in n.decorator_list]
        if inner:
            r = Renamer(inner)
            if isinstance(n, ast.Lambda):
                n.body = r.visit(n.body)
            else:
                n.body = [r.visit(s) for s in n.body]
        return n

    def visit_FunctionDef(self, n):
        if n.name in self.m:
            n.name = self.m[n.name]
        return self._nested(n)

    visit_AsyncFunctionDef = visit_FunctionDef

    def visit_Lambda(self, n):
        return self._nested(n)

    def visit_ClassDef(self, n):
        return n      # class bodies do not see enclosing function locals through their methods in a way we rename; leave alone

    def visit_ExceptHandler(self, n):
        if n.name and n.name in self.m:
            n.name = self.m[n.name]
        self.generic_visit(n)
        return n

    def visit_MatchAs(self, n):
        if n.name and n.name in self.m:
            n.name = self.m[n.name]
        self.generic_visit(n)
        return n


def _has_class_using(fn, names):
    for n in ast.walk(fn):
        if isinstance(n, ast.ClassDef):
            for x in ast.walk(n):
                if isinstance(x, ast.Name) and x.id in names:
                    return True
    return False


def _all_names(tree):
    s = set(dir(builtins))
    for n in ast.walk(tree):
        if isinstance(n, ast.Name):
            s.add(n.id)
        elif isinstance(n, ast.arg):
            s.add(n.arg)
        elif isinstance(n, (ast.FunctionDef, ast.ClassDef)):
            s.add(n.name)
    return s


def t_locals(src):
    tree = ast.parse(src)
    taken = _all_names(tree)

    def do(fn):
        binds, decl = _binds(fn)
        loc = (binds | _comp_targets(fn)) - _params(fn) - decl
        loc = {x for x in loc if not x.startswith("__") and x != "_"}
        # imports inside functions bind names used as modules; fine to rename through asname? keep them
        for n in _own_nodes(fn):
            if isinstance(n, (ast.Import, ast.ImportFrom)):
                for a in n.names:
                    loc.discard((a.asname or a.name).split(".")[0])
            elif isinstance(n, (ast.FunctionDef, ast.AsyncFunctionDef, ast.ClassDef)):
                loc.discard(n.name)      # nested functions / classes keep their names (anchors are named)
        if any(isinstance(n, ast.Call) and isinstance(n.func, ast.Name) and n.func.id in ("locals", "vars", "eval", "exec") for n in ast.walk(fn)):
            return
        if loc and _has_class_using(fn, loc):
            return
        mapping = {}
        for x in sorted(loc):
            new = x + "_r"
            while new in taken:
                new += "r"
            mapping[x] = new
        if mapping:
            r = Renamer(mapping)
            fn.body = [r.visit(s) for s in fn.body]
            # comprehension targets in own scope were renamed by visit_Name already
        for n in _own_nodes(fn):
            pass

    def walk(node):
        for c in ast.iter_child_nodes(node):
            if isinstance(c, (ast.FunctionDef, ast.AsyncFunctionDef)):
                do(c)
            walk(c)
    walk(tree)
    ast.fix_missing_locations(tree)
    return ast.unparse(tree) + "\n"


def t_unparse(src):
    return ast.unparse(ast.parse(src)) + "\n"


def t_lambdas(src):
    tree = ast.parse(src)
    taken = _all_names(tree)
    kwnames = {k.arg for n in ast.walk(tree) if isinstance(n, ast.Call) for k in n.keywords if k.arg}

    def rename_params(fn):
        ps = [a for a in fn.args.posonlyargs + fn.args.args]
        mapping = {}
        for a in ps:
            if a.arg in ("self", "cls") or a.arg in kwnames:
                continue
            new = a.arg + "_q"
            while new in taken:
                new += "q"
            mapping[a.arg] = new
        if not mapping:
            return
        if not isinstance(fn, ast.Lambda):
            binds, decl = _binds(fn)
            if _has_class_using(fn, set(mapping)):
                return
        for a in ps:
            if a.arg in mapping:
                a.arg = mapping[a.arg]
        r = Renamer(mapping)
        if isinstance(fn, ast.Lambda):
            fn.body = r.visit(fn.body)
        else:
            fn.body = [r.visit(s) for s in fn.body]

    def walk(node, depth_in_fn):
        for c in ast.iter_child_nodes(node):
            if isinstance(c, ast.Lambda):
                rename_params(c)
                walk(c, True)
            elif isinstance(c, (ast.FunctionDef, ast.AsyncFunctionDef)):
                if depth_in_fn:
                    rename_params(c)
                walk(c, True)
            elif isinstance(c, ast.ClassDef):
                walk(c, False)
            else:
                walk(c, depth_in_fn)
    walk(tree, False)
    ast.fix_missing_locations(tree)
    return ast.unparse(tree) + "\n"


def _black(L, extra=()):
    tmp = tempfile.mkdtemp(prefix="an_")
    try:
        shutil.copytree(os.path.join(REPO, "nrel"), os.path.join(tmp, "nrel"))
        subprocess.run(["/venv/bin/black", "-q", "-l", str(L), *extra, os.path.join(tmp, "nrel", "hive")], capture_output=True)
        out = {}
        for p in glob.glob(os.path.join(tmp, "nrel/hive/**/*.py"), recursive=True):
            rel = os.path.relpath(p, tmp)
            s = open(p, encoding="utf-8").read()
            if s != open(os.path.join(REPO, rel), encoding="utf-8").read():
                out[rel] = s
        return out
    finally:
        shutil.rmtree(tmp, ignore_errors=True)


def build_overlay(kind, only=None):
    if kind == "black79":
        return _black(79)
    if kind == "black140":
        return _black(140, ("--skip-magic-trailing-comma",))
    fn = {"unparse": t_unparse, "locals": t_locals, "lambdas": t_lambdas}[kind]
    out = {}
    for p in sorted(glob.glob(os.path.join(REPO, "nrel/hive/**/*.py"), recursive=True)):
        rel = os.path.relpath(p, REPO)
        if "/resources/" in rel and not rel.endswith("mock_lobster.py"):
            continue
        if only and only not in rel:
            continue
        src = open(p, encoding="utf-8").read()
        try:
            new = fn(src)
            compile(new, rel, "exec")
        except Exception as e:      # leave the file alone
            print(f"  (left alone: {rel}: {type(e).__name__} {e})")
            continue
        if new != src:
            out[rel] = new
    return out


def _one(args):
    p, ov = args
    from hivecheck.loader import Repo
    from hivecheck.report import Ctx, apply_known
    from hivecheck import AnalysisError, loader as _loader, selftest as st
    mod = importlib.import_module(f"hivecheck.props.{p.lower()}")
    res = {}
    for name, o in (("base", None), ("patched", ov)):
        st._clear_caches()
        _loader.set_inline_for(p)
        ctx = Ctx(p, Repo(REPO, o), "quick", 0, quiet=True)
        try:
            try:
                mod.run(ctx)
            except AnalysisError as e:
                ctx.soft_fail(str(e))
            ctx.end_of_run()
            err = None
        except AnalysisError as e:
            err = str(e)
        except Exception as e:
            err = f"CRASH {type(e).__name__}: {e}"
        apply_known(ctx)
        res[name] = ({(o.rule, o.file, o.function, o.construct): o for o in ctx.obs if o.status == "violation"}, err)
    new = [o for k, o in res["patched"][0].items() if k not in res["base"][0]]
    lines = []
    if new:
        lines.append(f"{p}: {len(new)} NEW VIOLATION(S)")
        for o in new[:8]:
            lines.append(f"   {o.file}:{o.line} {o.function} [{o.rule}] {o.instance[:110]} -- {o.why[:260]}")
    elif res["patched"][1]:
        lines.append(f"{p}: ANALYSIS-ERROR {res['patched'][1][:400]}")
    else:
        lines.append(f"{p}: silent")
    return "\n".join(lines)


if __name__ == "__main__":
    args = sys.argv[1:]
    only = None
    if "--only" in args:
        i = args.index("--only"); only = args[i + 1]; del args[i:i + 2]
    jobs = 8
    if "--jobs" in args:
        i = args.index("--jobs"); jobs = int(args[i + 1]); del args[i:i + 2]
    kind = args[0]
    props = [a.upper() for a in args[1:]] or [f"C{i:02d}" for i in range(1, 21)]
    ov = build_overlay(kind, only)
    print(f"{kind}: {len(ov)} files rewritten")
    if "--dump" in os.environ.get("AN_FLAGS", ""):
        for rel, s in ov.items():
            os.makedirs(os.path.dirname("/tmp/an_dump/" + rel), exist_ok=True)
            open("/tmp/an_dump/" + rel, "w").write(s)
    with mp.Pool(min(jobs, len(props))) as pool:
        for r in pool.imap(_one, [(p, ov) for p in props]):
            print(r, flush=True)
