import logging, sys, io, contextlib, os, json, random
logging.disable(logging.CRITICAL)
with contextlib.redirect_stdout(io.StringIO()), contextlib.redirect_stderr(io.StringIO()):
    from nrel.hive.resources.mock_lobster import *
import networkx as nx, h3
from nrel.hive.model.roadnetwork.osm.osm_roadnetwork import OSMRoadNetwork
from nrel.hive.model.entity_position import EntityPosition
p = "/repo/nrel/hive/resources/scenarios/denver_downtown/road_network/downtown_denver_network.json"
with contextlib.redirect_stdout(io.StringIO()), contextlib.redirect_stderr(io.StringIO()):
    net = OSMRoadNetwork(nx.node_link_graph(json.load(open(p)), edges="links"))
g = net.graph
n0 = list(g.nodes)[0]
print("node data", g.nodes[n0], "res", h3.h3_get_resolution(g.nodes[n0]["geoid"]), h3.h3_to_geo(g.nodes[n0]["geoid"]))
lk = net.link_helper.links[next(iter(net.link_helper.links))]
print("link", lk, h3.h3_to_geo(lk.start))
print("min speed", net.min_speed_kmph, "max", max(l.speed_kmph for l in net.link_helper.links.values()))
random.seed(1)
links = sorted(net.link_helper.links.keys())
bad = 0; n=0
for _ in range(300):
    a = net.link_helper.links[random.choice(links)]; b = net.link_helper.links[random.choice(links)]
    o = EntityPosition(a.link_id, a.start); d = EntityPosition(b.link_id, b.end)
    if o == d: continue
    r = net.route(o, d)
    if len(r) < 2: continue
    inner = r[1:-1]
    t = sum(g.get_edge_data(*map(int, l.link_id.split("-")), 0)["travel_time"] for l in inner)
    src = int(a.link_id.split("-")[1]); dst = int(b.link_id.split("-")[0])
    best = nx.dijkstra_path_length(g, src, dst, weight="travel_time")
    n+=1
    if t > best + 1e-6:
        bad += 1
        if bad <= 3: print("suboptimal", a.link_id, b.link_id, t, best)
print("C14 suboptimal", bad, "of", n)
