"""
defect #23: a vehicle sent to a plug type it cannot use (or that the station does not have) never leaves DispatchStation.

DispatchStation.enter checks the route and the station's membership but not what ChargingStation.enter / ChargeQueueing.enter
will insist on at arrival and that cannot change on the way: that the station has the plug type and that the vehicle's
mechatronics can use it. An ICE vehicle sent to a DC fast-charge plug by a DispatchStationInstruction drives there, fails the
arrival hand-over in every step and stays in DispatchStation with an exhausted route.
Exits 0 (PASS) if the instruction is refused or the vehicle has left DispatchStation within two steps of arriving, 1 otherwise.
Run: cd <tree> && PYTHONPATH=<tree> /venv/bin/python /verif/planned_fixes/reproducers/d23.py
"""
import contextlib, io, logging, sys
logging.disable(logging.CRITICAL)
with contextlib.redirect_stdout(io.StringIO()), contextlib.redirect_stderr(io.StringIO()):
    from nrel.hive.resources.mock_lobster import *
    from nrel.hive.dispatcher.instruction.instructions import DispatchStationInstruction
    from nrel.hive.state.simulation_state.update.step_simulation import StepSimulation
    from nrel.hive.dispatcher.instruction_generator.instruction_generator import InstructionGenerator
    from nrel.hive.state.vehicle_state.dispatch_station import DispatchStation

    class Once(InstructionGenerator):
        def __init__(self): self.done = False
        def generate_instructions(self, sim, env):
            if self.done: return self, ()
            self.done = True
            return self, (DispatchStationInstruction("v_ice", "s0", mock_dcfc_charger_id()),)

    env = mock_env(mechatronics={DefaultIds.mock_mechatronics_bev_id(): mock_bev(), "ice": mock_ice()})
    station = mock_station(station_id="s0", chargers={mock_dcfc_charger_id(): 1})
    v = mock_vehicle(vehicle_id="v_ice", lat=39.75, lon=-104.99, soc=0.5, mechatronics=mock_ice())
    sim = mock_sim(sim_time=0, vehicles=(v,), stations=(station,))
    step = StepSimulation.from_tuple((Once(),))
    log = []
    arrived = None
    for i in range(20):
        sim, step = step.update(sim, env)
        vs = sim.vehicles["v_ice"].vehicle_state
        log.append(f"step {i}: {type(vs).__name__} route_links={len(getattr(vs,'route',()))}")
        if isinstance(vs, DispatchStation) and len(vs.route) == 0 and arrived is None:
            arrived = i
print("\n".join(log[:4] + ["..."] + log[-3:]))
vs = sim.vehicles["v_ice"].vehicle_state
if arrived is not None and isinstance(vs, DispatchStation):
    print(f"FAIL: arrived at the station at step {arrived} and is still in DispatchStation {len(log)-1-arrived} steps later")
    sys.exit(1)
print("PASS")
