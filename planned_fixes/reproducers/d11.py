import logging, io, contextlib, os, json
logging.disable(logging.CRITICAL)
with contextlib.redirect_stdout(io.StringIO()), contextlib.redirect_stderr(io.StringIO()):
    from nrel.hive.resources.mock_lobster import *
import networkx as nx
from nrel.hive.model.roadnetwork.osm.osm_roadnetwork import OSMRoadNetwork
from nrel.hive.initialization.sample_requests import default_request_sampler
from nrel.hive.initialization.sample_vehicles import sample_vehicles, build_default_location_sampling_fn, build_default_soc_sampling_fn
def quiet(f,*a,**k):
    with contextlib.redirect_stdout(io.StringIO()), contextlib.redirect_stderr(io.StringIO()):
        return f(*a,**k)
p = "/repo/nrel/hive/resources/scenarios/denver_downtown/road_network/downtown_denver_network.json"
net = quiet(OSMRoadNetwork, nx.node_link_graph(json.load(open(p)), edges="links"))
env = quiet(mock_env)
sim = quiet(mock_sim, road_network=net)
reqs = default_request_sampler(3, sim, env)
print(os.environ.get("PYTHONHASHSEED"), "requests:", [(r.id, r.origin[-6:], int(r.departure_time)) for r in reqs])
res = sample_vehicles(2, sim, env, build_default_location_sampling_fn(seed=0), build_default_soc_sampling_fn())
s2 = res.unwrap()
print(os.environ.get("PYTHONHASHSEED"), "vehicles:", [(v.id, v.mechatronics_id, v.geoid[-6:]) for v in s2.get_vehicles()])
