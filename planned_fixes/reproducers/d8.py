import logging, sys, io, contextlib, os, tempfile
logging.disable(logging.CRITICAL)
with contextlib.redirect_stdout(io.StringIO()), contextlib.redirect_stderr(io.StringIO()):
    from nrel.hive.resources.mock_lobster import *
import h3
from nrel.hive.state.simulation_state.update.charging_price_update import ChargingPriceUpdate
from pkg_resources import resource_filename
def quiet(f,*a,**k):
    with contextlib.redirect_stdout(io.StringIO()), contextlib.redirect_stderr(io.StringIO()):
        return f(*a,**k)
env = quiet(mock_env)
s0 = quiet(mock_station, station_id="s0")
sim = quiet(mock_sim, stations=(s0,), sim_time=100)
g7 = h3.h3_to_parent(s0.geoid, 7); g9 = h3.h3_to_parent(s0.geoid, 9)
d = tempfile.mkdtemp(); p = os.path.join(d, "prices.csv")
open(p,"w").write(f"time,geoid,charger_id,price_kwh\n0,{g7},DCFC,0.1\n0,{g9},DCFC,0.9\n")
u = ChargingPriceUpdate.build(p, resource_filename("nrel.hive.resources.chargers","default_chargers.csv"))
out, _ = u.update(sim, env)
print(os.environ.get("PYTHONHASHSEED"), "search res", sim.sim_h3_search_resolution, "price", out.stations["s0"].get_price("DCFC"))
