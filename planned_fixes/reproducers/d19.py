# defect #19: complete_trip_phase(PICKUP) overwrites the vehicle that pick_up_trip just paid
import contextlib, io, logging
logging.disable(logging.CRITICAL)
with contextlib.redirect_stdout(io.StringIO()), contextlib.redirect_stderr(io.StringIO()):
    from nrel.hive.resources.mock_lobster import *
    from nrel.hive.state.simulation_state import simulation_state_ops
    from nrel.hive.state.vehicle_state.dispatch_pooling_trip import DispatchPoolingTrip
    from nrel.hive.model.vehicle.trip_phase import TripPhase
v0_src, r0_src, r1_src, r0_dst, r1_dst = ("8f268cd9601daa1","8f268cd9601daac","8f268cd9601da10","8f268cd9601da1a","8f268cd9601da88")
with contextlib.redirect_stdout(io.StringIO()), contextlib.redirect_stderr(io.StringIO()):
    v0 = mock_vehicle_from_geoid(geoid=v0_src)
    r0 = mock_request_from_geoids(request_id="r0", origin=r0_src, destination=r0_dst, value=7.0)
    r1 = mock_request_from_geoids(request_id="r1", origin=r1_src, destination=r1_dst, value=11.0)
    sim = mock_sim(vehicles=(v0,), sim_timestep_duration_seconds=60)
    sim = simulation_state_ops.add_request_safe(sim, r0).unwrap()
    sim = simulation_state_ops.add_request_safe(sim, r1).unwrap()
    env = mock_env()
    route = mock_route_from_geoids(v0.geoid, r0.geoid)
    plan = ((r0.id, TripPhase.PICKUP),(r1.id, TripPhase.PICKUP),(r0.id, TripPhase.DROPOFF),(r1.id, TripPhase.DROPOFF))
    st = DispatchPoolingTrip.build(v0.id, plan, route)
    e, sim = st.enter(sim, env); assert e is None
    e, sim = st.update(sim, env); assert e is None      # arrives, picks up r0 (ServicingPoolingTrip.enter)
    b_after_first = sim.vehicles[v0.id].balance
    e, sim = sim.vehicles[v0.id].vehicle_state.update(sim, env); assert e is None   # moves to r1, picks it up (complete_trip_phase PICKUP)
v = sim.vehicles[v0.id]
print("balance after first pickup:", b_after_first, " after second pickup:", v.balance, " boarded:", sorted(v.vehicle_state.boarded_requests.keys()), " r1 still waiting:", "r1" in sim.requests)
expected = r0.value + r1.value
if abs(v.balance - expected) > 1e-9:
    print(f"FAIL: both requests were picked up (fares {r0.value} + {r1.value}) but the vehicle's balance is {v.balance}")
    raise SystemExit(1)
print("PASS")
