"""
defect #21: a vehicle that is already (nearly) full when it is granted a plug is passed over in the queue.

Scenario (package's own mock helpers, the real StepSimulation.update loop): one public station with a single DC
fast-charge plug; "a_charging" occupies it and unplugs at the fast-charge SoC limit after two steps; "q1_fleet"
(100 % SoC, a short drive away) and "q2_public" (25 % SoC) are dispatched to the station and join the queue in the
same step, so q1_fleet is first by vehicle id.

Before the fix (6b32c5c^): when the plug frees, q1's queue-to-plug transition is followed at once by
ChargingStation._perform_update -> charge(), which fails ("vehicle is full but still attempting to charge") while
q1 is within the 0.1 kWh full threshold; default_update returns the error, the step is rolled back, q2 takes the
plug and q1 is left waiting. After the fix q1 holds the plug for one step and leaves through the terminal condition.

The scenario scaffold (scripted generator, trajectory oracle) is taken from the seeded change C18-c's demonstration;
the hole was pointed out by the author of C18-e/f. Exits 0 with PASS when the queue is served in order, 1 otherwise.
Run: cd <tree> && PYTHONPATH=<tree> /venv/bin/python /verif/planned_fixes/reproducers/d21.py
"""
import logging
import sys
from typing import Dict, List, Tuple

from nrel.hive.resources.mock_lobster import (
    mock_env,
    mock_sim,
    mock_station,
    mock_vehicle,
    mock_dcfc_charger_id,
)

logging.disable(logging.CRITICAL)

from nrel.hive.dispatcher.instruction.instructions import (  # noqa: E402
    ChargeStationInstruction,
    DispatchStationInstruction,
)
from nrel.hive.dispatcher.instruction_generator.instruction_generator import (  # noqa: E402
    InstructionGenerator,
)
from nrel.hive.model.membership import Membership  # noqa: E402
from nrel.hive.state.simulation_state.update.step_simulation import StepSimulation  # noqa: E402
from nrel.hive.state.vehicle_state.charge_queueing import ChargeQueueing  # noqa: E402
from nrel.hive.state.vehicle_state.charging_station import ChargingStation  # noqa: E402

STATION = "s0"
PLUG = mock_dcfc_charger_id()
N_STEPS = 60


class ScriptedDispatch(InstructionGenerator):
    """issues a fixed set of instructions at the first time step, then nothing"""

    def __init__(self, script):
        self.script = script

    def generate_instructions(self, simulation_state, environment):
        step = int(simulation_state.sim_time - START) // int(
            simulation_state.sim_timestep_duration_seconds
        )
        return self, tuple(self.script.get(step, ()))


START = 6 * 3600


def queue_of(v):
    s = v.vehicle_state
    if isinstance(s, ChargeQueueing):
        return ("queue", s.station_id, s.charger_id)
    if isinstance(s, ChargingStation):
        return ("plug", s.station_id, s.charger_id)
    return (type(s).__name__, None, None)


def main() -> int:
    env = mock_env()
    station = mock_station(station_id=STATION, chargers={PLUG: 1})  # public station
    a = mock_vehicle(vehicle_id="a_charging", soc=0.785)
    q1 = mock_vehicle(vehicle_id="q1_fleet", lat=39.7585, lon=-104.974, soc=1.0)
    q2 = mock_vehicle(vehicle_id="q2_public", lat=39.7575, lon=-104.978, soc=0.25)
    sim = mock_sim(sim_time=START, vehicles=(a, q1, q2), stations=(station,))

    script = {
        0: (
            ChargeStationInstruction("a_charging", STATION, PLUG),
            DispatchStationInstruction("q1_fleet", STATION, PLUG),
            DispatchStationInstruction("q2_public", STATION, PLUG),
        )
    }
    step_fn = StepSimulation.from_tuple((ScriptedDispatch(script),))

    joined: Dict[str, Tuple[int, str]] = {}  # vehicle -> (step it was first seen waiting, id)
    prev: Dict[str, Tuple] = {v.id: queue_of(v) for v in sim.get_vehicles()}
    violations: List[str] = []
    log: List[str] = []
    plugged_from_queue: List[str] = []

    for step in range(N_STEPS):
        sim, step_fn = step_fn.update(sim, env)
        now = {v.id: queue_of(v) for v in sim.get_vehicles()}
        log.append(f"step {step:2d}: " + ", ".join(f"{k}={v[0]}" for k, v in sorted(now.items())))

        for vid, (kind, sid, cid) in now.items():
            if kind == "queue" and prev[vid][0] != "queue":
                joined[vid] = (step, vid)
            if kind != "queue" and prev[vid][0] == "queue":
                left_at = joined.pop(vid)
                if kind == "plug" and (sid, cid) == prev[vid][1:]:
                    plugged_from_queue.append(vid)
                    # anyone still waiting for the same plug type who was there before?
                    for other, (okind, osid, ocid) in now.items():
                        if okind == "queue" and (osid, ocid) == (sid, cid):
                            if joined[other] < left_at:
                                violations.append(
                                    f"step {step}: {vid} (joined the queue at step {left_at[0]}) "
                                    f"left the queue and started charging while {other} "
                                    f"(joined at step {joined[other][0]}) is still waiting"
                                )
        prev = now

    # sanity: the scenario must actually exercise the queue
    if len(plugged_from_queue) == 0:
        print("FAIL: scenario did not exercise the queue (nobody was served from the queue)")
        print("\n".join(log))
        return 1

    if violations:
        print("FAIL: charging queue was not served first-come first-served")
        for v in violations:
            print("  " + v)
        print("trajectory:")
        print("\n".join("  " + line for line in log))
        return 1

    print("\n".join(log)); print(f"PASS: queue served in arrival order {plugged_from_queue}")
    return 0


if __name__ == "__main__":
    sys.exit(main())
