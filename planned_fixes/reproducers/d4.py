import logging, sys, io, contextlib, os, tempfile
logging.disable(logging.CRITICAL)
with contextlib.redirect_stdout(io.StringIO()), contextlib.redirect_stderr(io.StringIO()):
    from nrel.hive.resources.mock_lobster import *
from nrel.hive.state.simulation_state.update.charging_price_update import ChargingPriceUpdate
def quiet(f,*a,**k):
    with contextlib.redirect_stdout(io.StringIO()), contextlib.redirect_stderr(io.StringIO()):
        return f(*a,**k)
env = quiet(mock_env)
s0 = quiet(mock_station, station_id="s0")
s1 = quiet(mock_station_from_geoid, geoid=somewhere_else(), station_id="s1")
sim = quiet(mock_sim, stations=(s0,s1), sim_time=100)
d = tempfile.mkdtemp()
p = os.path.join(d, "prices.csv")
open(p,"w").write("time,station_id,charger_id,price_kwh\n0,s0,DCFC,0.5\n")
from pkg_resources import resource_filename
chargers = resource_filename("nrel.hive.resources.chargers","default_chargers.csv")
u = ChargingPriceUpdate.build(p, chargers)
try:
    out, _ = u.update(sim, env)
    print("ok", out.stations["s0"].get_price("DCFC"), out.stations["s1"].get_price("DCFC"))
except Exception as e:
    print("C11 ABORT:", type(e).__name__, e)

# VehicleChargeEventsHandler.clear aliasing
from nrel.hive.reporting.handler.vehicle_charge_events_handler import VehicleChargeEventsHandler
from nrel.hive.reporting.reporter import Report, ReportType
h = VehicleChargeEventsHandler()
r = Report(ReportType.VEHICLE_CHARGE_EVENT, {"vehicle_id":"v","sim_time_start":0,"sim_time_end":1,"energy":1.0,"energy_units":"kwh"})
h.handle([r], None); h.clear(); h.handle([r], None)
print("C19 events after clear+1:", h.get_events()["vehicle_id"])
