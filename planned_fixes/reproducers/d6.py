import logging, sys, io, contextlib, os
logging.disable(logging.CRITICAL)
with contextlib.redirect_stdout(io.StringIO()), contextlib.redirect_stderr(io.StringIO()):
    from nrel.hive.resources.mock_lobster import *
from nrel.hive.dispatcher.instruction_generator.dispatcher import Dispatcher
from nrel.hive.state.simulation_state import simulation_state_ops as sso
from nrel.hive.state.simulation_state.update.step_simulation_ops import apply_instructions
from nrel.hive.dispatcher.instruction.instructions import *
from nrel.hive.model.membership import Membership
def quiet(f,*a,**k):
    with contextlib.redirect_stdout(io.StringIO()), contextlib.redirect_stderr(io.StringIO()):
        return f(*a,**k)
env = quiet(mock_env, fleet_ids=frozenset(["f1"])) if 'fleet_ids' in mock_env.__code__.co_varnames else None
if env is None:
    env = quiet(mock_env)._replace(fleet_ids=frozenset(["f1"]))
veh = quiet(mock_vehicle_from_geoid, geoid=somewhere(), soc=1.0)   # public vehicle (no membership)
print("vehicle membership:", veh.membership)
req = quiet(mock_request_from_geoids, origin=somewhere_else(), destination=somewhere(), fleet_id="f1")
sim = quiet(mock_sim, vehicles=(veh,))
sim = sso.add_request_safe(sim, req).unwrap()
d = Dispatcher(env.config.dispatcher)
_, instr = d.generate_instructions(sim, env)
print("C10-D3 dispatcher pairs:", instr)
sim2 = apply_instructions(sim, env, instr)
print("  state after apply:", type(sim2.vehicles[veh.id].vehicle_state).__name__)

# C10-D1 station membership via ChargingBase
st = quiet(mock_station, station_id="s0", membership=Membership.single_membership("fleetA"))
base = quiet(mock_base, base_id="b0", station_id="s0")   # public base co-located
vB = quiet(mock_vehicle, soc=0.3).set_membership(("fleetB",))
simb = quiet(mock_sim, vehicles=(vB,), stations=(st,), bases=(base,))
print("station grants vehicle?", st.membership.grant_access_to_membership(vB.membership), "base public?", base.membership.public)
simb2 = apply_instructions(simb, env, (ChargeBaseInstruction(vB.id, "b0", "DCFC"),))
print("C10-D1: state:", type(simb2.vehicles[vB.id].vehicle_state).__name__, "plugs free:", simb2.stations["s0"].get_available_chargers("DCFC"), "/", simb2.stations["s0"].get_total_chargers("DCFC"))
simb3 = apply_instructions(simb, env, (ChargeStationInstruction(vB.id, "s0", "DCFC"),))
print("   via ChargeStationInstruction:", type(simb3.vehicles[vB.id].vehicle_state).__name__)
