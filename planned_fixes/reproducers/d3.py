import logging, sys, io, contextlib, os
logging.disable(logging.CRITICAL)
with contextlib.redirect_stdout(io.StringIO()), contextlib.redirect_stderr(io.StringIO()):
    from nrel.hive.resources.mock_lobster import *
from nrel.hive.dispatcher.instruction_generator import assignment_ops
def quiet(f,*a,**k):
    with contextlib.redirect_stdout(io.StringIO()), contextlib.redirect_stderr(io.StringIO()):
        return f(*a,**k)
env = quiet(mock_env)
st = quiet(mock_station)
veh = quiet(mock_vehicle)
print(os.environ.get("PYTHONHASHSEED"), list(st.on_shift_access_chargers), assignment_ops.nearest_shortest_queue_ranking(veh, st, env))
