import logging, io, contextlib, os
logging.disable(logging.CRITICAL)
with contextlib.redirect_stdout(io.StringIO()), contextlib.redirect_stderr(io.StringIO()):
    from nrel.hive.resources.mock_lobster import *
from nrel.hive.dispatcher.instruction_generator.dispatcher import Dispatcher
from nrel.hive.state.simulation_state.update.step_simulation import StepSimulation
from dataclasses import dataclass
@dataclass(frozen=True)
class MyDispatcher(Dispatcher): pass
with contextlib.redirect_stdout(io.StringIO()), contextlib.redirect_stderr(io.StringIO()):
    cfg = mock_config().dispatcher
ss = StepSimulation.from_tuple((Dispatcher(cfg), MyDispatcher(cfg)))
print(os.environ.get("PYTHONHASHSEED"), type(ss.get_instruction_generator(Dispatcher).unwrap()).__name__)
