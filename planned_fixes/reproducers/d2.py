import logging, sys, io, contextlib
logging.disable(logging.CRITICAL)
with contextlib.redirect_stdout(io.StringIO()), contextlib.redirect_stderr(io.StringIO()):
    from nrel.hive.resources.mock_lobster import *
from nrel.hive.model.energy.energytype import EnergyType
from nrel.hive.state.vehicle_state.dispatch_trip import DispatchTrip
from nrel.hive.state.vehicle_state.charging_base import ChargingBase
from nrel.hive.state.simulation_state.update.step_simulation_ops import apply_instructions, perform_vehicle_state_updates
from nrel.hive.dispatcher.instruction.instructions import *
import h3

def quiet(f,*a,**k):
    with contextlib.redirect_stdout(io.StringIO()), contextlib.redirect_stderr(io.StringIO()):
        return f(*a,**k)

env = quiet(mock_env)
# 3: ChargingBase remote
far = h3.geo_to_h3(39.80, -105.05, 15)
st = quiet(mock_station_from_geoid, geoid=far, station_id="s0")
base = quiet(mock_base_from_geoid, geoid=far, station_id="s0", base_id="b0")
veh = quiet(mock_vehicle_from_geoid, geoid=somewhere(), soc=0.3)
sim = quiet(mock_sim, vehicles=(veh,), stations=(st,), bases=(base,))
print("chargers at station:", list(st.state.keys()))
cid = sorted(st.state.keys())[0]
i = ChargeBaseInstruction(veh.id, "b0", cid)
sim2 = apply_instructions(sim, env, (i,))
v = sim2.vehicles[veh.id]
print("C07: vehicle state", type(v.vehicle_state).__name__, "veh geoid", v.geoid, "base geoid", sim2.bases["b0"].geoid, "same?", v.geoid==sim2.bases["b0"].geoid)

# 6: applied_instructions on rejection
i2 = ReserveBaseInstruction(veh.id, "b0")   # remote -> rejected (None,None)
sim3 = apply_instructions(sim, env, (i2,))
print("C09: state after rejected:", type(sim3.vehicles[veh.id].vehicle_state).__name__, "applied_instructions:", dict(sim3.applied_instructions))

# 5: out of energy during DispatchTrip leaves stale dispatched_vehicle
req = quiet(mock_request_from_geoids, origin=far, destination=somewhere_else())
lowveh = quiet(mock_vehicle_from_geoid, geoid=somewhere(), soc=0.00001)
simr = quiet(mock_sim, vehicles=(lowveh,), stations=(st,), bases=(base,))
from nrel.hive.state.simulation_state import simulation_state_ops as sso
simr = sso.add_request_safe(simr, req).unwrap()
simr = apply_instructions(simr, env, (DispatchTripInstruction(lowveh.id, req.id),))
print("after dispatch:", type(simr.vehicles[lowveh.id].vehicle_state).__name__, "req.dispatched_vehicle", simr.requests[req.id].dispatched_vehicle)
for k in range(3):
    simr = perform_vehicle_state_updates(simr, env)
print("C17: after steps:", type(simr.vehicles[lowveh.id].vehicle_state).__name__, "req.dispatched_vehicle", simr.requests[req.id].dispatched_vehicle)
