import logging, io, contextlib, os
logging.disable(logging.CRITICAL)
with contextlib.redirect_stdout(io.StringIO()), contextlib.redirect_stderr(io.StringIO()):
    from nrel.hive.resources.mock_lobster import *
from nrel.hive.dispatcher.instruction.instruction_ops import trip_plan_all_requests_allow_pooling
from nrel.hive.model.vehicle.trip_phase import TripPhase
from nrel.hive.state.simulation_state import simulation_state_ops as sso
def quiet(f,*a,**k):
    with contextlib.redirect_stdout(io.StringIO()), contextlib.redirect_stderr(io.StringIO()):
        return f(*a,**k)
r = quiet(mock_request, request_id="r0", allows_pooling=True)
sim = sso.add_request_safe(quiet(mock_sim), r).unwrap()
print(os.environ.get("PYTHONHASHSEED"), trip_plan_all_requests_allow_pooling(sim, (("r0", TripPhase.PICKUP), ("r0", TripPhase.DROPOFF))))
