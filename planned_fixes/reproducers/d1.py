# ICE energy, powercurve overshoot, ChargingBase remote, OOS stale request, applied_instructions on rejection
from nrel.hive.resources.mock_lobster import *
from nrel.hive.model.energy.energytype import EnergyType
from nrel.hive.state.vehicle_state.dispatch_trip import DispatchTrip
from nrel.hive.state.vehicle_state.charging_base import ChargingBase
from nrel.hive.state.simulation_state.update.step_simulation_ops import apply_instructions, perform_vehicle_state_updates
from nrel.hive.dispatcher.instruction.instructions import *
import logging; logging.disable(logging.CRITICAL)

# 1 ICE
ice = mock_ice()
v = mock_vehicle(mechatronics=ice, soc=0.5)
route = mock_route()
v2 = ice.consume_energy(v, route)
print("ICE before", dict(v.energy), "after", dict(v2.energy), "expended", dict(v2.energy_expended))
v3 = ice.idle(v, 3600)
print("ICE idle before", dict(v.energy), "after", dict(v3.energy), "expended", dict(v3.energy_expended))

# 2 powercurve overshoot
bev = mock_bev()
vb = mock_vehicle(mechatronics=bev, soc=0.2)
from nrel.hive.model.energy.charger import Charger
dc = mock_dcfc_charger()
for dur in (1, 30, 60, 90):
    vv, t = bev.add_energy(vb, dc, dur)
    gained = vv.energy[EnergyType.ELECTRIC]-vb.energy[EnergyType.ELECTRIC]
    print("dur", dur, "gained", gained, "max deliverable", dc.rate*dur/3600, "t", t, "step", bev.powercurve.step_size_seconds)
