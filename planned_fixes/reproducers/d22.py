"""
finding #22: a vehicle dispatched to a request that allows pooling never leaves DispatchTrip.

DispatchTrip._default_terminal_state hands over to ServicingPoolingTrip when the driver and the request both allow pooling,
but ServicingPoolingTrip.enter accepts a DISPATCH_POOLING_TRIP predecessor only: the arrival transition fails with an error in
every step, the vehicle stays in DispatchTrip (route exhausted) at the pick-up point and the request is never picked up.
Exits 0 (PASS) if the vehicle has left DispatchTrip within two steps of arriving, 1 (FAIL) otherwise.
Run: cd <tree> && PYTHONPATH=<tree> /venv/bin/python /verif/planned_fixes/reproducers/d22.py
"""
import contextlib, io, logging, sys
logging.disable(logging.CRITICAL)
with contextlib.redirect_stdout(io.StringIO()), contextlib.redirect_stderr(io.StringIO()):
    from nrel.hive.resources.mock_lobster import *
    from nrel.hive.dispatcher.instruction.instructions import DispatchTripInstruction
    from nrel.hive.state.simulation_state import simulation_state_ops
    from nrel.hive.state.simulation_state.update.step_simulation import StepSimulation
    from nrel.hive.dispatcher.instruction_generator.instruction_generator import InstructionGenerator
    from nrel.hive.state.vehicle_state.dispatch_trip import DispatchTrip

    class Once(InstructionGenerator):
        def __init__(self): self.done = False
        def generate_instructions(self, sim, env):
            if self.done: return self, ()
            self.done = True
            return self, (DispatchTripInstruction("v0", "r0"),)

    v = mock_vehicle(vehicle_id="v0", lat=39.7585, lon=-104.974, soc=0.9)
    r = mock_request(request_id="r0", o_lat=39.7539, o_lon=-104.993, d_lat=39.74, d_lon=-104.98, allows_pooling=True)
    sim = mock_sim(sim_time=0, vehicles=(v,))
    sim = simulation_state_ops.add_request_safe(sim, r).unwrap()
    env = mock_env()
    step = StepSimulation.from_tuple((Once(),))
    log = []
    arrived = None
    for i in range(25):
        sim, step = step.update(sim, env)
        vs = sim.vehicles["v0"].vehicle_state
        log.append(f"step {i}: {type(vs).__name__} route_links={len(getattr(vs,'route',()))} request_waiting={'r0' in sim.requests}")
        if isinstance(vs, DispatchTrip) and len(vs.route) == 0 and arrived is None:
            arrived = i
print("\n".join(log[:3] + ["..."] + log[-4:]))
vs = sim.vehicles["v0"].vehicle_state
print("driver allows pooling:", sim.vehicles["v0"].driver_state.allows_pooling)
if arrived is not None and isinstance(vs, DispatchTrip):
    print(f"FAIL: arrived at the request at step {arrived} and is still in DispatchTrip {len(log)-1-arrived} steps later")
    sys.exit(1)
print("PASS")
