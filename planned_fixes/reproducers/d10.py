import logging, io, contextlib, os
logging.disable(logging.CRITICAL)
with contextlib.redirect_stdout(io.StringIO()), contextlib.redirect_stderr(io.StringIO()):
    from nrel.hive.resources.mock_lobster import *
from nrel.hive.dispatcher.instruction_generator.dispatcher import Dispatcher
from nrel.hive.dispatcher.instruction_generator.instruction_generator_ops import generate_instructions
from nrel.hive.util.dict_ops import DictOps
from nrel.hive.state.simulation_state import simulation_state_ops as sso
def quiet(f,*a,**k):
    with contextlib.redirect_stdout(io.StringIO()), contextlib.redirect_stderr(io.StringIO()):
        return f(*a,**k)
env = quiet(mock_env)._replace(fleet_ids=frozenset(["tnc_1","tnc_2"]))
veh = quiet(mock_vehicle_from_geoid, geoid=somewhere(), soc=1.0, vehicle_id="v1").set_membership(("tnc_1","tnc_2"))
ra = quiet(mock_request_from_geoids, request_id="ra", origin=somewhere_else(), destination=somewhere(), fleet_id="tnc_1")
rb = quiet(mock_request_from_geoids, request_id="rb", origin=somewhere_else(), destination=somewhere(), fleet_id="tnc_2")
sim = quiet(mock_sim, vehicles=(veh,))
sim = sso.add_request_safe(sim, ra).unwrap(); sim = sso.add_request_safe(sim, rb).unwrap()
res = generate_instructions((Dispatcher(env.config.dispatcher),), sim, env)
top, _ = DictOps.pop_from_stack_dict(res.instruction_stack, "v1")
print(os.environ.get("PYTHONHASHSEED"), "v1 is sent to", top.request_id)
