"""
defect #20: a vehicle that cannot use a plug type is admitted to its queue and then passed over forever.

Scenario (package's own mock helpers, the real StepSimulation.update loop): one public station with a single
DC fast-charge plug; "a_charging" occupies it and unplugs at the fast-charge SoC limit; "q1_fleet" is an ICE
vehicle (mechatronics "ice", cannot use a DCFC plug) dispatched to the station from nearby and joins the queue
first; "q2_public" is a BEV dispatched from further away and joins later.

Before the fix (df07953^): ChargeQueueing.enter admits q1; when the plug frees, q1's queue-to-plug transition
is refused by ChargingStation.enter (valid_charger), rolled back, and q2 is served while q1 — who joined
strictly earlier — is left waiting, forever. After the fix q1 is never admitted to the queue.

The scenario scaffold (scripted generator, trajectory oracle) is taken from the seeded change C18-c's
demonstration. Exits 0 with PASS when the queue is served in arrival order, 1 with FAIL otherwise.
Run: cd <tree> && PYTHONPATH=<tree> /venv/bin/python /verif/planned_fixes/reproducers/d20.py
"""
import logging
import sys
from typing import Dict, List, Tuple

from nrel.hive.resources.mock_lobster import (
    mock_env,
    mock_sim,
    mock_station,
    mock_vehicle,
    mock_dcfc_charger_id,
    mock_ice,
)

logging.disable(logging.CRITICAL)

from nrel.hive.dispatcher.instruction.instructions import (  # noqa: E402
    ChargeStationInstruction,
    DispatchStationInstruction,
)
from nrel.hive.dispatcher.instruction_generator.instruction_generator import (  # noqa: E402
    InstructionGenerator,
)
from nrel.hive.model.membership import Membership  # noqa: E402
from nrel.hive.state.simulation_state.update.step_simulation import StepSimulation  # noqa: E402
from nrel.hive.state.vehicle_state.charge_queueing import ChargeQueueing  # noqa: E402
from nrel.hive.state.vehicle_state.charging_station import ChargingStation  # noqa: E402

STATION = "s0"
PLUG = mock_dcfc_charger_id()
N_STEPS = 60


class ScriptedDispatch(InstructionGenerator):
    """issues a fixed set of instructions at the first time step, then nothing"""

    def __init__(self, script):
        self.script = script

    def generate_instructions(self, simulation_state, environment):
        step = int(simulation_state.sim_time - START) // int(
            simulation_state.sim_timestep_duration_seconds
        )
        return self, tuple(self.script.get(step, ()))


START = 6 * 3600


def queue_of(v):
    s = v.vehicle_state
    if isinstance(s, ChargeQueueing):
        return ("queue", s.station_id, s.charger_id)
    if isinstance(s, ChargingStation):
        return ("plug", s.station_id, s.charger_id)
    return (type(s).__name__, None, None)


def main() -> int:
    from nrel.hive.resources.mock_lobster import mock_bev, DefaultIds
    env = mock_env(mechatronics={DefaultIds.mock_mechatronics_bev_id(): mock_bev(), 'ice': mock_ice()})
    station = mock_station(station_id=STATION, chargers={PLUG: 1})  # public station
    a = mock_vehicle(vehicle_id="a_charging", soc=0.72)
    q1 = mock_vehicle(
        vehicle_id="q1_fleet",
        lat=39.7585,
        lon=-104.974,
        soc=0.25,
        mechatronics=mock_ice(),
    )
    q2 = mock_vehicle(vehicle_id="q2_public", lat=39.7539, lon=-104.993, soc=0.25)
    sim = mock_sim(sim_time=START, vehicles=(a, q1, q2), stations=(station,))

    script = {
        0: (
            ChargeStationInstruction("a_charging", STATION, PLUG),
            DispatchStationInstruction("q1_fleet", STATION, PLUG),
            DispatchStationInstruction("q2_public", STATION, PLUG),
        )
    }
    step_fn = StepSimulation.from_tuple((ScriptedDispatch(script),))

    joined: Dict[str, Tuple[int, str]] = {}  # vehicle -> (step it was first seen waiting, id)
    prev: Dict[str, Tuple] = {v.id: queue_of(v) for v in sim.get_vehicles()}
    violations: List[str] = []
    log: List[str] = []
    plugged_from_queue: List[str] = []

    for step in range(N_STEPS):
        sim, step_fn = step_fn.update(sim, env)
        now = {v.id: queue_of(v) for v in sim.get_vehicles()}
        log.append(f"step {step:2d}: " + ", ".join(f"{k}={v[0]}" for k, v in sorted(now.items())))

        for vid, (kind, sid, cid) in now.items():
            if kind == "queue" and prev[vid][0] != "queue":
                joined[vid] = (step, vid)
            if kind != "queue" and prev[vid][0] == "queue":
                left_at = joined.pop(vid)
                if kind == "plug" and (sid, cid) == prev[vid][1:]:
                    plugged_from_queue.append(vid)
                    # anyone still waiting for the same plug type who was there before?
                    for other, (okind, osid, ocid) in now.items():
                        if okind == "queue" and (osid, ocid) == (sid, cid):
                            if joined[other] < left_at:
                                violations.append(
                                    f"step {step}: {vid} (joined the queue at step {left_at[0]}) "
                                    f"left the queue and started charging while {other} "
                                    f"(joined at step {joined[other][0]}) is still waiting"
                                )
        prev = now

    # sanity: the scenario must actually exercise the queue
    if len(plugged_from_queue) == 0:
        print("FAIL: scenario did not exercise the queue (nobody was served from the queue)")
        print("\n".join(log))
        return 1

    if violations:
        print("FAIL: charging queue was not served first-come first-served")
        for v in violations:
            print("  " + v)
        print("trajectory:")
        print("\n".join("  " + line for line in log))
        return 1

    print(f"PASS: queue served in arrival order {plugged_from_queue}")
    return 0


if __name__ == "__main__":
    sys.exit(main())
