import logging, sys, io, contextlib, os
logging.disable(logging.CRITICAL)
with contextlib.redirect_stdout(io.StringIO()), contextlib.redirect_stderr(io.StringIO()):
    from nrel.hive.resources.mock_lobster import *
import h3
from nrel.hive.dispatcher.instruction_generator.instruction_generator_ops import instruct_vehicles_to_dispatch_to_station
from nrel.hive.dispatcher.instruction_generator.charging_search_type import ChargingSearchType
def quiet(f,*a,**k):
    with contextlib.redirect_stdout(io.StringIO()), contextlib.redirect_stderr(io.StringIO()):
        return f(*a,**k)
env = quiet(mock_env)
c = somewhere()
ring = sorted(h3.hex_ring(c, 1500))
res=10
sc = h3.h3_to_parent(c, res)
def kmin(g): return h3.h3_distance(sc, h3.h3_to_parent(g, res))
byk={}
for g in ring: byk.setdefault(kmin(g), []).append(g)
k0=min(byk); cand=byk[k0]
a=cand[0]; b=[g for g in cand if h3.h3_to_parent(g,res)!=h3.h3_to_parent(a,res)][-1]
print("kmin", k0, len(cand))
print("search cells differ:", h3.h3_to_parent(a, 9) != h3.h3_to_parent(b, 9), h3.h3_distance(c,a), h3.h3_distance(c,b))
sa = quiet(mock_station_from_geoid, geoid=a, station_id="sa")
sb = quiet(mock_station_from_geoid, geoid=b, station_id="sb")
veh = quiet(mock_vehicle_from_geoid, geoid=c, soc=0.5)
sim = quiet(mock_sim, vehicles=(veh,), stations=(sa, sb))
ins = instruct_vehicles_to_dispatch_to_station(1, 100.0, (veh,), sim, env, 0.8, ChargingSearchType.NEAREST_SHORTEST_QUEUE)
print(os.environ.get("PYTHONHASHSEED"), [ (i.station_id, i.charger_id) for i in ins])
print("search res", sim.sim_h3_search_resolution, "type", type(h3.k_ring(h3.h3_to_parent(c, sim.sim_h3_search_resolution), 1)))
sr = sim.sim_h3_search_resolution
sc2 = h3.h3_to_parent(c, sr)
print("k of a", h3.h3_distance(sc2, h3.h3_to_parent(a, sr)), "k of b", h3.h3_distance(sc2, h3.h3_to_parent(b, sr)), "same search cell", h3.h3_to_parent(a, sr)==h3.h3_to_parent(b, sr))
from nrel.hive.dispatcher.instruction_generator import assignment_ops
f = assignment_ops.nearest_shortest_queue_distance(veh, env)
print("metric", f(sa), f(sb))
