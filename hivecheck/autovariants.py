"""Computed self-test variants: one fault per rule instance, derived from the current syntax tree.

* guard atoms (GD): for every location / membership test in an activity's enter(): drop it (`False`), negate it
  -> must fire; wrap it in bool(...) / mirror the comparison -> must stay silent;
* resource calls (TS): for every acquire / release call in enter()/exit(): replace it by a neutral expression of the
  same shape -> must fire;
* comparisons (CMP): for every comparison in a predicate whose truth table is specified: switch it to the
  neighbouring operator (< <-> <=, > <-> >=, == <-> <=, != <-> <) -> must fire; swap the operands with the mirrored
  operator -> must stay silent.
Edits are positional (line/column of the node in the current source), so they never go stale by ambiguity.
"""
from __future__ import annotations

import ast
from typing import List, Optional

from .loader import Repo, Func
from .selftest import V
from . import states, flow

MIRROR = {ast.Lt: ">", ast.LtE: ">=", ast.Gt: "<", ast.GtE: "<=", ast.Eq: "==", ast.NotEq: "!="}
NEIGHBOUR = {ast.Lt: "<=", ast.LtE: "<", ast.Gt: ">=", ast.GtE: ">", ast.Eq: "<", ast.NotEq: "<"}
OPTXT = {ast.Lt: "<", ast.LtE: "<=", ast.Gt: ">", ast.GtE: ">=", ast.Eq: "==", ast.NotEq: "!="}


def _seg(fn: Func, node: ast.AST) -> Optional[str]:
    return ast.get_source_segment(fn.module.source, node)


def _pos(node: ast.AST):
    return (node.lineno, node.col_offset, node.end_lineno, node.end_col_offset)


def guard_variants(repo: Repo, which: str, skip=()) -> List[V]:
    """which: 'LOC' (geoid comparisons, route_cooresponds_with_entities) | 'MEM' (grant_access_to_membership)"""
    out: List[V] = []
    for sc in states.state_classes(repo):
        fn = sc.enter
        for node in ast.walk(fn.node):
            if not isinstance(node, ast.If):
                continue
            t = node.test
            seg = _seg(fn, t)
            if seg is None:
                continue
            d = flow.dump(t)
            is_loc = (".geoid" in d and ("!=" in d or "==" in d)) or "is_valid" == d.replace("not ", "") or "route_cooresponds_with_entities(" in d
            is_mem = "grant_access_to_membership(" in d or "reqs_exist_and_match_membership" in d
            if (which == "LOC" and not is_loc) or (which == "MEM" and not is_mem):
                continue
            # the guard rejects: body returns; dropping it lets everything through
            rejecting = any(isinstance(s, ast.Return) for s in node.body) and not any(
                isinstance(s, ast.Return) and isinstance(s.value, ast.Call) for s in node.body)
            tag = f"{sc.name}.enter:{node.lineno}"
            if any(k in tag for k in skip):
                continue
            if rejecting:
                out.append(V(f"auto-{which}-drop-{tag}", fn.relpath, seg, "False", kind="break", rule="GD", pos=_pos(t)))
                neg = seg[4:] if seg.startswith("not ") and not (" and " in seg or " or " in seg) else f"not ({seg})"
                out.append(V(f"auto-{which}-negate-{tag}", fn.relpath, seg, neg, kind="break", rule="GD", pos=_pos(t)))
                if seg.startswith("not ") and " and " not in seg and " or " not in seg:
                    out.append(V(f"auto-{which}-twin-bool-{tag}", fn.relpath, seg, f"not bool({seg[4:]})", kind="twin", pos=_pos(t)))
                if isinstance(t, ast.Compare) and len(t.ops) == 1 and type(t.ops[0]) in (ast.Eq, ast.NotEq):
                    l, r = _seg(fn, t.left), _seg(fn, t.comparators[0])
                    out.append(V(f"auto-{which}-twin-mirror-{tag}", fn.relpath, seg, f"{r} {OPTXT[type(t.ops[0])]} {l}", kind="twin", pos=_pos(t)))
    return out


NEUTRAL = {
    "checkout_stall": "{recv}", "return_stall": "(None, {recv})", "checkout_charger": "(None, {recv})", "return_charger": "(None, {recv})",
    "enqueue_for_charger": "(None, {recv})", "dequeue_for_charger": "(None, {recv})", "assign_dispatched_vehicle": "{recv}", "unassign_dispatched_vehicle": "{recv}",
}


def resource_variants(repo: Repo, kinds) -> List[V]:
    out: List[V] = []
    for sc in states.state_classes(repo):
        for which, fn in (("enter", sc.enter), ("exit", sc.exit)):
            for node in ast.walk(fn.node):
                if isinstance(node, ast.Call) and isinstance(node.func, ast.Attribute) and node.func.attr in NEUTRAL:
                    kind = states.RES[node.func.attr][0]
                    if kind not in kinds:
                        continue
                    seg = _seg(fn, node)
                    recv = _seg(fn, node.func.value)
                    if seg is None or recv is None:
                        continue
                    out.append(V(f"auto-TS-skip-{node.func.attr}-{sc.name}.{which}:{node.lineno}", fn.relpath, seg, NEUTRAL[node.func.attr].format(recv=recv),
                                 kind="break", rule="TS", pos=_pos(node)))
    return out


def compare_variants(repo: Repo, sites, rule: Optional[str] = "CMP", skip=()) -> List[V]:
    """sites: iterable of (relpath, qualname). One neighbour-operator fault and one mirrored twin per comparison.
    `skip`: name fragments of computed faults known to be equivalent under the specification (reason at the call site)."""
    out: List[V] = []
    for rel, qn in sites:
        fn = repo.func_opt(rel, qn)
        if fn is None:
            continue
        for node in ast.walk(fn.node):
            if isinstance(node, ast.Compare) and len(node.ops) == 1 and type(node.ops[0]) in NEIGHBOUR:
                seg = _seg(fn, node)
                l, r = _seg(fn, node.left), _seg(fn, node.comparators[0])
                if seg is None or l is None or r is None or "\n" in seg:
                    continue
                op = type(node.ops[0])
                tag = f"{qn}:{node.lineno}:{node.col_offset}"
                if not any(k in tag for k in skip):
                    out.append(V(f"auto-CMP-neighbour-{tag}", rel, seg, f"{l} {NEIGHBOUR[op]} {r}", kind="break", rule=rule, pos=_pos(node)))
                out.append(V(f"auto-CMP-twin-mirror-{tag}", rel, seg, f"{r} {MIRROR[op]} {l}", kind="twin", pos=_pos(node)))
    return out
