"""Static types from the project's own type checker (mypy as a library), joined onto `ast` nodes.

One in-process mypy build of nrel/ with the project's mypy.ini (returns plugin), ASTs preserved and
types exported; the typed expressions are re-indexed by (line, col, end_line, end_col) so an `ast`
node looks its static type up by position. Results are cached under /verif/.cache keyed by the
digest of every analysed source (any edit invalidates). Overlay sources (self-test variants) are
passed to mypy as in-memory text. Nothing of nrel.hive is imported or executed.
"""
from __future__ import annotations

import ast
import hashlib
import os
import pickle
import sys
import time
from typing import Dict, Optional, Tuple

from . import AnalysisError, PKG

VERIF = os.path.dirname(os.path.dirname(os.path.abspath(__file__)))
CACHE_DIR = os.path.join(VERIF, ".cache")
SKIP = ("node", "info", "type", "unanalyzed_type", "type_annotation", "defn", "original_def", "func_def")
VERSION = "4"


class TypeIndex:
    def __init__(self, types: Dict[str, Dict[Tuple[int, int, int, int], str]], callees: Dict[str, Dict[Tuple[int, int, int, int], str]],
                 errors: int, wall: float, cached: bool):
        self.types = types
        self.callees = callees
        self.errors = errors
        self.wall = wall
        self.cached = cached

    @staticmethod
    def key(node: ast.AST):
        return (node.lineno, node.col_offset, getattr(node, "end_lineno", None), getattr(node, "end_col_offset", None))

    def type_of(self, relpath: str, node: ast.AST) -> Optional[str]:
        if not hasattr(node, "lineno"):
            return None
        return self.types.get(relpath, {}).get(self.key(node))

    def callee_of(self, relpath: str, call: ast.Call) -> Optional[str]:
        return self.callees.get(relpath, {}).get(self.key(call))

    def stats(self) -> dict:
        return {"files": len(self.types), "typed_expressions": sum(len(v) for v in self.types.values()),
                "resolved_calls": sum(len(v) for v in self.callees.values()), "mypy_errors": self.errors,
                "build_s": round(self.wall, 2), "from_cache": self.cached}


def _digest(repo) -> str:
    h = hashlib.sha256()
    h.update(VERSION.encode())
    for rel in sorted(repo.modules):
        if not rel.startswith("nrel/"):
            continue
        h.update(rel.encode())
        h.update(b"\0")
        h.update(repo.modules[rel].source.encode())
        h.update(b"\0")
    ini = os.path.join(repo.root, "mypy.ini")
    if os.path.exists(ini):
        with open(ini, "rb") as f:
            h.update(f.read())
    return h.hexdigest()[:32]


_MEM: Dict[str, TypeIndex] = {}


def load(repo) -> TypeIndex:
    dg = _digest(repo)
    if dg in _MEM:
        return _MEM[dg]
    os.makedirs(CACHE_DIR, exist_ok=True)
    path = os.path.join(CACHE_DIR, f"types-{dg}.pkl")
    if os.path.exists(path):
        try:
            with open(path, "rb") as f:
                d = pickle.load(f)
            ti = TypeIndex(d["types"], d["callees"], d["errors"], d["wall"], True)
            _MEM[dg] = ti
            try:
                os.utime(path, None)  # least-recently-USED eviction: a hit keeps the entry young
            except OSError:
                pass
            return ti
        except Exception:
            pass
    ti = _build(repo)
    try:
        tmp = path + f".{os.getpid()}.tmp"
        with open(tmp, "wb") as f:
            pickle.dump({"types": ti.types, "callees": ti.callees, "errors": ti.errors, "wall": ti.wall}, f)
        os.replace(tmp, path)
        # keep the cache small: drop all but the 12 newest entries
        ents = sorted((os.path.getmtime(os.path.join(CACHE_DIR, x)), x) for x in os.listdir(CACHE_DIR) if x.startswith("types-"))
        for _, x in ents[:-12]:
            try:
                os.remove(os.path.join(CACHE_DIR, x))
            except OSError:
                pass
    except Exception:
        pass
    _MEM[dg] = ti
    return ti


def _build(repo) -> TypeIndex:
    t0 = time.time()
    try:
        from mypy import build
        from mypy.options import Options
        from mypy.find_sources import create_source_list
        from mypy.config_parser import parse_config_file
        from mypy.nodes import Node, Expression, CallExpr, MemberExpr, RefExpr
        from mypy.types import Instance, CallableType, TypeType, UnionType, AnyType, TupleType, get_proper_type, NoneType
        from mypy.modulefinder import BuildSource
    except Exception as e:
        raise AnalysisError(f"mypy is not importable in this interpreter: {e}")
    cwd = os.getcwd()
    os.chdir(repo.root)
    try:
        opts = Options()
        ini = os.path.join(repo.root, "mypy.ini")
        if os.path.exists(ini):
            parse_config_file(opts, lambda: None, ini, stdout=open(os.devnull, "w"), stderr=open(os.devnull, "w"))
        opts.preserve_asts = True
        opts.export_types = True
        opts.incremental = False
        opts.cache_dir = os.devnull
        opts.show_traceback = False
        opts.check_untyped_defs = True  # infer types inside unannotated functions too (sources must not hide there)
        srcs = create_source_list(["nrel"], opts)
        out = []
        for s in srcs:
            rel = os.path.normpath(os.path.relpath(s.path, repo.root)) if s.path else None
            if rel in repo.overlay:
                out.append(BuildSource(s.path, s.module, repo.overlay[rel], s.base_dir))
            else:
                out.append(s)
        try:
            res = build.build(out, opts, stdout=open(os.devnull, "w"), stderr=open(os.devnull, "w"))
        except Exception as e:
            raise AnalysisError(f"the type checker failed on this tree: {type(e).__name__}: {str(e)[:200]}")
    finally:
        os.chdir(cwd)
    types = res.types

    def children(n):
        for a in dir(type(n)):
            if a.startswith("_") or a in SKIP:
                continue
            try:
                v = getattr(n, a)
            except Exception:
                continue
            if isinstance(v, Node):
                yield v
            elif isinstance(v, (list, tuple)):
                for x in v:
                    if isinstance(x, Node):
                        yield x
                    elif isinstance(x, (list, tuple)):
                        for y in x:
                            if isinstance(y, Node):
                                yield y

    def walk(root):
        seen = set()
        st = [root]
        while st:
            n = st.pop()
            if id(n) in seen:
                continue
            seen.add(id(n))
            yield n
            st.extend(children(n))

    def resolve(call):
        c = call.callee
        if isinstance(c, RefExpr) and not isinstance(c, MemberExpr):
            if c.fullname:
                return c.fullname
        if isinstance(c, MemberExpr):
            if c.fullname:
                return c.fullname
            t = types.get(c.expr)
            t = get_proper_type(t) if t is not None else None

            def from_inst(t):
                if isinstance(t, TupleType):
                    t = t.partial_fallback
                if isinstance(t, Instance):
                    m = t.type.get(c.name)
                    if m is not None and m.node is not None:
                        return getattr(m.node, "fullname", None) or f"{t.type.fullname}.{c.name}"
                    return f"{t.type.fullname}.{c.name}"
                if isinstance(t, TypeType) and isinstance(get_proper_type(t.item), Instance):
                    return from_inst(get_proper_type(t.item))
                if isinstance(t, CallableType) and t.is_type_obj():
                    return from_inst(get_proper_type(t.ret_type))
                return None

            if isinstance(t, UnionType):
                rs = [from_inst(get_proper_type(i)) for i in t.items if not isinstance(get_proper_type(i), NoneType)]
                rs = [r for r in rs if r]
                if rs:
                    return "|".join(sorted(set(rs)))
            r = from_inst(t)
            if r:
                return r
            if isinstance(t, AnyType):
                return "ANY." + c.name
        return None

    tmap: Dict[str, Dict] = {}
    cmap: Dict[str, Dict] = {}
    for mod, f in res.files.items():
        if not mod.startswith("nrel.hive"):
            continue
        rel = os.path.normpath(os.path.relpath(f.path, repo.root)) if os.path.isabs(f.path) else os.path.normpath(f.path)
        idx = {}
        cidx = {}
        for n in walk(f):
            if isinstance(n, Expression):
                k = (n.line, n.column, getattr(n, "end_line", None), getattr(n, "end_column", None))
                t = types.get(n)
                if t is not None:
                    idx[k] = str(t)
                if isinstance(n, CallExpr):
                    r = resolve(n)
                    if r:
                        cidx[k] = r
        tmap[rel] = idx
        cmap[rel] = cidx
    if sum(len(v) for v in tmap.values()) < 15000:
        raise AnalysisError(f"type index is implausibly small ({sum(len(v) for v in tmap.values())} typed expressions): the type checker did not analyse the package")
    return TypeIndex(tmap, cmap, len(res.errors), time.time() - t0, False)
