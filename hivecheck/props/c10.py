"""C10 — fleet membership is enforced on every interaction (GD with membership atoms + receiver roles)."""
from __future__ import annotations

import ast

from .. import AnalysisError, flow, states, guards, gd, cmp, rules
from ..index import index, in_pkg
from ..report import Ctx

MEMB = "nrel/hive/model/membership.py"
DISP = "nrel/hive/dispatcher/instruction_generator/dispatcher.py"
IGO = "nrel/hive/dispatcher/instruction_generator/instruction_generator_ops.py"
DOPS = "nrel/hive/state/vehicle_state/dispatch_ops.py"

EXPLANATION = (
    "Guard dominance on every enter(): each path that reaches the state write has tested "
    "<target>.membership.grant_access_to_membership(vehicle.membership) with the accepting polarity, for the "
    "entity whose resource/service the activity uses (ChargingBase: the base AND the station whose plug it takes; "
    "pooling: every request of the plan, through the checked helper). Membership.grant_access_* themselves are "
    "checked against their truth table (public => open; otherwise intersection / containment). Built-in "
    "dispatchers: the two filters of the collections given to find_assignment contain the per-fleet tests, the "
    "per-fleet fold runs for every configured fleet (and once, unfiltered, only when no fleet exists), the station "
    "search that produces a DispatchStationInstruction uses the MEM(station, vehicle) closure for the same vehicle. "
    "Receiver-role census: in every grant_access_* call the receiver is the granting entity, never the vehicle "
    "(a public receiver grants everything). Decides these structural clauses, not configuration consistency."
)



def _dispatcher_filter(repo, getter: str, default_name: str):
    """The function the dispatcher hands to get_vehicles / get_requests as `filter_function` (by role, not by name): the nested
    function of that name where it still exists, else whatever callable is passed."""
    from .. import rules as _rules
    solve = repo.func(DISP, "Dispatcher.generate_instructions._solve_assignment")
    f = repo.func_opt(DISP, f"Dispatcher.generate_instructions._solve_assignment.{default_name}")
    if f is not None:
        return f
    f = _rules.callable_argument(repo, solve, getter, "filter_function")
    if f is None:
        raise AnalysisError(f"_solve_assignment: no filter_function handed to {getter}")
    return f

def run(ctx: Ctx):
    ctx.attempt(admission_consistency, ctx)
    guards.rule_enter_guards(ctx, "MEM", "D1")
    ctx.attempt(rules.rule_activity_writes, ctx, "D1")  # the guards above bind only if activities are installed through enter()
    pooling_helper(ctx)
    membership_semantics(ctx)
    dispatcher(ctx)
    station_search(ctx)
    receiver_roles(ctx)
    ctx.attempt(init_order, ctx)
    ctx.floor("GD.MEM", 10)
    ctx.floor("GD.receiver-role", 15)
    ctx.not_decided += ["consistency of configurations (a base and its station in different fleets)",
                        "controllers other than the built-in ones are covered only through the enter() guards"]


INIT = "nrel/hive/initialization/initialize_simulation.py"
COLLECTIONS = {"vehicles": ("Vehicle", "get_vehicles"), "bases": ("Base", "get_bases"), "stations": ("Station", "get_stations")}


def init_order(ctx: Ctx):
    """The memberships the guards compare are complete before the first step: the private membership that closes a home base (and its
    charger) to everyone but its own vehicle is created by an initialisation function that walks the loaded vehicles and bases. In the
    default pipeline every such function runs AFTER the functions that load the collections it reads -- otherwise it walks an empty
    collection, creates nothing, and the home bases stay open to all. (Read-after-populate over the pipeline's own order.)"""
    repo = ctx.repo
    dif = repo.func(INIT, "default_init_functions")
    rets = [p.value for p in flow.paths(dif.node) if p.kind == "return" and p.value is not None]
    ctx.require(len(rets) == 1 and isinstance(rets[0], (ast.List, ast.Tuple)) and all(isinstance(e, ast.Name) for e in rets[0].elts),
                "default_init_functions: the pipeline is not a literal list of functions")
    order = [e.id for e in rets[0].elts]
    m = repo.module(INIT)

    def family(name):
        f0 = m.funcs.get(name)
        if f0 is None:
            raise AnalysisError(f"init function {name} not found in {INIT}")
        fam, work = [], [f0]
        while work:
            g = work.pop()
            if g in fam:
                continue
            fam.append(g)
            work += [h for q, h in m.funcs.items() if q.startswith(g.qualname + ".")]
            for c in ast.walk(g.node):
                if isinstance(c, ast.Call) and isinstance(c.func, ast.Name) and c.func.id in m.funcs and c.func.id not in order:
                    work.append(m.funcs[c.func.id])
        return fam

    loads, reads = {}, {}
    for name in order:
        fam = family(name)
        loads[name], reads[name] = set(), {}
        for g in fam:
            for n in ast.walk(g.node):
                for coll, (cls, getter) in COLLECTIONS.items():
                    if isinstance(n, ast.Call) and isinstance(n.func, ast.Attribute) and n.func.attr == "from_row" and flow.dump(n.func.value) == cls:
                        loads[name].add(coll)
                    if isinstance(n, ast.Attribute) and n.attr in (coll, getter) and not (isinstance(n.value, ast.Name) and n.value.id in ("config", "input_config")) \
                            and "config" not in flow.dump(n.value):
                        reads[name].setdefault(coll, (g, n))
    loader_of = {c: [nm for nm in order if c in loads[nm]] for c in COLLECTIONS}
    for c, ls in loader_of.items():
        ctx.require(len(ls) == 1, f"default pipeline: collection {c} is loaded by {ls}")
    n = 0
    for i, name in enumerate(order):
        for coll, (g, node) in sorted(reads[name].items()):
            if coll in loads[name]:
                continue
            n += 1
            j = order.index(loader_of[coll][0])
            ctx.check(j < i, "D1", "ORD.init-order", f"default pipeline: {name} reads the {coll} after {loader_of[coll][0]} has loaded them", g, node,
                      why_bad=f"{name} (position {i}) walks / looks up sim.{coll}, but {loader_of[coll][0]} (position {j}) loads them later: at that point the collection is empty, so what "
                              f"{name} derives from it (the private home-base memberships) is never created and those bases and chargers stay open to every vehicle",
                      construct=f"default_init_functions:{name}:reads:{coll}")
    ctx.require(n >= 2, f"init_order: only {n} cross-collection reads seen")


def pooling_helper(ctx: Ctx):
    """requests_exist_and_match_membership accepts only if EVERY request of the plan exists and grants the vehicle access:
    on each accepting path a universal (`all(...)`) over the plan's requests whose element test is the grant — in whichever
    spelling (all(map(f, reqs)) with a local f, a generator, two passes). An existential (`any`) over the grant is the
    violation; anything else is not recognised."""
    repo = ctx.repo
    outer = repo.func(DOPS, "requests_exist_and_match_membership")
    sim, veh, reqs = outer.params[:3]
    grant_tail = f".membership.grant_access_to_membership({veh}.membership)"

    def universal_grant(a: ast.AST):
        """'all' | 'any' | None : does atom `a` quantify the grant over the plan's requests?"""
        if not (isinstance(a, ast.Call) and isinstance(a.func, ast.Name) and a.func.id in ("all", "any") and len(a.args) == 1):
            return None
        g = flow.canon(a.args[0])
        if not isinstance(g, (ast.GeneratorExp, ast.ListComp)) or len(g.generators) != 1:
            return None
        src = flow.dump(g.generators[0].iter)
        if reqs not in src:
            return None
        elt = g.elt
        txt = flow.dump(elt)
        if grant_tail in txt:
            return a.func.id
        # all(map(f, reqs)) with a local function f: its accepting paths must imply the grant
        if isinstance(elt, ast.Call) and isinstance(elt.func, ast.Name):
            f = repo.func_opt(DOPS, f"{outer.qualname}.{elt.func.id}")
            if f is not None and f.params:
                want = f"{sim}.requests.get({f.params[0]}){grant_tail}"
                acc = gd.accepting_paths(f)
                if acc and all(any(pol is True and states.ndump(x) == want for x, pol in atoms) for _, atoms in acc):
                    return a.func.id
                if acc:
                    for p2, atoms in acc:
                        if not any(pol is True and states.ndump(x) == want for x, pol in atoms):
                            ctx.violation("D1", "GD.MEM-helper", "per-request check accepts only if the request grants the vehicle access", f, p2.end,
                                          why=f"accepting path [{p2.cond_text()[:150]}] returns {flow.dump(p2.value)[:100]}", construct="exists_and_match:MEM")
                    return "checked"
        return None

    acc = gd.accepting_paths(outer)
    ctx.require(len(acc) >= 1, "requests_exist_and_match_membership has no accepting path")
    for p, atoms in acc:
        kinds = [universal_grant(a) for a, pol in atoms if pol is True]
        if "all" in kinds:
            ctx.ok("D1", "GD.MEM-helper", "requests_exist_and_match_membership accepts only if every request of the plan grants the vehicle access", outer, p.end,
                   why="a universal over the plan's requests with the grant as element test holds on the accepting path")
        elif "checked" in kinds:
            continue
        elif "any" in kinds:
            ctx.violation("D1", "GD.MEM-helper", "requests_exist_and_match_membership accepts only if every request of the plan grants the vehicle access", outer, p.end,
                          why=f"accepting path [{p.cond_text()[:160]}] needs only SOME request to grant access (any(...)): a plan mixing fleets is accepted as soon as one request is the vehicle's",
                          construct="requests_exist:existential")
        else:
            raise AnalysisError(f"requests_exist_and_match_membership: accepting path returning {flow.dump(p.value)[:100]} is not a recognised universal over the requests")

def admission_consistency(ctx: Ctx):
    """The input side of fleet separation: a request enters the simulation only if it is consistent with the scenario — it names a fleet
    iff fleets are configured. The Dispatcher's single unfiltered assignment for a fleet-less scenario relies on it (a fleet-tagged
    request admitted there is matched with any vehicle). Truth table over (fleets configured, request has member ids)."""
    URF = "nrel/hive/state/simulation_state/update/update_requests_from_file.py"
    fn = ctx.repo.func(URF, "update_requests_from_iterator._update")
    sim, row = fn.params[:2]
    req = f"Request.from_row({row}, env, {sim}.road_network)[1]"

    def label(p):
        if p.kind != "return":
            return p.kind
        return "add" if any(e.name == "add_request_safe" and not e.deferred for e in p.events) else "skip"

    terms = {"len(env.fleet_ids)": "f", f"len({req}.membership.memberships)": "m"}
    rows = cmp.path_table(flow.paths(fn.node), terms, label, grid=range(0, 2))
    bad = [r for r in rows if r[2] == "add" and ((r[0]["f"] > 0) != (r[0]["m"] > 0))]
    some = any(r[2] == "add" for r in rows if (r[0]["f"] > 0) == (r[0]["m"] > 0))
    ctx.check(not bad and some, "D4", "CMP.admission", "a request is admitted only if it names a fleet exactly when fleets are configured", fn,
              why_ok="4 combinations of (fleets configured, request has member ids)",
              why_bad=f"admitted for {[r[0] for r in bad[:3]]}: a request tagged with a fleet enters a scenario without fleets (the dispatcher then solves one unfiltered assignment and "
                      f"pairs it with any vehicle), or an untagged one enters a scenario with fleets",
              construct="update_requests_from_iterator:fleet-consistency")


def membership_semantics(ctx: Ctx):
    """grant_access_to_membership(other): public or non-empty intersection; _id(id): public or id in set."""
    repo = ctx.repo
    fn = repo.func(MEMB, "Membership.public")
    ps = [p for p in flow.paths(fn.node) if p.kind == "return"]
    ctx.require(len(ps) == 1, "Membership.public: unrecognised shape")
    rows = cmp.predicate_table(ps[0].value, {"len(self.memberships)": "n"}, grid=range(0, 4))
    bad = cmp.compare_table(rows, lambda g, f: g["n"] == 0)
    ctx.check(not bad, "D1", "CMP.membership", "Membership.public iff it has no member ids", fn, why_bad=f"differs on {bad[:3]}", construct="Membership.public")
    fn = repo.func(MEMB, "Membership.memberships_in_common")
    ps = [p for p in flow.paths(fn.node) if p.kind == "return"]
    o = fn.params[1]
    ok = len(ps) == 1 and flow.dump(ps[0].value) in (f"self.memberships.intersection({o}.memberships)", f"self.memberships & {o}.memberships",
                                                      f"{o}.memberships.intersection(self.memberships)", f"{o}.memberships & self.memberships")
    ctx.check(ok, "D1", "CMP.membership", "memberships_in_common is the intersection of the two id sets", fn,
              why_bad=f"returns {flow.dump(ps[0].value)[:100] if ps else '?'}", construct="memberships_in_common")
    for qn, inner_pat in (("Membership.grant_access_to_membership", None), ("Membership.grant_access_to_membership_id", None)):
        fn = repo.func(MEMB, qn)
        o = fn.params[1]
        if qn.endswith("_id"):
            terms = {}
            free_name = f"{o} in self.memberships"
            def label(p):
                return flow.dump(p.value) if p.kind == "return" else p.kind
            rows = []
            for p in flow.paths(fn.node):
                pass
            def spec_ok():
                # public -> True ; else -> `id in self.memberships`
                good = True
                for p in flow.paths(fn.node):
                    if p.kind != "return":
                        return False
                    facts = [(flow.dump(a), pol) for a, pol in p.facts()]
                    if ("self.public", True) in facts:
                        good = good and isinstance(p.value, ast.Constant) and p.value.value is True
                    elif ("self.public", False) in facts:
                        good = good and flow.dump(p.value) == free_name
                    else:
                        return False
                return good
            ctx.check(spec_ok(), "D1", "CMP.membership", "grant_access_to_membership_id: public => True, else id in memberships", fn,
                      why_bad="shape/semantics changed", construct="grant_access_to_membership_id")
        else:
            def spec_ok2():
                good = True
                for p in flow.paths(fn.node):
                    if p.kind != "return":
                        return False
                    facts = [(flow.dump(a), pol) for a, pol in p.facts()]
                    if ("self.public", True) in facts:
                        good = good and isinstance(p.value, ast.Constant) and p.value.value is True
                    elif ("self.public", False) in facts:
                        inter = {f"len(self.memberships_in_common({o}))": "k", f"len(self.memberships.intersection({o}.memberships))": "k", f"len(self.memberships & {o}.memberships)": "k",
                                 f"len({o}.memberships.intersection(self.memberships))": "k", f"len({o}.memberships & self.memberships)": "k"}
                        rows = cmp.predicate_table(p.value, inter, grid=range(0, 4))
                        good = good and not cmp.compare_table(rows, lambda g, f: g["k"] > 0)
                    else:
                        return False
                return good
            ctx.check(spec_ok2(), "D1", "CMP.membership", "grant_access_to_membership: public => True, else non-empty intersection", fn,
                      why_bad="shape/semantics changed", construct="grant_access_to_membership")


def dispatcher(ctx: Ctx):
    repo = ctx.repo
    gi = repo.func(DISP, "Dispatcher.generate_instructions")
    solve = repo.func(DISP, "Dispatcher.generate_instructions._solve_assignment")
    vfn = _dispatcher_filter(repo, "get_vehicles", "_is_valid_for_dispatch")
    rfn = _dispatcher_filter(repo, "get_requests", "_valid_request")
    mid = solve.params[1]
    # vehicle filter: accepting => (fleet is None) or membership test involving the vehicle and the fleet id
    v = vfn.params[0]
    for p, atoms in gd.accepting_paths(vfn):
        ok = False
        for a, pol in atoms:
            d = flow.dump(a)
            if pol is True and d in (f"{v}.membership.grant_access_to_membership_id({mid})", f"{mid} in {v}.membership.memberships"):
                ok = True
            if flow.is_syn(a, "$isnone") and pol is True and flow.dump(a.args[0]) == mid:
                ok = True
        ctx.check(ok, "D2", "GD.fleet-filter", "_is_valid_for_dispatch accepts only vehicles of the fleet being solved (or no fleet)", vfn, p.end,
                  why_bad=f"accepting path [{p.cond_text()[:300]}] has no fleet test", construct="_is_valid_for_dispatch:fleet")
    r = rfn.params[0]
    for p, atoms in gd.accepting_paths(rfn):
        ok = False
        for a, pol in atoms:
            d = flow.dump(a)
            if pol is True and d == f"{r}.membership.grant_access_to_membership_id({mid})":
                ok = True
            if pol is True and isinstance(a, ast.IfExp):
                # a conditional on "is a fleet being solved": with a fleet it must come down to the membership test
                some_fleet = [(ast.parse(f"{mid} is None", mode="eval").body, False), (ast.parse(f"{mid} is not None", mode="eval").body, True)]
                if flow.dump(flow.specialise(a, some_fleet)) == f"{r}.membership.grant_access_to_membership_id({mid})":
                    ok = True
            if flow.is_syn(a, "$isnone") and pol is True and flow.dump(a.args[0]) == mid:
                ok = True
        ctx.check(ok, "D2", "GD.fleet-filter", "_valid_request accepts only requests open to the fleet being solved (or no fleet)", rfn, p.end,
                  why_bad=f"accepting path returns {flow.dump(p.value)[:200]}", construct="_valid_request:fleet")
    # filters are wired into find_assignment
    wired = False
    for p in flow.paths(solve.node):
        for ev in p.calls("find_assignment"):
            a = ev.call.args
            wired = True
            okv = len(a) >= 1 and isinstance(a[0], ast.Call) and flow.dump(a[0].func).endswith(".get_vehicles") and any(
                k.arg == "filter_function" and flow.dump(k.value) == "_is_valid_for_dispatch" for k in a[0].keywords)
            ctx.check(okv, "D2", "GD.fleet-filter", "find_assignment's vehicles are get_vehicles(filter_function=_is_valid_for_dispatch)", solve, ev.raw,
                      why_bad=f"assignees = {flow.dump(a[0])[:160] if a else '?'}", construct="_solve_assignment:vehicles-filter")
        if wired:
            break
    ctx.require(wired, "_solve_assignment no longer calls find_assignment")
    # per-fleet fold: every fleet id when fleets exist; (None,) only when none exists
    env = gi.params[2]
    n = 0
    for p in flow.paths(gi.node):
        if p.kind != "return":
            continue
        for c in flow.calls_in(p.value, "reduce"):
            if not (c.args and flow.dump(c.args[0]) == "_solve_assignment"):
                continue
            fleet_arg0 = c.args[1] if len(c.args) > 1 else None
            # the iterable may itself be a two-way choice (conditional expression): each arm is a branch with the arm's condition
            arms = []

            def _arms(e, extra):
                e = flow.core(e) if e is not None else e
                if isinstance(e, ast.IfExp):
                    _arms(e.body, extra + [(e.test, True)])
                    _arms(e.orelse, extra + [(e.test, False)])
                else:
                    arms.append((e, extra))
            _arms(fleet_arg0, [])
            for fleet_arg, extra in arms:
                n += 1
                d = flow.dump(fleet_arg)
                # decide the branch by the truth table of the path's condition over n = len(fleet_ids)
                term = {f"len({env}.fleet_ids)": "n"}
                conds = [(cnd.test, cnd.pol) for cnd in p.conds if isinstance(cnd.pol, bool) and f"{env}.fleet_ids" in flow.dump(cnd.test)] + [x for x in extra if f"{env}.fleet_ids" in flow.dump(x[0])]
                def holds(g):
                    evl = cmp.Evaluator({k: g[v] for k, v in term.items()}, {})
                    return all(evl.truth(t_) == pol_ for t_, pol_ in conds)
                try:
                    taken = [g for g in cmp.assignments(["n"], range(0, 4)) if holds(g)]
                except cmp.Unknown:
                    raise AnalysisError("Dispatcher.generate_instructions: fleet branch condition not a comparison on len(fleet_ids)")
                if d == "(None,)":
                    ok = all(g["n"] == 0 for g in taken) and bool(taken)
                    ctx.check(ok, "D2", "CMP.fleet-fold", "the unfiltered (None,) assignment is solved only when no fleet is configured", gi, p.end,
                              why_bad=f"(None,) is used for fleet counts {[g['n'] for g in taken]}", construct="generate_instructions:none-branch")
                else:
                    ok = all(g["n"] >= 1 for g in taken) and f"{env}.fleet_ids" in d
                    ctx.check(ok, "D2", "CMP.fleet-fold", "with fleets configured, _solve_assignment is folded over the configured fleet ids", gi, p.end,
                              why_bad=f"fold runs over {d[:100]} for fleet counts {[g['n'] for g in taken]}", construct="generate_instructions:fleet-branch")
                covered = {g["n"] for g in taken}
                ctx.extra.setdefault("fleet_branch_cover", []).append(sorted(covered))
    ctx.require(n >= 2, "Dispatcher.generate_instructions: expected two fleet branches folding _solve_assignment")


def station_search(ctx: Ctx):
    repo = ctx.repo
    fn = repo.func(IGO, "valid_station_for_vehicle._inner")
    outer = repo.func(IGO, "valid_station_for_vehicle")
    veh = outer.params[0]
    st = fn.params[0]
    want = f"{st}.membership.grant_access_to_membership({veh}.membership)"
    acc = gd.accepting_paths(fn)
    ctx.require(len(acc) >= 1, "valid_station_for_vehicle._inner has no accepting path")
    for p, atoms in acc:
        ok = any(pol is True and flow.dump(a) == want for a, pol in atoms)
        ctx.check(ok, "D2", "GD.station-search", "valid_station_for_vehicle accepts only stations that grant the vehicle access", fn, p.end,
                  why_bad=f"accepting path [{p.cond_text()[:200]}]", construct="valid_station_for_vehicle:MEM")
    ps = [p for p in flow.paths(outer.node) if p.kind == "return"]
    ctx.check(flow.values_match(ps, "_inner"), "D2", "GD.station-search", "valid_station_for_vehicle returns the closure", outer,
              why_bad="returns something else", construct="valid_station_for_vehicle:closure")
    fn = repo.func(IGO, "instruct_vehicles_to_dispatch_to_station")
    env_p = fn.params[4]
    seen = False
    for p in flow.paths(fn.node):
        for ev in p.calls("DispatchStationInstruction"):
            seen = True
            kw = {k.arg: k.value for k in ev.call.keywords}
            args = list(ev.call.args)
            vid = kw.get("vehicle_id", args[0] if args else None)
            sid = kw.get("station_id", args[1] if len(args) > 1 else None)
            ok = False
            why = "?"
            if vid is not None and sid is not None and isinstance(sid, ast.Attribute) and sid.attr == "id":
                search = sid.value
                if isinstance(search, ast.Call) and flow.dump(search.func).endswith("nearest_entity"):
                    skw = {k.arg: flow.dump(k.value) for k in search.keywords}
                    vexpr = flow.dump(vid)[:-3] if flow.dump(vid).endswith(".id") else None
                    ok = vexpr is not None and skw.get("is_valid") == f"valid_station_for_vehicle({vexpr}, {env_p})"
                    why = f"is_valid={skw.get('is_valid')}, vehicle={flow.dump(vid)}"
                else:
                    why = f"station comes from {flow.dump(search)[:100]}"
            # every path that builds the instruction is judged (a memo / cache hit is a path of its own); identical verdicts collapse
            ctx.check(ok, "D2", "GD.station-search", "DispatchStationInstruction pairs the vehicle with the result of a search filtered by valid_station_for_vehicle(that vehicle)",
                      fn, ev.raw, why_bad=why, construct="instruct_vehicles_to_dispatch_to_station:search-filter")
    ctx.require(seen, "instruct_vehicles_to_dispatch_to_station no longer builds DispatchStationInstruction")


def _is_vehicle_expr(fn, e: ast.AST, env) -> bool:
    """Is `e` (the owner of `.membership`) a vehicle? by annotation, by provenance, by iteration source."""
    if isinstance(e, ast.Name):
        f = fn
        while f is not None:
            ann = gd.annotation_class(f, e.id)
            if ann:
                return ann == "Vehicle"
            f = f.outer
        v = env.get(e.id) if env else None
        if v is not None:
            d = flow.dump(v)
            return ".vehicles.get(" in d or "get_vehicles(" in d or d.startswith("$elem(vehicles")
        return False
    d = flow.dump(e)
    return ".vehicles.get(" in d or ".vehicles[" in d


def receiver_roles(ctx: Ctx):
    """D3: the receiver of grant_access_* is the membership of the entity granting access."""
    repo = ctx.repo
    idx = index(repo)
    sites = [s for s in idx.calls("grant_access_to_membership", refs=False) + idx.calls("grant_access_to_membership_id", refs=False) if in_pkg(s)]
    sites = [s for s in sites if not s.file.startswith("nrel/hive/resources")]
    for s in sites:
        call = s.node
        recv = call.func.value
        fn = s.func
        owner = recv.value if isinstance(recv, ast.Attribute) and recv.attr == "membership" else None
        if fn is None:
            continue
        env = {}
        top = fn
        # provenance for plain locals: first path environment of the defining function
        try:
            ps = flow.paths(fn.node)
            for p in ps:
                if any(ev.raw is call for ev in p.events):
                    env = p.env
                    break
        except AnalysisError:
            env = {}
        if owner is None:
            # receiver is a Membership value itself (e.g. self inside Membership, or a local)
            if fn.relpath == MEMB:
                continue
            ctx.info("D3", "GD.receiver-role", f"{fn.qualname}: receiver {flow.dump(recv)[:60]} not of the form <entity>.membership", fn, call)
            continue
        is_veh = _is_vehicle_expr(fn, owner, env)
        inst = f"{fn.qualname}: {flow.dump(call)[:100]}"
        if is_veh:
            ctx.violation("D3", "GD.receiver-role", inst, fn, call,
                          why="the vehicle's own membership is the receiver: a vehicle without membership is 'public' and is granted access to every fleet",
                          construct=f"receiver-role:Vehicle:{call.func.attr}")
        else:
            ctx.ok("D3", "GD.receiver-role", inst, fn, call, why=f"receiver is {flow.dump(owner)}.membership (the granting entity)")


def selftest():
    from ..selftest import V
    D = "nrel/hive/state/vehicle_state/"
    return [
        V("charging-base-or-merged", D + "charging_base.py",
          "        elif not base.membership.grant_access_to_membership(vehicle.membership):\n            msg = f\"vehicle doesn't have access to base; context: {context}\"\n            return SimulationStateError(msg), None\n        elif not station.membership.grant_access_to_membership(vehicle.membership):",
          "        elif not (base.membership.grant_access_to_membership(vehicle.membership) or station.membership.grant_access_to_membership(vehicle.membership)):", rule="GD.MEM"),
        V("charging-station-mem-dropped", D + "charging_station.py", "        elif not station.membership.grant_access_to_membership(vehicle.membership):\n            msg = f\"vehicle {vehicle.id} doesn't have access to station {station.id}\"\n            return SimulationStateError(msg), None\n", "", rule="GD.MEM"),
        V("queue-mem-reversed", D + "charge_queueing.py", "elif not station.membership.grant_access_to_membership(vehicle.membership):", "elif not vehicle.membership.grant_access_to_membership(station.membership):", rule="GD"),
        V("dispatch-trip-mem-inverted", D + "dispatch_trip.py", "        elif not request.membership.grant_access_to_membership(vehicle.membership):", "        elif request.membership.grant_access_to_membership(vehicle.membership):", rule="GD.MEM"),
        V("servicing-mem-other", D + "servicing_trip.py", "elif not self.request.membership.grant_access_to_membership(vehicle.membership):", "elif not self.request.membership.grant_access_to_membership(self.request.membership):", rule="GD.MEM"),
        V("pooling-helper-any", DOPS, "    all_exist = all(map(exists_and_match_membership, requests))", "    all_exist = any(map(exists_and_match_membership, requests))", rule="GD.MEM-helper"),
        V("membership-id-always", MEMB, "            return membership_id in self.memberships", "            return membership_id in self.memberships or True", rule="CMP.membership"),
        V("membership-common-union", MEMB, "return self.memberships.intersection(other_membership.memberships)", "return self.memberships.union(other_membership.memberships)", rule="CMP.membership"),
        V("fleet-partition-gt1", DISP, "        if len(environment.fleet_ids) > 0:", "        if len(environment.fleet_ids) > 1:", rule="CMP.fleet-fold"),
        V("request-filter-no-fleet", DISP, "                return not_already_dispatched and valid_access", "                return not_already_dispatched", rule="GD.fleet-filter"),
        V("station-search-unfiltered", IGO, "            is_valid=valid_station_for_vehicle(veh, environment),\n            distance_function=distance_fn,\n        )\n        if nearest_station is not None:",
          "            is_valid=lambda s: True,\n            distance_function=distance_fn,\n        )\n        if nearest_station is not None:", rule="GD.station-search"),
        V("valid-station-no-mem", IGO, "        if not vehicle_has_access:\n            return False\n        else:", "        if False:\n            return False\n        else:", rule="GD.station-search"),
        V("twin-mem-hoisted", D + "reserve_base.py", "        elif not base.membership.grant_access_to_membership(vehicle.membership):\n            msg = (",
          "        elif not bool(base.membership.grant_access_to_membership(vehicle.membership)):\n            msg = (", kind="twin"),
    ] + _auto()


def _auto():
    from ..loader import Repo
    from .. import autovariants as av
    return av.guard_variants(Repo(), "MEM")

