"""C07 — a vehicle's activity is consistent with where it is (GD with location atoms + provenance)."""
from __future__ import annotations

import ast

from .. import AnalysisError, flow, states, guards, rules, cmp
from ..report import Ctx

INS = "nrel/hive/dispatcher/instruction/instructions.py"
SOPS = "nrel/hive/state/vehicle_state/servicing_ops.py"
ROUTE = "nrel/hive/model/roadnetwork/route.py"

EXPLANATION = (
    "Guard dominance on every enter(): on each path that reaches the state write, the location predicate the "
    "activity needs has been tested with the accepting polarity (same cell as the station/base for "
    "charging/queueing/parking; route_cooresponds_with_entities(route, vehicle position[, target position]) for "
    "travelling activities; route = request origin->destination and previous activity DISPATCH_TRIP for a "
    "trip). Arrival: the default terminal state of DispatchTrip/Station/Base yields the next activity only on "
    "the branch where vehicle and target share a cell. Instructions build the route from the vehicle's "
    "position to the position of the entity whose id they hand to the activity. The route validator itself is "
    "checked clause by clause, and drop_off_trip rejects unless every passenger's destination is the vehicle's "
    "cell. Decides these structural clauses; that the router's route really ends at the target is C13."
)


def run(ctx: Ctx):
    repo = ctx.repo
    guards.rule_enter_guards(ctx, "LOC", "D1/D2")
    ctx.attempt(rules.rule_activity_writes, ctx, "D1")  # the guards above bind only if activities are installed through enter()
    guards.rule_enter_guards(ctx, "PREV", "D5")
    validator(ctx)
    arrival(ctx)
    instructions(ctx)
    dropoff(ctx)
    # "a trip is ... ended only at its destination": the trip activity is left (exit) and counts as finished (terminal
    # condition) exactly when no link of its route is left — not when the remaining travel time rounds to zero
    from . import c03
    ctx.attempt(c03.trip_end_tables, ctx, "D5", True)
    # a travelling vehicle's stored route stays anchored at its position: the traversal contract move() relies on
    from . import c06
    ctx.attempt(c06.split, ctx)
    ctx.attempt(c06.partition, ctx, False)
    ctx.attempt(c06.move_bookkeeping, ctx, ("position", "route"))  # odometer and energy are C06's / C04's
    # the geoid of a station/base compared in the guards is the entity's own position cell: `geoid` property
    ctx.floor("GD.LOC", 11)
    ctx.floor("GD.ARRIVE", 3)
    ctx.floor("DU.instruction-route", 4)
    ctx.not_decided += ["that the route returned by the router really starts/ends at the given positions (C13)",
                        "co-location of pooled pick-ups (ServicingPoolingTrip checks the previous activity only)"]


def validator(ctx: Ctx, only_start: bool = False):
    """(only_start: C06's use — judge only "a non-empty route is accepted only if its first link starts where the vehicle is",
    the part continuity of movement needs.)
    route_cooresponds_with_entities as a truth table over its five atoms: route empty (E), destination given (D),
    src == dst (Q), first link starts at src (S), last link ends at dst (T).
      E and not D -> True;  E and D -> Q;  not E and not D -> S;  not E and D -> S and T."""
    fn = ctx.repo.func(ROUTE, "route_cooresponds_with_entities")
    route, src, dst = fn.params[:3]
    E, D, Q = f"TupleOps.is_empty({route})", dst, f"{src} == {dst}"
    S_forms = (f"{route}[0].start == {src}.geoid", f"{src}.geoid == {route}[0].start", f"TupleOps.head({route}).start == {src}.geoid", f"{src}.geoid == TupleOps.head({route}).start")
    T_forms = (f"{route}[-1].end == {dst}.geoid", f"{dst}.geoid == {route}[-1].end", f"TupleOps.last({route}).end == {dst}.geoid", f"{dst}.geoid == TupleOps.last({route}).end")
    E_forms = (E, f"len({route}) == 0", f"not {route}")
    paths = flow.paths(fn.node)
    import itertools
    bad = []
    n = 0
    extras: list = []  # atoms the code consults beyond the five of the specification: free, every valuation is tried
    for e, d, q, s_, t in itertools.product([False, True], repeat=5):
        base = {E: e, f"len({route}) == 0": e, D: d, Q: q, f"{dst} == {src}": q}
        for f_ in S_forms:
            base[f_] = s_
        for f_ in T_forms:
            base[f_] = t
        base[route] = not e
        want = (True if not d else q) if e else (s_ if not d else (s_ and t))
        done = False
        while not done:
            done = True
            for bits in itertools.product([False, True], repeat=len(extras)):
                free = dict(base)
                free.update(dict(zip(extras, bits)))
                ev = cmp.Evaluator({}, free)
                try:
                    p = cmp.taken_path(paths, ev)
                    if p is None or p.kind != "return":
                        raise AnalysisError("route_cooresponds_with_entities: no return path for a valuation")
                    got = ev.truth(p.value)
                except cmp.Unknown as u:
                    a = flow.dump(u.node)
                    if a in extras or len(extras) >= 4:
                        raise AnalysisError(f"route_cooresponds_with_entities depends on something outside its five atoms: {a[:80]}")
                    extras.append(a)
                    done = False
                    break
                n += 1
                if (got and not e and not s_) if only_start else (got != want):
                    w = {"empty": e, "dst": d, "src==dst": q, "starts_at_src": s_, "ends_at_dst": t}
                    w.update({f"[{k[:60]}]": v for k, v in zip(extras, bits)})
                    bad.append((w, got, want))
    if only_start:
        ctx.check(not bad, "D7", "GD.validator", "route_cooresponds_with_entities accepts a non-empty route only if its first link starts at the vehicle's cell (move() drives the route from its own start)",
                  fn, why_ok=f"{n} valuations", why_bad=f"accepted although the route starts elsewhere — the vehicle jumps to the route's start: {bad[:2]}", construct="route_cooresponds:start",
                  witness={"bad": [str(b) for b in bad[:6]]})
        return
    ctx.check(not bad, "D2", "GD.validator", "route_cooresponds_with_entities: empty route only for no-destination or src == dst; otherwise first link starts at src and (if given) last link ends at dst",
              fn, why_ok=f"{n} valuations of the five atoms agree", why_bad=f"{len(bad)} valuations differ, e.g. {bad[:2]}", construct="route_cooresponds:table", witness={"bad": [str(b) for b in bad[:6]]})
    ctx.ok("D2", "GD.validator", "validator evaluated on all 32 valuations", fn)
    ctx.ok("D2", "GD.validator", "validator's answer is a function of its five atoms" + (f" (it also reads {extras}, which never changes the answer)" if extras else ""), fn)


def arrival(ctx: Ctx):
    """D3: _default_terminal_state returns the next activity only where target.geoid == vehicle.geoid."""
    repo = ctx.repo
    spec = {
        "DispatchStation": ("station", {"ChargingStation": "ChargingStation.build(SELF.vehicle_id, SELF.station_id, SELF.charger_id)",
                                        "ChargeQueueing": "ChargeQueueing.build(SELF.vehicle_id, SELF.station_id, SELF.charger_id, SIM.sim_time)"}),
        "DispatchBase": ("base", {"ReserveBase": "ReserveBase.build(SELF.vehicle_id, SELF.base_id)", "Idle": "Idle.build(SELF.vehicle_id)"}),
        "DispatchTrip": ("request", None),
    }
    for cname, (tkind, builds) in spec.items():
        sc = states.state_class(repo, cname)
        fn = repo.method(sc.cls, "_default_terminal_state")
        ren = {fn.params[0]: "SELF", fn.params[1]: "SIM", fn.params[2]: "ENV"}
        target = guards.ENT[tkind]
        n = 0
        for p in flow.paths(fn.node):
            if p.kind != "return" or flow.classify_result(p.value) != "ok":
                continue
            nxt = p.value.elts[1]
            atoms = [(states.norm(a, ren), pol) for a, pol in p.facts()]
            atoms3 = [(n_, pol, flow.dump(n_)) for n_, pol in atoms]
            nd = states.ndump(nxt, ren)
            n += 1
            if cname == "DispatchTrip" and nd.startswith("Idle.build("):
                gone = any((flow.is_syn(a, "$isnone") and pol is True and flow.dump(a.args[0]) == target) or (pol is False and flow.dump(a) == target) for a, pol in atoms)
                ctx.check(gone, "D3", "GD.ARRIVE", "DispatchTrip: falls back to Idle only when the request is gone", fn, p.end,
                          why_bad="goes Idle although the request is still there", construct="DispatchTrip:terminal-idle")
                continue
            ok = guards.has_cell(atoms3, target)
            ctx.check(ok, "D3", "GD.ARRIVE", f"{cname}: next activity {nd[:40]} only when the vehicle is in the {tkind}'s cell", fn, p.end,
                      why_ok="target.geoid == vehicle.geoid on the path",
                      why_bad=f"path [{p.cond_text()[:300]}] yields {nd[:60]} without requiring the vehicle to be at the {tkind}",
                      construct=f"{cname}:terminal-without-LOC")
            # next activity built for the same entity ids
            if builds is not None:
                flat = nd
                same = any(b in flat for b in builds.values())
                ctx.check(same, "D3", "GD.ARRIVE", f"{cname}: next activity is built for the same vehicle and {tkind}", fn, p.end,
                          why_bad=f"next activity {nd[:200]}", construct=f"{cname}:terminal-build-ids")
            else:
                # DispatchTrip -> ServicingTrip(request) / ServicingPoolingTrip: route = route(request.position, request.destination_position)
                rt = f"SIM.road_network.route({target}.position, {target}.destination_position)"
                ctx.check(rt in nd and f"request={target}" in nd, "D3", "GD.ARRIVE",
                          "DispatchTrip: the trip is built for the same request with the route origin->destination", fn, p.end,
                          why_bad=f"next activity {nd[:300]}", construct="DispatchTrip:terminal-trip-route")
        ctx.require(n >= 1, f"{cname}._default_terminal_state has no success path")


def instructions(ctx: Ctx):
    """D4: the route handed to the activity goes from the vehicle's position to the position of the entity
    whose id is handed to the same activity."""
    repo = ctx.repo
    spec = {
        "DispatchTripInstruction": ("DispatchTrip", "requests", "request_id", 2),
        "DispatchStationInstruction": ("DispatchStation", "stations", "station_id", 2),
        "DispatchBaseInstruction": ("DispatchBase", "bases", "base_id", 2),
    }
    for cname, (state, coll, idf, route_idx) in spec.items():
        fn = repo.func(INS, f"{cname}.apply_instruction")
        s = fn.params[1]
        n = 0
        for p in flow.paths(fn.node):
            if p.kind != "return" or flow.classify_result(p.value) != "ok":
                continue
            n += 1
            res = p.value.elts[1]
            builds = [c for c in flow.calls_in(res, "build") if flow.dump(c.func) == f"{state}.build"]
            ok = False
            why = f"result {flow.dump(res)[:200]}"
            if builds:
                b = builds[0]
                args = [flow.dump(a) for a in b.args]
                veh = f"{s}.vehicles.get(self.vehicle_id)"
                ent = f"{s}.{coll}.get(self.{idf})"
                want_route = f"{s}.road_network.route({veh}.position, {ent}.position)"
                ok = len(args) > route_idx and args[0] == "self.vehicle_id" and args[1] == f"self.{idf}" and args[route_idx] == want_route
                why = f"{state}.build({', '.join(a[:90] for a in args)})"
            ctx.check(ok, "D4", "DU.instruction-route", f"{cname}: route(vehicle.position -> {idf} entity's position) handed to {state} with the same id",
                      fn, p.end, why_bad=why, construct=f"{cname}:route-provenance")
        ctx.require(n >= 1, f"{cname}.apply_instruction has no success path")
    fn = repo.func(INS, "RepositionInstruction.apply_instruction")
    s = fn.params[1]
    for p in flow.paths(fn.node):
        if p.kind == "return" and flow.classify_result(p.value) == "ok":
            res = flow.dump(p.value.elts[1])
            ok = f"Repositioning.build(self.vehicle_id, {s}.road_network.route({s}.vehicles.get(self.vehicle_id).position, " in res
            ctx.check(ok, "D4", "DU.instruction-route", "RepositionInstruction: route starts at the vehicle's position", fn, p.end,
                      why_bad=res[:200], construct="RepositionInstruction:route-provenance")
    # every built state carries the instruction's own vehicle id and previous state of that vehicle
    for cls in [c for c in repo.module(INS).classes.values() if "Instruction" in repo.base_names(c)]:
        fn = cls.methods.get("apply_instruction")
        if fn is None:
            continue
        s = fn.params[1]
        for p in flow.paths(fn.node):
            if p.kind == "return" and flow.classify_result(p.value) == "ok":
                res = p.value.elts[1]
                m = flow.match("InstructionResult(M_prev, M_next)", res)
                ok = m is not None and flow.dump(m["M_prev"]) == f"{s}.vehicles.get(self.vehicle_id).vehicle_state"
                ctx.check(ok, "D4", "DU.instruction-prev", f"{cls.name}: previous state is the instructed vehicle's current state", fn, p.end,
                          why_bad=flow.dump(res)[:200], construct=f"{cls.name}:prev-state")


def dropoff(ctx: Ctx, only_reasons: bool = False):
    """D5: drop_off_trip succeeds only if no passenger's destination differs from the vehicle's cell.
    only_reasons (C03's other direction): it REFUSES for no other reason than a missing vehicle or a misplaced passenger — a drop-off
    refused for anything else (who was dispatched, a flag on the request) leaves passengers on board at their destination for good."""
    fn = ctx.repo.func(SOPS, "drop_off_trip")
    sim, env, vid, req = fn.params[:4]
    veh = f"{sim}.vehicles.get({vid})"
    if only_reasons:
        for p in flow.paths(fn.node):
            if p.kind == "raise" or (p.kind == "return" and flow.classify_result(p.value) in ("error", "reject")):
                deciding = [c for c in p.conds if isinstance(c.pol, bool) and c.test is not None and flow._const_truth(c.test) is None]
                if not deciding:
                    continue
                last = deciding[-1]
                d = flow.dump(last.test)
                accepted = (d in (veh, f"not {veh}", f"{veh} is None", f"{veh} is not None") or
                            ("$elem(" + req + ".passengers).destination" in d and f"{veh}.geoid" in d) or
                            (".destination" in d and f"{veh}.geoid" in d and f"{req}.passengers" in d))
                ctx.check(accepted, "D5", "GD.dropoff", "drop_off_trip refuses only for a missing vehicle or a passenger who is not at the destination", fn, p.end,
                          why_ok=f"refusal decided by `{d[:80]}`",
                          why_bad=f"refusal decided by `{('' if last.pol else 'not ') + d[:160]}`: with every passenger at the destination the drop-off still fails, in this step and every later one "
                                  f"(the vehicle's update is rolled back), so the request is never dropped off",
                          construct=f"drop_off_trip:refusal:{d[:100]}")
        return
    ok_paths = [p for p in flow.paths(fn.node) if p.kind == "return" and flow.classify_result(p.value) == "ok"]
    ctx.require(len(ok_paths) >= 1, "drop_off_trip has no success path")
    # the loop with the rejecting return must exist on the way to success
    loop_ok = False
    for p in flow.paths(fn.node):
        if p.kind == "return" and flow.classify_result(p.value) == "error":
            for a, pol in p.facts():
                d = flow.dump(a)
                if pol is True and d in (f"$elem({req}.passengers).destination != {veh}.geoid", f"{veh}.geoid != $elem({req}.passengers).destination"):
                    loop_ok = True
                if pol is False and d in (f"$elem({req}.passengers).destination == {veh}.geoid", f"{veh}.geoid == $elem({req}.passengers).destination"):
                    loop_ok = True
    # the same test as one expression: next((p for p in passengers if p.destination != cell), None) / any(p.destination != cell ...)
    want_neq = {f"_0.destination != {veh}.geoid", f"{veh}.geoid != _0.destination"}

    def existential(a: ast.AST):
        """-> True if `a` being truthy / not-None means SOME passenger is misplaced (None if `a` is not such an expression)."""
        a = flow.core(a)
        if isinstance(a, ast.Call) and isinstance(a.func, ast.Name) and a.func.id in ("next", "any") and a.args:
            g = flow.canon(a.args[0])
            if isinstance(g, (ast.GeneratorExp, ast.ListComp)) and len(g.generators) == 1 and flow.dump(g.generators[0].iter) == f"{req}.passengers":
                conds = [flow.dump(c) for c in g.generators[0].ifs]
                if a.func.id == "next" and len(a.args) == 2 and flow.is_none(a.args[1]) and any(c in want_neq for c in conds):
                    return True
                if a.func.id == "any" and flow.dump(g.elt) in want_neq and not conds:
                    return True
        return None

    exist_form = False
    for p in flow.paths(fn.node):
        if p.kind == "return" and flow.classify_result(p.value) == "error":
            for a, pol in p.facts():
                inner = a.args[0] if flow.is_syn(a, "$isnone") else a
                e = existential(inner)
                if e and ((flow.is_syn(a, "$isnone") and pol is False) or (not flow.is_syn(a, "$isnone") and pol is True)):
                    loop_ok = exist_form = True
    ctx.check(loop_ok, "D5", "GD.dropoff", "drop_off_trip returns an error if any passenger's destination is not the vehicle's cell", fn,
              why_bad="no rejecting branch comparing passenger.destination with vehicle.geoid over request.passengers", construct="drop_off_trip:dest-check")
    for p in ok_paths:
        # a success path that iterated must have seen the comparison false; a success path may not return before the loop
        it = [c for c in p.conds if c.pol in ("iter", "skip") and isinstance(c.raw, ast.For) and flow.dump(c.raw.iter) == f"{req}.passengers"]
        if not it and exist_form:
            # the one-expression form: the success path must have seen "no passenger is misplaced"
            for a, pol in p.facts():
                inner = a.args[0] if flow.is_syn(a, "$isnone") else a
                if existential(inner) and ((flow.is_syn(a, "$isnone") and pol is True) or (not flow.is_syn(a, "$isnone") and pol is False)):
                    it = [a]
        ctx.check(bool(it), "D5", "GD.dropoff", "every success path of drop_off_trip passes the passenger loop", fn, p.end,
                  why_bad=f"success path [{p.cond_text()[:200]}] bypasses the destination check", construct="drop_off_trip:bypass")


def selftest():
    from ..selftest import V
    D = "nrel/hive/state/vehicle_state/"
    return [
        V("charging-base-no-loc", D + "charging_base.py", "        elif base.geoid != vehicle.geoid:", "        elif base.geoid != base.geoid:", rule="GD.LOC"),
        V("charging-station-inverted", D + "charging_station.py", "        if vehicle.geoid != station.geoid:\n            return None, None", "        if vehicle.geoid == station.geoid:\n            return None, None", rule="GD.LOC"),
        V("queue-other-entity", D + "charge_queueing.py", "        elif vehicle.geoid != station.geoid:", "        elif station.geoid != station.geoid:", rule="GD.LOC"),
        V("reserve-no-loc", D + "reserve_base.py", "        elif base.geoid != vehicle.geoid:", "        elif False:", rule="GD.LOC"),
        V("dispatch-base-src-only", D + "dispatch_base.py", "route_cooresponds_with_entities(self.route, vehicle.position, base.position)", "route_cooresponds_with_entities(self.route, vehicle.position)", rule="GD.LOC"),
        V("dispatch-trip-valid-dropped", D + "dispatch_trip.py", "        elif not is_valid:\n            return None, None\n        else:\n            updated_request", "        elif not is_valid and False:\n            return None, None\n        else:\n            updated_request", rule="GD.LOC"),
        V("servicing-prev-dropped", D + "servicing_trip.py", "elif not vehicle.vehicle_state.vehicle_state_type == VehicleStateType.DISPATCH_TRIP:", "elif vehicle.vehicle_state.vehicle_state_type == VehicleStateType.OUT_OF_SERVICE:", rule="GD.PREV"),
        V("arrival-station-no-check", D + "dispatch_station.py", "        elif station.geoid != vehicle.geoid:\n            locations", "        elif station.geoid != vehicle.geoid and not station.has_available_charger(self.charger_id):\n            locations", rule="GD.ARRIVE"),
        V("validator-end-dropped", ROUTE, "is_valid = start_link.start == src.geoid and end_link.end == dst.geoid", "is_valid = start_link.start == src.geoid and end_link.end == end_link.end", rule="GD.validator"),
        V("instruction-route-to-other", INS, "            start = vehicle.position\n            end = base.position\n            route = sim_state.road_network.route(start, end)", "            start = vehicle.position\n            end = base.position\n            route = sim_state.road_network.route(end, start)", rule="DU.instruction-route"),
        V("dropoff-no-check", SOPS, "            if passenger.destination != vehicle.geoid:", "            if passenger.destination != passenger.destination:", rule="GD.dropoff"),
        V("twin-not-eq", D + "reserve_base.py", "        elif base.geoid != vehicle.geoid:", "        elif not (vehicle.geoid == base.geoid):", kind="twin"),
        V("twin-hoisted", D + "charge_queueing.py", "        elif vehicle.geoid != station.geoid:\n            return None, None\n        elif has_available_charger:",
          "        elif not (station.geoid == vehicle.geoid):\n            return None, None\n        elif has_available_charger:", kind="twin"),
        V("twin-guard-order", D + "dispatch_base.py", "        elif not is_valid:\n            return None, None\n        elif not base.membership.grant_access_to_membership(vehicle.membership):\n            msg = f\"vehicle {vehicle.id} and base {base.id} don't share a membership\"\n            return SimulationStateError(msg), None",
          "        elif not base.membership.grant_access_to_membership(vehicle.membership):\n            msg = f\"vehicle {vehicle.id} and base {base.id} don't share a membership\"\n            return SimulationStateError(msg), None\n        elif not is_valid:\n            return None, None", kind="twin"),
    ] + _auto()


def _auto():
    from ..loader import Repo
    from .. import autovariants as av
    # ServicingTrip.enter tests its route three times over (is_valid + two re-checks): dropping one leaves the others (equivalent)
    return av.guard_variants(Repo(), "LOC", skip=("ServicingTrip.enter",))

