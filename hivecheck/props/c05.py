"""C05 — energy and money are conserved between vehicles and stations (DU same-value + WMC)."""
from __future__ import annotations

import ast

from .. import AnalysisError, flow, states, rules
from ..report import Ctx

VO = "nrel/hive/state/vehicle_state/vehicle_state_ops.py"
ST = "nrel/hive/model/station/station.py"
VEH = "nrel/hive/model/vehicle/vehicle.py"
SOPS = "nrel/hive/state/vehicle_state/servicing_ops.py"

EXPLANATION = (
    "charge(): the amount debited from the vehicle (send_payment) and credited to the station (receive_payment) "
    "is one expression: (energy delta of the charged vehicle for the plug's energy type) x (get_price of the SAME "
    "station and plug id), zero when no price; the same delta is booked as dispensed under the same energy type; "
    "both updated entities reach the returned state. The four setters are unconditional single updates of the "
    "right field (balance -/+ amount; dispensed[k] += delta over the station's own energy types). Closed "
    "caller/writer sets: balance and energy_dispensed are written only by those setters, which are called only by "
    "charge() and pick_up_trip(). pick_up_trip credits request.value of the request it removes, and no later "
    "commit overwrites a vehicle that was just paid with a stale copy (lost-update rule). ChargingStation / "
    "ChargingBase charge at the station whose plug they hold. Decides these structural clauses, not float sums."
)


def run(ctx: Ctx):
    charge_rule(ctx)
    setters(ctx)
    writers(ctx)
    pickup_rule(ctx)
    lost_update(ctx)
    who_charges(ctx)
    ctx.attempt(gained_equals_stored, ctx)
    ctx.attempt(dispensed_keys, ctx)
    ctx.attempt(rules.rule_initial_tallies, ctx, "D6", {"Vehicle": ["energy_gained", "balance"], "Station": ["energy_dispensed", "balance"]})
    # energy is GAINED only by charging: the tally the stations' dispensed energy is compared with has the two add_energy implementations as
    # its only bookers (energy recovered while driving, booked as gained, has no station on the other side of the ledger)
    def _adders(s_):
        f = s_.func
        if f is not None and f.relpath in ("nrel/hive/model/vehicle/mechatronics/bev.py", "nrel/hive/model/vehicle/mechatronics/ice.py") and f.name == "add_energy":
            return "add_energy (charging)"
        return None
    ctx.attempt(rules.rule_callers, ctx, "D6", "tick_energy_gained", _adders, "energy_gained is booked only by add_energy, i.e. only while charging at a station", 2)
    ctx.floor("DU.same-value", 3)
    ctx.floor("DU.setter", 4)
    ctx.floor("WMC", 8)
    ctx.not_decided += ["fleet-wide sums as float equalities", "tariff values themselves"]


def charge_rule(ctx: Ctx):
    fn = ctx.repo.func(VO, "charge")
    sim, env, vid, sid, cid = fn.params[:5]
    veh = f"{sim}.vehicles.get({vid})"
    station = f"{sim}.stations.get({sid})"
    charger = f"{station}.get_charger_instance({cid})[1]"
    n = 0
    for p in flow.paths(fn.node):
        if p.kind != "return" or flow.classify_result(p.value) not in ("delegate", "ok", "pair"):
            continue
        sends = [e for e in p.events if e.name == "send_payment" and not e.deferred]
        recvs = [e for e in p.events if e.name == "receive_payment" and not e.deferred]
        ticks = [e for e in p.events if e.name == "tick_energy_dispensed" and not e.deferred]
        adds = [e for e in p.events if e.name == "add_energy" and not e.deferred]
        if not adds:
            continue
        n += 1
        ok_counts = len(sends) == 1 and len(recvs) == 1 and len(ticks) == 1 and len(adds) == 1
        if not ok_counts:
            ctx.violation("D1", "DU.same-value", "charge(): exactly one debit, one credit, one dispensed booking per charge step", fn, p.end,
                          why=f"send_payment x{len(sends)}, receive_payment x{len(recvs)}, tick_energy_dispensed x{len(ticks)}", construct="charge:counts")
            continue
        add = adds[0].call
        charged = ast.Subscript(value=add, slice=ast.Constant(value=0), ctx=ast.Load())
        a_send, a_recv = sends[0].call.args[0], recvs[0].call.args[0]
        ctx.check(flow.same(a_send, a_recv), "D1", "DU.same-value", "charge(): debit and credit are the same value", fn, sends[0].raw,
                  why_ok="both arguments expand to one expression",
                  why_bad=f"vehicle pays {flow.dump(a_send)[:120]} but the station receives {flow.dump(a_recv)[:120]}", construct="charge:debit!=credit")
        # structure of the amount
        add_args = [states.ndump(a) for a in add.args]
        # conservation needs ONE plug object throughout (energy added, energy type, booking), looked up by this charger id;
        # WHICH object (the station's own instance vs the environment's template) bounds the rate and is C04's clause
        if len(add.args) >= 2 and cid in {x.id for x in ast.walk(add.args[1]) if isinstance(x, ast.Name)}:
            charger = add_args[1]
        ok_add = add_args[:2] == [veh, charger] and states.ndump(add.func.value) == f"{env}.mechatronics.get({veh}.mechatronics_id)"
        ctx.check(ok_add, "D1", "DU.same-value", "charge(): add_energy is applied to this vehicle with a plug looked up by this charger id", fn, adds[0].raw,
                  why_bad=f"add_energy({', '.join(add_args)[:200]})", construct="charge:add-energy-args")
        et = f"{charger}.energy_type"
        price = f"{station}.get_price({cid})"
        kwh = f"{states.ndump(charged)}.energy[{et}] - {veh}.energy[{et}]"
        m = flow.match("M_k * M_p if M_p else 0.0", a_send)
        ok_amount = False
        if m is not None and isinstance(m["M_k"], ast.BinOp) and isinstance(m["M_k"].op, ast.Sub):
            ok_amount = (states.ndump(m["M_p"]) == price and states.ndump(m["M_k"].left) == f"{states.ndump(charged)}.energy[{et}]"
                         and states.ndump(m["M_k"].right) == f"{veh}.energy[{et}]")
        if not ok_amount:
            # the same formula written as an if-statement: this path's amount is the formula specialised by this path's tests
            facts = p.facts()
            has_price = None
            for at, pol in facts:
                if states.ndump(at) == price:
                    has_price = pol
            if has_price is True:
                mm = flow.match("M_k * M_p", a_send)
                ok_amount = (mm is not None and isinstance(mm["M_k"], ast.BinOp) and isinstance(mm["M_k"].op, ast.Sub) and states.ndump(mm["M_p"]) == price
                             and states.ndump(mm["M_k"].left) == f"{states.ndump(charged)}.energy[{et}]" and states.ndump(mm["M_k"].right) == f"{veh}.energy[{et}]")
            elif has_price is False:
                ok_amount = flow.dump(a_send) in ("0.0", "0")
        ctx.check(ok_amount, "D1", "DU.same-value", "charge(): amount = energy delta (plug's energy type) x this station's price for this plug, 0 without a price", fn, sends[0].raw,
                  why_bad=f"amount = {states.ndump(a_send)[:260]}", construct="charge:amount-formula")
        # dispensed booking
        t = ticks[0].call
        targ = states.ndump(t.args[0]) if t.args else "?"
        ok_t = targ == f"immutables.Map({{{et}: {kwh}}})"
        ctx.check(ok_t, "D1", "DU.same-value", "charge(): energy booked as dispensed = the vehicle's energy delta, under the plug's energy type", fn, ticks[0].raw,
                  why_bad=f"books {targ[:200]}", construct="charge:dispensed")
        # receivers and flow to result
        ok_recv = states.ndump(sends[0].call.func.value) == states.ndump(charged) and states.ndump(recvs[0].call.func.value) == station
        ctx.check(ok_recv, "D1", "DU.same-value", "charge(): the charged vehicle pays, the station charged at is paid", fn, recvs[0].raw,
                  why_bad=f"payer {states.ndump(sends[0].call.func.value)[:80]}, payee {states.ndump(recvs[0].call.func.value)[:80]}", construct="charge:payer-payee")
        vd = states.subtree_dumps(p.value)
        flows = ast.dump(sends[0].call) in vd and ast.dump(ticks[0].call) in vd and ast.dump(recvs[0].call) in vd
        shape = isinstance(p.value, ast.Call) and flow.dump(p.value.func).endswith("modify_station") and any(
            flow.dump(c.func).endswith("modify_vehicle") for c in flow.calls_in(p.value.args[0]) if p.value.args)
        ctx.check(flows and shape, "D1", "DU.must-flow", "charge(): paid vehicle and credited station both reach the returned state", fn, p.end,
                  why_bad=f"returns {flow.dump(p.value)[:200]}", construct="charge:result-flow")
    ctx.require(n >= 1, "charge(): no charging path found")


def _expr(src: str) -> ast.AST:
    return ast.parse(src, mode="eval").body


def setters(ctx: Ctx):
    repo = ctx.repo
    spec = [
        (VEH, "Vehicle.send_payment", "replace(self, balance=self.balance - {0})"),
        (VEH, "Vehicle.receive_payment", "replace(self, balance=self.balance + {0})"),
        (ST, "Station.receive_payment", "replace(self, balance=self.balance + {0})"),
        (ST, "Station.tick_energy_dispensed",
         "replace(self, energy_dispensed=immutables.Map({{k: self.energy_dispensed[k] + {0}.get(k, 0) for k in self.energy_dispensed.keys()}}))"),
    ]
    for file, qn, pat in spec:
        fn = repo.func(file, qn)
        ps = flow.paths(fn.node)
        if qn.endswith("tick_energy_dispensed"):
            dispensed_setter(ctx, fn, ps)
            continue
        want = flow.dump(_expr(pat.format(fn.params[1])))
        ok = len(ps) == 1 and ps[0].kind == "return" and flow.dump(ps[0].value) == want
        ctx.check(ok, "D2", "DU.setter", f"{qn}: unconditional {want[:70]}", fn,
                  why_bad=f"{len(ps)} path(s); returns {[flow.dump(p.value)[:140] for p in ps if p.kind == 'return']}", construct=f"{qn}:shape")


def dispensed_setter(ctx: Ctx, fn, ps):
    """energy_dispensed' = {k: old[k] + delta(k)} ranging over the station's OWN energy types (ranging
    over the delta's keys would drop the totals of every other type)."""
    delta = fn.params[1]
    qn = fn.qualname
    if not (len(ps) == 1 and ps[0].kind == "return"):
        ctx.violation("D2", "DU.setter", f"{qn}: not an unconditional update", fn, why=f"{len(ps)} paths", construct=f"{qn}:shape")
        return
    v = ps[0].value
    kw = {k.arg: k.value for k in v.keywords} if isinstance(v, ast.Call) else {}
    comp = None
    for n in ast.walk(kw.get("energy_dispensed", ast.Constant(value=None))):
        if isinstance(n, ast.DictComp):
            comp = n
    if comp is None or len(comp.generators) != 1:
        raise AnalysisError(f"{qn}: energy_dispensed is not built by a single dict comprehension")
    it = flow.dump(comp.generators[0].iter)
    own = it in ("self.energy_dispensed.keys()", "self.energy_dispensed", "self.energy_dispensed.items()", "sorted(self.energy_dispensed.keys())", "sorted(self.energy_dispensed)")
    from_delta = flow.mentions(comp.generators[0].iter, delta) and not flow.mentions(comp.generators[0].iter, "self")
    adds = isinstance(comp.value, ast.BinOp) and isinstance(comp.value.op, ast.Add) and flow.mentions(comp.value, delta)
    if from_delta:
        ctx.violation("D2", "DU.setter", f"{qn}: ranges over the delta's keys", fn, why=f"iterates {it}: running totals of every other energy type are dropped", construct=f"{qn}:shape")
    elif own and adds and not comp.generators[0].ifs:
        ctx.ok("D2", "DU.setter", f"{qn}: dispensed[k] += delta(k) for every energy type of the station", fn)
    else:
        raise AnalysisError(f"{qn}: unrecognised comprehension over {it}")


def writers(ctx: Ctx):
    repo = ctx.repo
    charge = repo.func(VO, "charge")
    pick = repo.func(SOPS, "pick_up_trip")

    def only(fns, label):
        def ok(s):
            return label if s.func in fns else None
        return ok

    rules.rule_callers(ctx, "D2", "send_payment", only([charge], "charge()"), "send_payment is called only by charge()")
    rules.rule_callers(ctx, "D2", "tick_energy_dispensed", only([charge], "charge()"), "tick_energy_dispensed is called only by charge()")
    rules.rule_callers(ctx, "D2", "receive_payment", only([charge, pick], "charge() (station) / pick_up_trip() (vehicle)"),
                       "receive_payment is called only by charge() and pick_up_trip()", 2)

    def bal_writer(s):
        f = s.func
        if f is None:
            return None
        if (f.relpath, f.qualname) in ((VEH, "Vehicle.send_payment"), (VEH, "Vehicle.receive_payment"), (ST, "Station.receive_payment")):
            return "payment setter"
        if f.name in ("build", "from_row") and f.relpath in (VEH, ST):
            return "constructor"
        return None

    rules.rule_field_writers(ctx, "D2", "balance", bal_writer, "balances are written only by the payment setters", 3)

    def disp_writer(s):
        f = s.func
        if f is not None and f.relpath == ST and f.qualname in ("Station.tick_energy_dispensed", "Station.build", "Station.from_row"):
            return "tick_energy_dispensed / constructor"
        return None

    rules.rule_field_writers(ctx, "D2", "energy_dispensed", disp_writer, "energy_dispensed is written only by tick_energy_dispensed", 1)
    rules.rule_callers(ctx, "D2", "charge",
                       lambda s: "activity _perform_update" if (s.func is not None and s.func.name == "_perform_update" and s.func.relpath.startswith(states.VS_DIR)) else None,
                       "vehicle_state_ops.charge is called only by ChargingStation/ChargingBase._perform_update", 2,
                       skip=lambda s: not (s.kind == "call" and isinstance(s.node.func, ast.Name)))


def pickup_rule(ctx: Ctx):
    fn = ctx.repo.func(SOPS, "pick_up_trip")
    sim, env, vid, rid = fn.params[:4]
    n = 0
    for p in flow.paths(fn.node):
        if p.kind != "return" or flow.classify_result(p.value) not in ("delegate", "ok", "pair"):
            continue
        if p.has_marker("except"):
            continue
        n += 1
        pays = [e for e in p.events if e.name == "receive_payment" and not e.deferred]
        ok = len(pays) == 1 and flow.dump(pays[0].call) == f"{sim}.vehicles.get({vid}).receive_payment({sim}.requests.get({rid}).value)"
        ctx.check(ok, "D2", "DU.same-value", "pick_up_trip credits exactly request.value of the picked request to the picking vehicle, once", fn, p.end,
                  why_bad=f"payments: {[flow.dump(e.call)[:120] for e in pays]}", construct="pick_up_trip:payment")
        want = f"simulation_state_ops.remove_request(simulation_state_ops.modify_vehicle({sim}, {sim}.vehicles.get({vid}).receive_payment({sim}.requests.get({rid}).value))[1], {rid})"
        ctx.check(flow.dump(p.value) == want, "D2", "DU.must-flow", "pick_up_trip returns remove_request(modify_vehicle(sim, paid vehicle), same request id): payment and removal in one state", fn, p.end,
                  why_bad=f"returns {flow.dump(p.value)[:240]}", construct="pick_up_trip:result")
    ctx.require(n >= 1, "pick_up_trip: no success path")


def lost_update(ctx: Ctx):
    """No commit overwrites a vehicle that an earlier call on the same path already updated in the state
    being committed to: modify_vehicle(S', V) with S' = pick_up_trip(S, ..)[1] (which credits the fare in
    S') must take V from S', not from S or a parameter."""
    repo = ctx.repo
    n = 0
    for fn in [f for f in repo.all_funcs() if f.relpath.startswith(states.VS_DIR)]:
        try:
            ps = flow.paths(fn.node)
        except AnalysisError:
            continue
        reported = set()
        for p in ps:
            for e in p.events:
                if e.name != "modify_vehicle" or e.deferred or len(e.call.args) < 2:
                    continue
                s_arg, v_arg = e.call.args[0], e.call.args[1]
                picks = flow.calls_in(s_arg, "pick_up_trip")
                if not picks:
                    continue
                n += 1
                src = ast.dump(ast.Subscript(value=picks[0], slice=ast.Constant(value=1), ctx=ast.Load()))
                fresh = any(ast.dump(x) == src for x in ast.walk(v_arg))
                key = (fn.qualname, e.raw.lineno)
                if key in reported:
                    continue
                reported.add(key)
                ctx.check(fresh, "D2", "DU.lost-update", f"{fn.qualname}: vehicle committed after pick_up_trip is taken from the state pick_up_trip returned", fn, e.raw,
                          why_ok="the committed vehicle derives from pick_up_trip(...)[1].vehicles",
                          why_bad=f"commits {flow.dump(v_arg)[:160]} into the state returned by pick_up_trip: the fare just credited there is overwritten by a stale copy",
                          construct=f"{fn.qualname}:stale-vehicle-after-pickup")
    # apply_new_vehicle_state re-reads the vehicle from the state it is given (so enter() after pick_up_trip is safe)
    fn = repo.func("nrel/hive/state/vehicle_state/vehicle_state.py", "VehicleStateABC.apply_new_vehicle_state")
    sim, vid, st = fn.params[1:4]
    ok = False
    for p in flow.paths(fn.node):
        if p.kind == "return" and flow.classify_result(p.value) == "delegate":
            ok = flow.dump(p.value) == f"simulation_state_ops.modify_vehicle({sim}, {sim}.vehicles.get({vid}).modify_vehicle_state({st}))"
    ctx.check(ok, "D2", "DU.lost-update", "apply_new_vehicle_state updates the vehicle read from the state it is given", fn,
              why_bad="shape changed", construct="apply_new_vehicle_state:shape")
    ctx.require(n >= 1, "lost-update rule: no commit after pick_up_trip found (complete_trip_phase changed?)")


def who_charges(ctx: Ctx):
    repo = ctx.repo
    for cname, want in (("ChargingStation", "charge(SIM, ENV, SELF.vehicle_id, SELF.station_id, SELF.charger_id)"),
                        ("ChargingBase", "charge(SIM, ENV, SELF.vehicle_id, SIM.bases.get(SELF.base_id).station_id, SELF.charger_id)")):
        sc = states.state_class(repo, cname)
        fn = repo.method(sc.cls, "_perform_update")
        ren = {fn.params[0]: "SELF", fn.params[1]: "SIM", fn.params[2]: "ENV"}
        ok = False
        for p in flow.paths(fn.node):
            if p.kind == "return" and flow.classify_result(p.value) == "delegate":
                ok = states.ndump(p.value, ren) == want
        ctx.check(ok, "D3", "DU.provenance", f"{cname}._perform_update charges at the station whose plug it holds, with its own plug id", fn,
                  why_bad="charges elsewhere", construct=f"{cname}:charge-target")


def gained_equals_stored(ctx: Ctx):
    """What a vehicle books as gained is exactly the change of its stored level (the same delta charge() books as
    dispensed and prices): both MechatronicsInterface implementations of add_energy (shared with C04-D2)."""
    from . import c04
    for file, cname in ((c04.BEV, "BEV"), (c04.ICE, "ICE")):
        fn = ctx.repo.func(file, f"{cname}.add_energy")
        c04.mechatronics_method(ctx, fn, cname, "add_energy", "tick_energy_gained", "up", bounds=False)


def dispensed_keys(ctx: Ctx):
    """A station's energy_dispensed map is initialised for EVERY energy type: tick_energy_dispensed only updates keys
    that exist, so a type missing at construction (plug types can be appended later) would never be booked."""
    fn = ctx.repo.func(ST, "Station.build")
    vals = set()
    for p in flow.paths(fn.node):
        if p.kind == "return" and isinstance(p.value, ast.Call):
            for k in p.value.keywords:
                if k.arg == "energy_dispensed":
                    vals.add(flow.dump(k.value))
    ok = vals == {"immutables.Map({energy_type: 0.0 for energy_type in EnergyType})"}
    ctx.check(ok, "D2", "DU.dispensed-keys", "Station.build initialises energy_dispensed to 0.0 for every EnergyType", fn,
              why_bad=f"energy_dispensed = {sorted(vals)}: an energy type absent here is silently dropped by tick_energy_dispensed", construct="Station.build:energy_dispensed-keys")


def selftest():
    from ..selftest import V
    return [
        V("credit-differs", VO, "        updated_station = station.receive_payment(charging_price)", "        updated_station = station.receive_payment(kwh_transacted * charger_price)", rule="DU.same-value"),
        V("price-constant", VO, "        charger_price = station.get_price(charger_id)  # Currency", "        charger_price = 0.25  # Currency", rule="DU.same-value"),
        V("no-dispensed", VO, "        updated_station = updated_station.tick_energy_dispensed(\n            immutables.Map({charger.energy_type: kwh_transacted})\n        )\n", "", rule="DU.same-value"),
        V("station-not-committed", VO, "            return simulation_state_ops.modify_station(sim_with_vehicle, updated_station)", "            return None, sim_with_vehicle", rule="DU"),
        V("send-payment-conditional", VEH, "        return replace(self, balance=self.balance - amount)", "        if amount <= 0:\n            return self\n        return replace(self, balance=self.balance - amount)", rule="DU.setter"),
        V("dispensed-delta-keys", ST, "            for k in self.energy_dispensed.keys()\n", "            for k in delta_energy.keys()\n", rule="DU.setter"),
        V("second-payment", SOPS, "            return simulation_state_ops.remove_request(maybe_sim_with_vehicle, request_id)", "            return simulation_state_ops.remove_request(simulation_state_ops.modify_vehicle(maybe_sim_with_vehicle, updated_vehicle.receive_payment(request.value))[1], request_id)", rule="DU"),
        V("stale-vehicle-after-pickup", SOPS, "                updated_vehicle = paid_vehicle.modify_vehicle_state(updated_vehicle_state)", "                updated_vehicle = vehicle.modify_vehicle_state(updated_vehicle_state)", rule="DU.lost-update"),
        V("base-charges-elsewhere", "nrel/hive/state/vehicle_state/charging_base.py", "            return charge(sim, env, self.vehicle_id, station_id, self.charger_id)", "            return charge(sim, env, self.vehicle_id, self.base_id, self.charger_id)", rule="DU.provenance"),
        V("new-balance-writer", ST, "        return replace(self, membership=Membership.from_tuple(member_ids))", "        return replace(self, membership=Membership.from_tuple(member_ids), balance=0.0)", rule="WMC.writers"),
        V("twin-alias-amount", VO, "        updated_vehicle = charged_vehicle.send_payment(charging_price)", "        amount = charging_price\n        updated_vehicle = charged_vehicle.send_payment(amount)", kind="twin"),
    ]
