"""C13 — routes are connected origin->destination paths (provenance of route assembly + CR coordinate roles)."""
from __future__ import annotations

import ast

from .. import AnalysisError, flow, states, rules
from ..report import Ctx

OSM = "nrel/hive/model/roadnetwork/osm/osm_roadnetwork.py"
OPS = "nrel/hive/model/roadnetwork/osm/osm_roadnetwork_ops.py"
LH = "nrel/hive/model/roadnetwork/osm/osm_road_network_link_helper.py"
HAV = "nrel/hive/model/roadnetwork/haversine_roadnetwork.py"
RN = "nrel/hive/model/roadnetwork/roadnetwork.py"

EXPLANATION = (
    "Route assembly by provenance: the search starts at index 1 (end node) of the origin link id and ends at index 0 "
    "(start node) of the destination link id; inner links are the consecutive pairs of the node path looked up in "
    "the link table (a missing link is an error, a one-node path the empty inner route); the result is "
    "(origin link with start := origin cell,) + inner + (destination link with end := destination cell,); an empty "
    "route is returned only for origin == destination or on an error / None result — never because a legitimately "
    "empty inner route is falsy. Every edge of the graph gets an entry in the LinkId table (no success path of "
    "add_link leaves the link out). Link ends are a function of the node alone (cell of the node's coordinates), so "
    "consecutive links join. The straight-line network returns one link origin cell -> destination cell. Snapping "
    "pairs the link id with a cell taken from h3_line(link.start, link.end). Coordinate roles: (lat, lon) order of "
    "every geo_to_h3 that produces link ends and of the KD-tree points/queries, siblings agree on y~lat, x~lon. "
    "Decides these structural clauses; h3 geometry ('lies on the link') is not decided."
)


def run(ctx: Ctx):
    # what route() reads (graph, node cells, link table) is what the constructor built: no method of the network changes it afterwards
    def _frozen_network(ctx_):
        from . import c16 as _c16
        osm_mod = ctx_.repo.module("nrel/hive/model/roadnetwork/osm/osm_roadnetwork.py")
        c_ = osm_mod.classes.get("OSMRoadNetwork")
        ctx_.require(c_ is not None, "OSMRoadNetwork not found")
        _c16._init_only_assignment(ctx_, c_)
        ctx_.ok("D1", "IM.closure", "OSMRoadNetwork: no method other than __init__ changes the graph / tables route() reads", file=c_.relpath, line=c_.node.lineno, function=c_.name)
    ctx.attempt(_frozen_network, ctx)
    ctx.attempt(osm_route, ctx)
    ctx.attempt(inner_links, ctx)
    ctx.attempt(resolve, ctx)
    ctx.attempt(link_table, ctx)
    ctx.attempt(haversine, ctx)
    ctx.attempt(snapping, ctx)
    ctx.attempt(coordinate_roles, ctx)
    ctx.attempt(link_ids, ctx)
    ctx.floor("DU.route", 6)
    ctx.floor("CR", 3)
    ctx.not_decided += ["geometric content (a cell 'lies on' a link; great-circle geometry)"]


def osm_route(ctx: Ctx):
    fn = ctx.repo.func(OSM, "OSMRoadNetwork.route")
    o, d = fn.params[1:3]
    on = f"extract_node_ids_int({o}.link_id)[1][1]"
    dn = f"extract_node_ids_int({d}.link_id)[1][0]"
    n_ok = 0
    for p in flow.paths(fn.node):
        if p.kind != "return":
            continue
        v = flow.dump(p.value)
        facts = p.facts()
        if v == "empty_route()":
            same = any(flow.dump(a) == f"{o} == {d}" and pol is True for a, pol in facts)
            if same:
                ctx.ok("D1", "DU.route", "empty route for origin == destination", fn, p.end)
                continue
            # must be an error / None branch; a falsy test on a value that may be legitimately empty is not
            deciding = [c for c in p.conds if isinstance(c.pol, bool)][-1] if p.conds else None
            bad = None
            for a, pol in flow.implied(deciding.test, deciding.pol) if deciding is not None else []:
                da = flow.dump(a)
                if pol is False and da.startswith("route_from_nx_path(") and da.endswith("[1]"):
                    isnone = any(flow.is_syn(b, "$isnone") and polb is True and flow.dump(b.args[0]) == da for b, polb in flow.implied(deciding.test, deciding.pol))
                    if not isnone:
                        bad = da
            # ... and only then: what decides this empty result must BE a failure of one of the steps (an error slot set, a value slot None,
            # the resolver handing back nothing) — not the success of a step, and not origin != destination
            if deciding is not None and bad is None:
                k, kpol = flow._atom_key(deciding.test)
                if deciding.pol is False:
                    kpol = not kpol
                legit = False
                if k.endswith("[0]") and k.startswith(("extract_node_ids_int(", "route_from_nx_path(")) and kpol is True:
                    legit = True  # an error was returned
                elif k.endswith("[1] is None") and k.startswith(("extract_node_ids_int(", "route_from_nx_path(")) and kpol is True:
                    legit = True  # no value was returned
                elif k.startswith("resolve_route_src_dst_positions(") and ((k.endswith(" is None") and kpol is True) or (not k.endswith(" is None") and kpol is False)):
                    legit = True  # the resolver found no link for one of the positions
                elif k.startswith("$isnone(") and kpol is True:
                    legit = True
                ctx.check(legit, "D1", "DU.route", "the empty route is returned for distinct positions only when a step of the assembly failed", fn, p.end,
                          why_ok=f"decided by `{k[:70]}`",
                          why_bad=f"the empty route is returned because `{('' if kpol else 'not ') + k[:140]}`: that is not a failure of the search / assembly — a query whose route exists gets no route "
                                  f"(the vehicle is told it has arrived)",
                          construct=f"OSMRoadNetwork.route:empty-on:{k[:80]}:{kpol}")
            ctx.check(bad is None, "D1", "DU.route", "a non-trivial query returns the empty route only on an error / None result", fn, p.end,
                      why_bad=f"`{flow.dump(deciding.raw)}`: an EMPTY inner route (origin link ends where the destination link starts) is falsy too and is treated as a failure — "
                              f"distinct positions on adjacent links get an empty route", construct="OSMRoadNetwork.route:empty-inner-as-failure")
            continue
        n_ok += 1
        # the node path may be any expression whose alternatives all run from the END node of the origin link to the
        # START node of the destination link (a search call with those endpoints, or an explicit node list)
        def node_path_ok(e, depth=0):
            if isinstance(e, ast.IfExp):
                return node_path_ok(e.body, depth) and node_path_ok(e.orelse, depth)
            if isinstance(e, ast.Call) and flow.dump(e.func).startswith("nx.") and len(e.args) >= 3:
                return flow.dump(e.args[0]) == "self.graph" and flow.dump(e.args[1]) == on and flow.dump(e.args[2]) == dn
            if isinstance(e, (ast.List, ast.Tuple)) and e.elts:
                return flow.dump(e.elts[0]) == on and flow.dump(e.elts[-1]) == dn
            if isinstance(e, ast.Call) and isinstance(e.func, ast.Attribute) and flow.dump(e.func.value) == "self" and depth < 2 and fn.cls is not None:
                # a method of the network that performs the search: every value it returns is judged with its parameters bound
                m = ctx.repo.method(fn.cls, e.func.attr)
                if m is None:
                    raise AnalysisError(f"OSMRoadNetwork.route: node path comes from self.{e.func.attr}(...), which is not a method of the class")
                prm = [x for x in m.params if x != "self"]
                binding = dict(zip(prm, e.args))
                binding.update({k.arg: k.value for k in e.keywords if k.arg})
                rets = [q for q in flow.paths(m.node) if q.kind == "return" and q.value is not None]
                if not rets:
                    raise AnalysisError(f"OSMRoadNetwork.route: self.{e.func.attr}(...) has no value-returning path")
                ctx.touched(m)
                return all(node_path_ok(flow.subst(q.value, binding), depth + 1) for q in rets)
            if isinstance(e, ast.Call) and not flow.dump(e.func).startswith("self."):
                raise AnalysisError(f"OSMRoadNetwork.route: cannot see where the node path `{flow.dump(e)[:80]}` starts and ends")
            return False  # read from something the network object stores: not the result of a search from / to these two nodes
        m = flow.match(f"resolve_route_src_dst_positions(route_from_nx_path(M_path, self.link_helper.links)[1], {o}, {d}, self)", p.value)
        good = m is not None and node_path_ok(m["M_path"])
        want = "resolve(...)"
        ctx.check(good, "D1", "DU.route", "route = resolve(origin link .. links of the A* node path from the END node of the origin link to the START node of the destination link .. destination link)", fn, p.end,
                  why_bad=f"returns {v[:300]}", construct="OSMRoadNetwork.route:assembly")
    if n_ok < 1:
        ctx.soft_fail("OSMRoadNetwork.route: no assembling path")


PAIR_ITERABLES = lambda path: {  # spellings of "every consecutive node pair of the path, in order"
    f"[({path}[i], {path}[i + 1]) for i in range(0, len({path}) - 1)]",
    f"[({path}[i], {path}[i + 1]) for i in range(len({path}) - 1)]",
    f"zip({path}, {path}[1:])", f"zip({path}[:-1], {path}[1:])", f"list(zip({path}, {path}[1:]))", f"list(zip({path}[:-1], {path}[1:]))",
}


def inner_links(ctx: Ctx):
    fn = ctx.repo.func(OPS, "route_from_nx_path")
    path, look = fn.params[:2]
    pairs_ok = PAIR_ITERABLES(path)
    inner = ctx.repo.func_opt(OPS, "route_from_nx_path._accumulate_links")
    loop_form = inner is None or not any(flow.calls_in(p.value, "reduce") for p in flow.paths(fn.node) if p.kind == "return" and p.value is not None)
    if loop_form:
        # the same fold written as a loop that appends one link per pair and returns the error at the first missing link
        n_app = n_err = 0
        for p in flow.paths(fn.node):
            if p.kind != "return" or p.value is None:
                continue
            it = [c for c in p.conds if c.pol == "iter"]
            v = flow.dump(p.value)
            if not it:
                if v == "(None, ())":
                    ok = any(c.pol == "skip" for c in p.conds) or gd_len1(p, path)
                    ctx.check(ok, "D1", "DU.route", "an empty inner route only for a one-node path / no pairs", fn, p.end, why_bad="empty inner route under another condition", construct="route_from_nx_path:empty")
                continue
            src = flow.dump(flow.subst(it[0].raw.iter, p.env)) if hasattr(it[0].raw, "iter") else "?"
            ctx.check(src in pairs_ok, "D1", "DU.route", "inner links = fold over every consecutive node pair of the path, in order", fn, it[0].raw, why_bad=f"loops over {src[:160]}", construct="route_from_nx_path:pairs")
            el = f"$elem({src})"
            link = f"{look}.get(create_link_id({el}[0], {el}[1]))"
            if flow.classify_result(p.value) == "error":
                n_err += 1
                found = any(flow.dump(a) == link and pol is False for a, pol in p.facts())
                ctx.check(found, "D1", "DU.route", "a node pair without a link in the table is an error (all links exist in the network)", fn, p.end, why_bad="error under another condition", construct="_accumulate_links:missing-link")
            else:
                n_app += 1
                want = f"(None, () + ({link}.to_link_traversal(),))"
                want2 = f"(None, ({link}.to_link_traversal(),))"
                ctx.check(v in (want, want2), "D1", "DU.route", "each node pair (a, b) contributes the link a-b of the link table, appended in order", fn, p.end, why_bad=v[:200], construct="_accumulate_links:append")
                found = any(flow.dump(a) == link and pol is True for a, pol in p.facts())
                ctx.check(found, "D1", "DU.route", "a node pair without a link in the table is an error (all links exist in the network)", fn, p.end, why_bad="missing link tolerated", construct="_accumulate_links:missing-link")
        if n_app < 1 or n_err < 1:
            ctx.soft_fail("route_from_nx_path (loop form): appending / error paths not found")
        return
    for p in flow.paths(fn.node):
        if p.kind != "return":
            continue
        v = flow.dump(p.value)
        if v == "(None, ())":
            ok = gd_len1(p, path)
            ctx.check(ok, "D1", "DU.route", "a one-node path yields the empty inner route", fn, p.end, why_bad="empty inner route under another condition", construct="route_from_nx_path:empty")
        else:
            ok = False
            for F, XS, INIT in rules.recognise_folds(fn):
                if flow.dump(F) == "_accumulate_links" and flow.dump(XS) in pairs_ok and flow.dump(INIT) == "(None, ())":
                    ok = True
            ctx.check(ok, "D1", "DU.route", "inner links = fold over every consecutive node pair of the path, in order", fn, p.end, why_bad=v[:200], construct="route_from_nx_path:pairs")
    acc, pair = inner.params[:2]
    seen = 0
    for p in flow.paths(inner.node):
        if p.kind != "return":
            continue
        v = flow.dump(p.value)
        if v == acc or flow.classify_result(p.value) == "error":
            continue
        seen += 1
        want = f"(None, {acc}[1] + ({look}.get(create_link_id({pair}[0], {pair}[1])).to_link_traversal(),))"
        ctx.check(v == want, "D1", "DU.route", "each node pair (a, b) contributes the link a-b of the link table, appended in order", inner, p.end, why_bad=v[:200], construct="_accumulate_links:append")
        found = any(flow.dump(a) == f"{look}.get(create_link_id({pair}[0], {pair}[1]))" and pol is True for a, pol in p.facts())
        ctx.check(found, "D1", "DU.route", "a node pair without a link in the table is an error (all links exist in the network)", inner, p.end, why_bad="missing link tolerated", construct="_accumulate_links:missing-link")
    if seen < 1:
        ctx.soft_fail("_accumulate_links: appending path not found")


def gd_len1(p, path: str) -> bool:
    from .. import gd
    return gd.allowed_lengths(p.facts(), path, grid=range(0, 4)) == {1}


def resolve(ctx: Ctx):
    fn = ctx.repo.func(OPS, "resolve_route_src_dst_positions")
    inner, s, d, net = fn.params[:4]
    n = 0
    for p in flow.paths(fn.node):
        if p.kind != "return" or p.value is None or flow.is_none(p.value):
            continue
        n += 1
        want = (f"({net}.link_from_link_id({s}.link_id).to_link_traversal().update_start({s}.geoid),) + {inner} + "
                f"({net}.link_from_link_id({d}.link_id).to_link_traversal().update_end({d}.geoid),)")
        ctx.check(flow.dump(p.value) == want, "D1", "DU.route", "route = (origin link starting at the origin cell,) + inner + (destination link ending at the destination cell,)", fn, p.end,
                  why_bad=flow.dump(p.value)[:300], construct="resolve_route_src_dst_positions:shape")
    if n < 1:
        ctx.soft_fail("resolve_route_src_dst_positions: no assembling path")
    # update_start / update_end
    LT = "nrel/hive/model/roadnetwork/linktraversal.py"
    for m, fld in (("update_start", "start"), ("update_end", "end")):
        f = ctx.repo.func(LT, f"LinkTraversal.{m}")
        a = f.params[1]
        ok = all((flow.dump(p.value) == "self" and any(flow.dump(x) == f"{a} == self.{fld}" and pol is True for x, pol in p.facts())) or
                 flow.dump(p.value) == f"self._replace({fld}={a})" for p in flow.paths(f.node) if p.kind == "return")
        ctx.check(ok, "D1", "DU.route", f"LinkTraversal.{m} sets only the {fld} cell", f, why_bad="changed", construct=f"LinkTraversal.{m}")


def link_table(ctx: Ctx):
    repo = ctx.repo
    add = repo.func(LH, "OSMRoadNetworkLinkHelper.build.Accumulator.add_link") if repo.func_opt(LH, "OSMRoadNetworkLinkHelper.build.Accumulator.add_link") else None
    if add is None:
        # nested class inside a classmethod: find by name
        cands = [f for f in repo.module(LH).funcs.values() if f.name == "add_link"]
        if not cands:
            for node in ast.walk(repo.module(LH).tree):
                if isinstance(node, ast.FunctionDef) and node.name == "add_link":
                    from ..loader import Func
                    cands = [Func(repo.module(LH), "Accumulator.add_link", node)]
        if not cands:
            raise AnalysisError("Accumulator.add_link not found")
        add = cands[0]
    link = add.params[1]
    n = 0
    for p in flow.paths(add.node):
        if p.kind != "return" or p.has_marker("except"):
            continue
        if flow.classify_result(p.value) != "ok":
            continue
        n += 1
        v = p.value.elts[1]
        kw = {k.arg: flow.dump(k.value) for k in v.keywords} if isinstance(v, ast.Call) and flow.dump(v.func) == "self._replace" else {}
        # the LinkId table gains this link, and every other structure the accumulator carries for the spatial index is extended too
        # (whatever its representation: parallel tuples, a map keyed by link id)
        ok = kw.get("lookup") == f"self.lookup.set({link}.link_id, {link})" and len(kw) >= 2 and all(
            val != f"self.{name}" and (f"{link}.link_id" in val or "centroid" in name or "centroid" in val) for name, val in kw.items() if name != "lookup")
        ctx.check(ok, "D1", "DU.link-table", "every link handed to add_link is entered in the LinkId table (and the id list), whatever its geometry", add, p.end,
                  why_bad=f"success path [{p.cond_text()[:120]}] returns {flow.dump(v)[:120]}: the graph still has the edge, so a route over it cannot be converted to links",
                  construct="Accumulator.add_link:link-left-out")
    if n < 1:
        ctx.soft_fail("add_link: no success path")
    ce = repo.func(LH, "OSMRoadNetworkLinkHelper.build.create_link_entry")
    acc, lt = ce.params[:2]
    n = 0
    for p in flow.paths(ce.node):
        if p.kind != "return" or p.has_marker("except") or flow.classify_result(p.value) != "ok":
            continue
        n += 1
        adds = [e for e in p.events if e.name == "add_link" and not e.deferred]
        ok = len(adds) == 1
        if ok:
            l = adds[0].call.args[0]
            a = [flow.dump(x) for x in l.args] if isinstance(l, ast.Call) and flow.dump(l.func) == "Link.build" else []
            def cell(i):
                c = f"safe_get_node_coordinates(graph.nodes[{lt}[{i}]], {lt}[{i}])[1]"
                return f"h3.geo_to_h3({c}[0], {c}[1], resolution=sim_h3_resolution)"
            ok = len(a) >= 3 and a[0] == f"create_link_id({lt}[0], {lt}[1])" and a[1] == cell(0) and a[2] == cell(1)
        ctx.check(ok, "D2", "DU.link-table", "Link(a-b): id from the node pair, start = cell of node a's coordinates, end = cell of node b's (a function of the node alone, so a-b then b-c join)", ce, p.end,
                  why_bad=f"Link.build({[x[:80] for x in a] if adds else '?'})", construct="create_link_entry:ends")
    if n < 1:
        ctx.soft_fail("create_link_entry: no success path")
    b = repo.func(LH, "OSMRoadNetworkLinkHelper.build")
    ok = any(isinstance(c, ast.Call) and flow.dump(c) == "ft.reduce(create_link_entry, graph.edges, initial)" for c in ast.walk(b.node))
    ctx.check(ok, "D1", "DU.link-table", "the table is built from every edge of the graph", b, why_bad="fold changed", construct="OSMRoadNetworkLinkHelper.build:fold")
    # the spatial index (snapping): the KD-tree is built over accumulator.link_centroids, which add_link extends together with
    # link_ids, one entry per link; the helper's link_count bounds the tree indices accepted by link_by_geoid, so it must be the
    # length of that very id list (the LinkId table is shorter when two parallel edges share one LinkId)
    n_ctor = 0
    for p in flow.paths(b.node):
        if p.kind != "return" or flow.classify_result(p.value) != "ok":
            continue
        v = p.value.elts[1]
        if isinstance(v, ast.Call) and flow.dump(v.func) == "OSMRoadNetworkLinkHelper":
            n_ctor += 1
            a = list(v.args) + [None] * 4
            kw = {k.arg: k.value for k in v.keywords}
            ids = kw.get("link_ids", a[2])
            cnt = kw.get("link_count", a[3])
            tree = kw.get("tree", a[1])
            good = ids is not None and cnt is not None and flow.dump(cnt) == f"len({flow.dump(ids)})"
            ctx.check(good, "D2", "DU.snap", "link_count is the length of the id list the spatial index runs parallel to", b, v,
                      why_bad=f"link_count = {flow.dump(cnt)[:80] if cnt is not None else '?'} but the tree indexes {flow.dump(ids)[:60] if ids is not None else '?'}: "
                              f"indices of the last links are rejected as out of range and locations nearest to them snap to nothing",
                      construct="OSMRoadNetworkLinkHelper.build:link-count")
            good_tree = tree is not None and ids is not None and flow.dump(tree).replace("link_centroids", "link_ids").endswith(f"({flow.dump(ids)})")
            form = "parallel lists of one accumulator"
            if not good_tree and tree is not None and ids is not None and isinstance(tree, ast.Call) and len(tree.args) == 1 and isinstance(tree.args[0], (ast.ListComp, ast.GeneratorExp)):
                # cKDTree([CENTROIDS[k] for k in IDS]) with the id list IDS itself: point i is the centroid of id i by construction
                comp = tree.args[0]
                g = comp.generators[0]
                if len(comp.generators) == 1 and not g.ifs and flow.dump(g.iter) == flow.dump(ids) and isinstance(comp.elt, ast.Subscript) and flow.dump(comp.elt.slice) == flow.dump(g.target) \
                        and "centroid" in flow.dump(comp.elt.value):
                    good_tree = True
                    form = "points looked up id by id from the id list"
            if not good_tree and tree is not None and "accumulator" in flow.dump(tree) and "centroid" in flow.dump(tree) and flow.dump(tree).count("accumulator") == flow.dump(tree).count(flow.dump(ids).split(".")[0]):
                raise AnalysisError(f"OSMRoadNetworkLinkHelper.build: cannot tell whether tree `{flow.dump(tree)[:100]}` runs parallel to ids `{flow.dump(ids)[:60]}`")
            ctx.check(good_tree, "D2", "DU.snap", "the KD-tree's i-th point is the centroid of the i-th link id handed to the helper", b, v, why_ok=form,
                      why_bad=f"tree = {flow.dump(tree)[:80] if tree is not None else '?'}", construct="OSMRoadNetworkLinkHelper.build:tree-source")
    if n_ctor < 1:
        ctx.soft_fail("OSMRoadNetworkLinkHelper.build: constructor call not found")


def haversine(ctx: Ctx):
    fn = ctx.repo.func(HAV, "HaversineRoadNetwork.route")
    o, d = fn.params[1:3]
    for p in flow.paths(fn.node):
        if p.kind != "return":
            continue
        v = p.value
        if flow.dump(v) == "empty_route()":
            ok = any(flow.dump(a) == f"{o} == {d}" and pol is True for a, pol in p.facts())
            ctx.check(ok, "D3", "DU.route", "straight-line network: empty route only for origin == destination", fn, p.end, why_bad="empty under another condition", construct="Haversine.route:empty")
        else:
            ok = isinstance(v, ast.Tuple) and len(v.elts) == 1 and isinstance(v.elts[0], ast.Call)
            if ok:
                kw = {k.arg: flow.dump(k.value) for k in v.elts[0].keywords}
                ok = kw.get("start") == f"{o}.geoid" and kw.get("end") == f"{d}.geoid" and kw.get("link_id") == f"h_ops.geoids_to_link_id({o}.geoid, {d}.geoid)"
            ctx.check(ok, "D3", "DU.route", "straight-line network: one link from the origin cell to the destination cell", fn, p.end, why_bad=flow.dump(v)[:200], construct="Haversine.route:link")


def snapping(ctx: Ctx):
    fn = ctx.repo.func(RN, "RoadNetwork.position_from_geoid")
    g = fn.params[1]
    link = f"self.link_from_geoid({g})"
    line = f"h3.h3_line({link}.start, {link}.end)"
    n = 0
    for p in flow.paths(fn.node):
        if p.kind != "return" or p.value is None or flow.is_none(p.value):
            continue
        n += 1
        v = p.value
        ok = isinstance(v, ast.Call) and flow.dump(v.func) == "EntityPosition" and len(v.args) == 2 and flow.dump(v.args[0]) == f"{link}.link_id"
        on_line = False
        if ok:
            # every alternative of the cell (arms of a conditional expression count with their condition) is an element of the line
            def cell_ok(e, extra):
                e = flow.core(e)
                if isinstance(e, ast.IfExp):
                    return cell_ok(e.body, extra + flow.implied(e.test, True)) and cell_ok(e.orelse, extra + flow.implied(e.test, False))
                c = flow.dump(e)
                if c == g:
                    return any(flow.dump(a) == f"{g} in {line}" and pol is True for a, pol in list(p.facts()) + extra)
                if c.startswith(f"sorted({line}, key=") and c.endswith("[0]"):
                    return True
                if c.startswith(f"min({line}, key=") or c.startswith(f"max({line}, key="):
                    return True  # an element of the (never empty) line, whichever the key prefers
                return False
            on_line = cell_ok(v.args[1], [])
        ctx.check(ok and on_line, "D4", "DU.snap", "snapping pairs the nearest link's id with a cell drawn from h3_line(link.start, link.end)", fn, p.end,
                  why_bad=flow.dump(v)[:200], construct="position_from_geoid:cell")
    if n < 1:
        ctx.soft_fail("position_from_geoid: no snapping return")


def _kd_points_in_h3_order(lh) -> bool:
    """The points stored for the KD-tree are h3.h3_to_geo(<cell>) results in their own (lat, lon) order: either the call's value is
    stored as it is, or it is unpacked into two names and a tuple of exactly those two names, in that order, is stored."""
    for n in ast.walk(lh.tree):
        if isinstance(n, ast.Assign) and isinstance(n.value, ast.Call) and flow.dump(n.value.func) == "h3.h3_to_geo" and len(n.targets) == 1:
            t = n.targets[0]
            if isinstance(t, ast.Tuple) and len(t.elts) == 2 and all(isinstance(e, ast.Name) for e in t.elts):
                a, b = t.elts[0].id, t.elts[1].id
                fwd = rev = 0
                for m in ast.walk(lh.tree):
                    if isinstance(m, ast.Tuple) and isinstance(m.ctx, ast.Load) and len(m.elts) == 2 and all(isinstance(e, ast.Name) for e in m.elts):
                        ids = [m.elts[0].id, m.elts[1].id]
                        fwd += ids == [a, b]
                        rev += ids == [b, a]
                if fwd >= 1 and rev == 0:
                    return True
            elif isinstance(t, ast.Name):
                return True
    return False


def coordinate_roles(ctx: Ctx):
    repo = ctx.repo
    fn = repo.func(OPS, "safe_get_node_coordinates")
    node = fn.params[0]
    vals = [flow.dump(p.value) for p in flow.paths(fn.node) if p.kind == "return" and flow.classify_result(p.value) == "ok"]
    ok = sorted(vals) == sorted([f"(None, ({node}['y'], {node}['x']))", f"(None, ({node}['lat'], {node}['lon']))"])
    ctx.check(ok, "D5", "CR.lat-lon", "safe_get_node_coordinates returns (latitude, longitude): (y, x) or (lat, lon)", fn, why_bad=f"{vals}", construct="safe_get_node_coordinates:order")
    # KD-tree: points and queries both in h3_to_geo order (lat, lon)
    lh = repo.module(LH)
    src = lh.source
    pts_ok = _kd_points_in_h3_order(lh)
    q = repo.func(LH, "OSMRoadNetworkLinkHelper.link_by_geoid")
    q_ok = any(e.name == "query" and flow.dump(e.call) == f"self.links_spatial_lookup.query(h3.h3_to_geo({q.params[1]}))" for p in flow.paths(q.node) for e in p.events)
    ctx.check(pts_ok and q_ok, "D5", "CR.lat-lon", "KD-tree points and queries use the same (lat, lon) order (both straight from h3_to_geo)", q,
              why_bad=f"points ok={pts_ok}, query ok={q_ok}", construct="kdtree:order")
    ce = repo.func(LH, "OSMRoadNetworkLinkHelper.build.create_link_entry")
    calls = [c for c in ast.walk(ce.node) if isinstance(c, ast.Call) and flow.dump(c.func) == "h3.geo_to_h3"]
    ok = len(calls) == 2 and all(len(c.args) == 2 and flow.dump(c.args[0]).endswith("_lat") and flow.dump(c.args[1]).endswith("_lon") for c in calls)
    unpack_ok = True
    for c in calls:
        a0, a1 = flow.dump(c.args[0]), flow.dump(c.args[1])
        # both names come out of ONE unpacking assignment, in the order written: (lat, lon) = <what safe_get_node_coordinates returned>
        unp = [n for n in ast.walk(ce.node) if isinstance(n, ast.Assign) and len(n.targets) == 1 and isinstance(n.targets[0], ast.Tuple)
               and [flow.dump(e) for e in n.targets[0].elts] == [a0, a1]]
        unpack_ok = unpack_ok and len(unp) >= 1
    ctx.check(ok and unpack_ok, "D5", "CR.lat-lon", "link-end cells: geo_to_h3(lat, lon, ...) with (lat, lon) unpacked in the order safe_get_node_coordinates returns them", ce,
              why_bad="argument order / unpacking changed", construct="create_link_entry:geo_to_h3-order")


def link_ids(ctx: Ctx):
    """Link ids are `<start node>-<end node>` and are parsed back in that order (the search endpoints are taken by index)."""
    LID = "nrel/hive/model/roadnetwork/link_id.py"
    repo = ctx.repo
    fn = repo.func(LID, "create_link_id")
    a, b = fn.params[:2]
    ps = [p for p in flow.paths(fn.node) if p.kind == "return"]
    ok = len(ps) == 1 and flow.dump(ps[0].value) == flow.dump(ast.parse('f"{%s}-{%s}"' % (a, b), mode="eval").body)
    ctx.check(ok, "D1", "DU.link-id", "create_link_id(src, dst) = '<src>-<dst>'", fn, why_bad=f"returns {flow.dump(ps[0].value) if ps else '?'}", construct="create_link_id")
    fn = repo.func(LID, "extract_node_ids")
    l = fn.params[0]
    oks = [p for p in flow.paths(fn.node) if p.kind == "return" and flow.classify_result(p.value) == "ok" and not p.has_marker("except")]
    ok = bool(oks) and all(flow.dump(p.value.elts[1]) == f"(str({l}.split('-')[0]), str({l}.split('-')[1]))" for p in oks)
    ctx.check(ok, "D1", "DU.link-id", "extract_node_ids returns (start node, end node) in the order they are written", fn,
              why_bad=f"{[flow.dump(p.value)[:90] for p in oks]}", construct="extract_node_ids:order")
    fn = repo.func(LID, "extract_node_ids_int")
    l = fn.params[0]
    oks = [p for p in flow.paths(fn.node) if p.kind == "return" and flow.classify_result(p.value) == "ok" and not p.has_marker("except")]
    ok = bool(oks) and all(flow.dump(p.value.elts[1]) == f"(int(extract_node_ids({l})[1][0]), int(extract_node_ids({l})[1][1]))" for p in oks)
    ctx.check(ok, "D1", "DU.link-id", "extract_node_ids_int keeps that order", fn, why_bad=f"{[flow.dump(p.value)[:120] for p in oks]}", construct="extract_node_ids_int:order")


def selftest():
    from ..selftest import V
    return [
        V("link-id-parse-swapped", "nrel/hive/model/roadnetwork/link_id.py", "            src = int(src_str)\n            dst = int(dst_str)\n            return None, (src, dst)", "            src = int(src_str)\n            dst = int(dst_str)\n            return None, (dst, src)", rule="DU.link-id"),
        V("unpack-swapped", OSM, "            _, origin_node_id = src_nodes\n            destination_node_id, _ = dst_nodes", "            origin_node_id, _ = src_nodes\n            _, destination_node_id = dst_nodes", rule="DU.route"),
        V("empty-inner-as-failure", OSM, "            elif inner_link_path is None:\n                return empty_route()", "            elif not inner_link_path:\n                return empty_route()", rule="DU.route"),
        V("start-end-swapped", OPS, "        src_link_traversal = src_link.to_link_traversal().update_start(src_link_pos.geoid)\n        dst_link_traversal = dst_link.to_link_traversal().update_end(dst_link_pos.geoid)",
          "        src_link_traversal = src_link.to_link_traversal().update_end(src_link_pos.geoid)\n        dst_link_traversal = dst_link.to_link_traversal().update_start(dst_link_pos.geoid)", rule="DU.route"),
        V("origin-link-dropped", OPS, "        updated_route = (src_link_traversal,) + inner_route + (dst_link_traversal,)", "        updated_route = inner_route + (dst_link_traversal,)", rule="DU.route"),
        V("pairs-skip-last", OPS, "for i in range(0, len(nx_path) - 1)]", "for i in range(0, len(nx_path) - 2)]", rule="DU.route"),
        V("short-link-left-out", LH, "                    h3_line = h3.h3_line(link.start, link.end)\n", "                    h3_line = h3.h3_line(link.start, link.end)\n                    if len(h3_line) < 2:\n                        return None, self\n", rule="DU.link-table"),
        V("link-end-from-src", LH, "                        link = Link.build(link_id, src_geoid, dst_geoid, speed, distance)", "                        link = Link.build(link_id, src_geoid, src_geoid, speed, distance)", rule="DU.link-table"),
        V("haversine-reversed", HAV, "            start=origin.geoid,\n            end=destination.geoid,", "            start=destination.geoid,\n            end=origin.geoid,", rule="DU.route"),
        V("snap-other-link", RN, "                position = EntityPosition(link.link_id, closest_hex_to_query)", "                position = EntityPosition(link.link_id, geoid)", rule="DU.snap"),
        V("coords-x-y", OPS, "        return None, (node[\"y\"], node[\"x\"])", "        return None, (node[\"x\"], node[\"y\"])", rule="CR.lat-lon"),
        V("twin-is-none-spelling", OSM, "            elif inner_link_path is None:\n                return empty_route()", "            elif inner_link_path == None:\n                return empty_route()", kind="twin"),
    ]
