"""C16 — earlier simulation states are never modified (IM immutability type closure + effect scan, typed)."""
from __future__ import annotations

import ast
import re
from typing import Dict, List, Optional, Set, Tuple

from .. import AnalysisError, PKG, flow, rules
from ..index import enclosing_func
from ..loader import parent, dotted, Class
from ..report import Ctx

SS = "nrel/hive/state/simulation_state/simulation_state.py"
DO = "nrel/hive/util/dict_ops.py"

EXPLANATION = (
    "(1) Type closure from SimulationState (and the controller object StepSimulation): every class reachable through "
    "field annotations (and every subclass of an abstract field type: the 13 activities, 3 driver states, "
    "mechatronics-free) is a NamedTuple, a frozen dataclass, an Enum or an immutable scalar, and every field type is "
    "built only from int/float/str/bool/None/UUID/tuple/frozenset/immutables.Map/Optional/Union of such; the road "
    "network implementations are the tabled exception and are checked to assign attributes only in __init__. "
    "(2) Effect scan over the package with receiver types from the project's type checker: no attribute / item "
    "assignment, `del`, augmented in-place operator or mutating method call on a value that is a parameter, a field "
    "read or module-level, unless its static type is immutable (Map.update/.set are pure, dict.update is not) or the "
    "receiver is a freshly built local container; no object.__setattr__ / setattr / __dict__ writes, no "
    "global/nonlocal, no MapMutation that escapes without finish(), no lazy one-shot iterator (generator, map, "
    "filter, zip) stored in a field. (3) Values written into the location/search indexes are typed frozenset. "
    "(4) Observer classes (Reporter, handlers, iterators) are outside the closure and their mutable state is not "
    "read by the step path (Reporter.reports only inside reporter.py). Decides these structural clauses; mutable "
    "payload parts outside SimulationState (file cursors inside Update) are reported as information."
)

IMMUTABLE_NAMES = {"int", "float", "str", "bool", "None", "NoneType", "UUID", "bytes", "complex", "Any", "object", "type", "Callable", "SupportsRichComparison",
                   "Tuple", "tuple", "FrozenSet", "frozenset", "Optional", "Union", "Type", "Literal", "Final", "ClassVar", "Hashable"}
MAP_NAMES = {"immutables.Map", "Map"}
MUTABLE_NAMES = {"List", "list", "Dict", "dict", "Set", "set", "DefaultDict", "defaultdict", "Deque", "deque", "ndarray", "np.ndarray", "Iterator", "Generator", "Iterable",
                 "MutableMapping", "MutableSequence", "MutableSet", "bytearray", "Counter", "OrderedDict"}
ALIASES_FILE = "nrel/hive/util/typealiases.py"
UNITS_FILE = "nrel/hive/util/units.py"
# reasoned exceptions of the closure
CLOSURE_EXCEPTIONS = {
    "RoadNetwork": "road network implementations hold the (read-only) graph / spatial index; enforced instead: no attribute assignment outside __init__",
    "HaversineRoadNetwork": "see RoadNetwork",
    "OSMRoadNetwork": "see RoadNetwork",
    "GeoFence": "static geometry loaded once",
}
MUTATING_METHODS = {"append", "extend", "insert", "pop", "remove", "clear", "sort", "reverse", "update", "add", "discard", "setdefault", "popitem", "appendleft",
                    "popleft", "difference_update", "intersection_update", "symmetric_difference_update", "fill", "put", "itemset", "resize", "__setitem__", "__delitem__"}
MUTABLE_T = re.compile(r"^(builtins\.)?(list|dict|set|bytearray)\[|^(builtins\.)?(list|dict|set|bytearray)$|numpy\.ndarray|collections\.(deque|defaultdict|Counter|OrderedDict)|^typing\.(List|Dict|Set|MutableMapping|MutableSequence|MutableSet)")
IMMUTABLE_T = re.compile(r"^immutables\.|^(builtins\.)?(tuple|frozenset|str|int|float|bool|bytes)\b|^tuple\[|^frozenset\[|^Tuple\[")
# observers / infrastructure: their own mutable state is by design and lives outside SimulationState
OBSERVER_DIRS = (PKG + "/reporting/", PKG + "/runner/", PKG + "/app/", PKG + "/config/", PKG + "/resources/", PKG + "/util/fs.py", PKG + "/util/iterators.py", PKG + "/initialization/",
                 PKG + "/model/roadnetwork/osm/", PKG + "/util/rust.py",
                 # construction-time builders (read a configuration dict while the environment is assembled); the curve / powertrain
                 # classes themselves run inside the step (charge, energy_cost) and ARE scanned
                 PKG + "/model/vehicle/mechatronics/powercurve/__init__.py", PKG + "/model/vehicle/mechatronics/powertrain/__init__.py",
                 PKG + "/model/roadnetwork/geofence.py", PKG + "/model/roadnetwork/haversine_roadnetwork.py", PKG + "/util/exception.py")


def run(ctx: Ctx):
    ctx.attempt(type_closure, ctx)
    ctx.attempt(effects, ctx)
    ctx.attempt(index_values, ctx)
    ctx.attempt(lazy_iterators, ctx)
    ctx.attempt(observers, ctx)
    ctx.attempt(hidden_inputs, ctx)
    ctx.floor("IM.closure", 35)
    ctx.floor("IM.effect", 1)
    ctx.not_decided += ["mutable payload parts outside SimulationState (DictReaderStepper cursors inside Update): information only"]


def hidden_inputs(ctx: Ctx):
    """D5 (second sentence of the property): stepping the same saved state twice gives the same result only if the
    step reads nothing but its arguments. No function of the step path draws from a process-global generator
    (random / numpy.random / secrets) or reads the wall clock; a seeded draw would still differ between the first and
    the second step of the same state. The detector is shown alive on the initialisation samplers, which do draw."""
    from . import c01
    repo = ctx.repo
    step = rules.step_path_funcs(repo)
    outside = [f for f in repo.all_funcs() if f.relpath.startswith(PKG + "/initialization")]
    alive = c01.hidden_input_sites(repo, outside)
    ctx.require(len(alive) >= 3, f"the random-draw detector matched only {len(alive)} sites in initialization/ (expected the samplers)")
    bad = c01.hidden_input_sites(repo, step)
    for fn, node, d in bad:
        ctx.violation("D5", "IM.hidden-input", f"{fn.qualname}: {d}()", fn, node,
                      why="the step path reads process-global state (generator / clock): stepping the same saved state twice no longer gives the same result",
                      construct=f"{fn.qualname}:hidden-input:{d}")
    if not bad:
        ctx.ok("D5", "IM.hidden-input", f"{len(step)} step-path functions draw from no process-global generator or clock",
               why=f"0 matching calls in the step path; detector matched {len(alive)} calls in initialization/ on this run")


# ------------------------------------------------------------------------------------------ closure
def _names_in_annotation(ann: ast.AST) -> List[str]:
    if isinstance(ann, ast.Constant) and isinstance(ann.value, str):
        try:
            ann = ast.parse(ann.value, mode="eval").body
        except SyntaxError:
            return [ann.value]
    out = []
    for n in ast.walk(ann):
        if isinstance(n, ast.Attribute):
            d = dotted(n)
            if d:
                out.append(d)
        elif isinstance(n, ast.Name):
            out.append(n.id)
    # drop prefixes of dotted names (immutables in immutables.Map)
    dotted_names = [d for d in out if "." in d]
    heads = {d.split(".")[0] for d in dotted_names}
    return [x for x in out if x not in heads or "." in x]


def _class_kind(repo, c: Class) -> str:
    bases = repo.base_names(c)
    decs = c.decorator_names()
    if "NamedTuple" in c.bases:
        return "namedtuple"
    if any(d.startswith("dataclass") for d in decs):
        frozen = any("frozen=True" in d for d in decs)
        return "frozen-dataclass" if frozen else "MUTABLE-dataclass"
    if "Enum" in bases or "IntEnum" in bases:
        return "enum"
    if "NamedTuple" in bases:
        return "namedtuple"
    if set(c.bases) <= {"ABC", "object", "Generic", "Protocol"} or "ABC" in c.bases or "ABCMeta" in " ".join(c.decorator_names()):
        return "abstract"
    if c.bases and all(b in ("int", "str", "float") for b in c.bases):
        return "scalar-subclass"
    return "plain-class"


def type_closure(ctx: Ctx):
    repo = ctx.repo
    aliases: Set[str] = set()
    for rel in (ALIASES_FILE, UNITS_FILE):
        m = repo.modules.get(rel)
        if m:
            for s in m.tree.body:
                if isinstance(s, ast.Assign) and isinstance(s.targets[0], ast.Name):
                    aliases.add(s.targets[0].id)
    roots = [repo.cls(SS, "SimulationState"), repo.cls("nrel/hive/state/simulation_state/update/step_simulation.py", "StepSimulation")]
    seen: Dict[str, Class] = {}
    work = list(roots)
    n_fields = 0
    while work:
        c = work.pop()
        if c.name in seen:
            continue
        seen[c.name] = c
        kind = _class_kind(repo, c)
        if c.name in CLOSURE_EXCEPTIONS:
            ctx.ok("D1", "IM.closure", f"{c.name}: tabled exception", file=c.relpath, line=c.node.lineno, function=c.name, why=CLOSURE_EXCEPTIONS[c.name])
            _init_only_assignment(ctx, c)
            for sub in repo.subclasses(c.name):
                if sub.name not in seen:
                    work.append(sub)
            continue
        ok_kind = kind in ("namedtuple", "frozen-dataclass", "enum", "abstract", "scalar-subclass")
        if kind == "plain-class":
            # a plain class is acceptable only if instance attributes are assigned in __init__ alone (set once)
            assigns = [n for n in ast.walk(c.node) if isinstance(n, ast.Attribute) and isinstance(n.ctx, ast.Store)
                       and not ((enclosing_func(n) is not None) and enclosing_func(n).name in ("__init__", "__new__"))]
            ok_kind = not assigns
            kind = "plain-class (attributes set in __init__ only)" if ok_kind else kind
        ctx.check(ok_kind, "D1", "IM.closure", f"{c.name} ({kind}) is immutable by construction", file=None, fn=None, node=None,
                  why_ok="", why_bad=f"{c.relpath}: class {c.name} is reachable from SimulationState and is a {kind}: its instances can be changed in place, so an earlier state that shares them changes too",
                  construct=f"{c.name}:{kind}") if False else _rec(ctx, ok_kind, c, kind)
        # fields
        for fname, ann in c.field_annotations().items():
            n_fields += 1
            for nm in _names_in_annotation(ann):
                base = nm.split(".")[-1]
                if nm in MAP_NAMES or base in IMMUTABLE_NAMES or nm in aliases or base in aliases:
                    continue
                if base in MUTABLE_NAMES or nm in MUTABLE_NAMES:
                    ctx.violation("D1", "IM.closure", f"{c.name}.{fname}: {flow.dump(ann)[:60]}", file=c.relpath, line=ann.lineno if hasattr(ann, "lineno") else c.node.lineno, function=c.name,
                                  why=f"field type mentions the mutable container `{nm}`: a state that holds it can be changed in place through any alias", construct=f"{c.name}.{fname}:mutable-field-type")
                    continue
                cands = repo.class_index.get(base, [])
                if cands:
                    for cc in cands:
                        if cc.name not in seen:
                            work.append(cc)
                    continue
                if base in ("T", "K", "V", "Entity", "EntityABC"):
                    continue
                ctx.info("D1", "IM.closure", f"{c.name}.{fname}: external type {nm} assumed immutable", file=c.relpath, line=c.node.lineno, function=c.name)
        # abstract field types: all subclasses belong to the closure
        for sub in repo.subclasses(c.name):
            if sub.name not in seen:
                work.append(sub)
    ctx.extra["closure_classes"] = sorted(seen)
    ctx.extra["closure_fields"] = n_fields
    if len(seen) < 30:
        ctx.soft_fail(f"type closure reached only {len(seen)} classes")


def _rec(ctx: Ctx, ok: bool, c: Class, kind: str):
    if ok:
        ctx.ok("D1", "IM.closure", f"{c.name} ({kind}) is immutable by construction", file=c.relpath, line=c.node.lineno, function=c.name)
    else:
        ctx.violation("D1", "IM.closure", f"{c.name} is a {kind}", file=c.relpath, line=c.node.lineno, function=c.name,
                      why=f"class {c.name} is reachable from SimulationState and is a {kind}: its instances can be changed in place, so an earlier state that shares them changes too",
                      construct=f"{c.name}:{kind}")


GRAPH_MUTATORS = {"add_edge", "add_node", "add_edges_from", "add_nodes_from", "add_weighted_edges_from", "remove_edge", "remove_node", "remove_edges_from",
                  "remove_nodes_from", "clear_edges"}
COPIES = {"dict", "list", "set", "tuple", "frozenset", "sorted", "copy", "deepcopy", "float", "int", "str", "bool", "len", "sum", "min", "max", "abs", "round"}


def _self_aliases(f):
    """Local names of a method that may refer to an object owned by `self` (a live view, a stored dict, an element of a stored
    container): bound from an expression rooted in `self` through attribute reads, subscripts, method calls on such a value
    (networkx hands out its internal dicts), `or` / conditional expressions, iteration and unpacking. A name bound from a copying
    builtin is fresh. `holders` are fresh local containers into which such a value was put; iterating them yields aliases again."""
    derived, holders = set(), set()

    def owned(e) -> bool:
        if isinstance(e, ast.Name):
            return e.id == "self" or e.id in derived
        if isinstance(e, (ast.Attribute, ast.Subscript, ast.Starred)):
            return owned(e.value)
        if isinstance(e, ast.Call):
            fn = e.func
            if isinstance(fn, ast.Name):
                return False  # free functions (dict(), list(), nx.f()) return fresh values
            if isinstance(fn, ast.Attribute):
                if fn.attr in ("copy", "deepcopy", "__copy__"):
                    return False
                return owned(fn.value)
            return False
        if isinstance(e, ast.BoolOp):
            return any(owned(v) for v in e.values)
        if isinstance(e, ast.IfExp):
            return owned(e.body) or owned(e.orelse)
        if isinstance(e, ast.NamedExpr):
            return owned(e.value)
        if isinstance(e, (ast.Tuple, ast.List)):
            return any(owned(x) for x in e.elts)
        return False

    def held(e) -> bool:
        if isinstance(e, ast.Name):
            return e.id in holders
        if isinstance(e, ast.Call) and isinstance(e.func, ast.Name) and e.func.id in ("zip", "enumerate", "reversed", "iter", "list", "tuple", "sorted"):
            return any(held(a) or owned(a) for a in e.args)
        if isinstance(e, ast.Call) and isinstance(e.func, ast.Attribute) and e.func.attr in ("items", "values", "keys", "copy"):
            return held(e.func.value)
        return False

    changed = True
    while changed:
        changed = False
        for n in ast.walk(f.node):
            binds = []
            if isinstance(n, ast.Assign):
                binds = [(t, n.value) for t in n.targets]
            elif isinstance(n, ast.AnnAssign) and n.value is not None:
                binds = [(n.target, n.value)]
            elif isinstance(n, (ast.For, ast.comprehension)):
                binds = [(n.target, n.iter)]
            elif isinstance(n, ast.NamedExpr):
                binds = [(n.target, n.value)]
            elif isinstance(n, ast.withitem) and n.optional_vars is not None:
                binds = [(n.optional_vars, n.context_expr)]
            for tgt, val in binds:
                if owned(val) or held(val):
                    for nm in flow.target_names(tgt):
                        if nm != "self" and nm not in derived:
                            derived.add(nm)
                            changed = True
            if isinstance(n, ast.Call) and isinstance(n.func, ast.Attribute) and isinstance(n.func.value, ast.Name) and n.func.attr in ("append", "add", "extend", "insert", "setdefault", "update"):
                if n.func.value.id not in derived and any(owned(a) or any(owned(x) for x in ast.walk(a) if isinstance(x, ast.Name)) for a in n.args):
                    if n.func.value.id not in holders:
                        holders.add(n.func.value.id)
                        changed = True
    derived -= holders
    return derived


def _init_only_assignment(ctx: Ctx, c: Class):
    for name, f in c.methods.items():
        if name in ("__init__", "__new__"):
            continue
        aliases = _self_aliases(f)

        def alias_rooted(e):
            while isinstance(e, (ast.Attribute, ast.Subscript)):
                e = e.value
            return isinstance(e, ast.Name) and e.id in aliases

        for n in ast.walk(f.node):
            tgt = None
            if isinstance(n, (ast.Subscript, ast.Attribute)) and isinstance(n.ctx, (ast.Store, ast.Del)) and alias_rooted(n.value):
                tgt = n
            elif isinstance(n, ast.AugAssign) and isinstance(n.target, (ast.Subscript, ast.Attribute)) and alias_rooted(n.target.value):
                tgt = n.target
            if tgt is not None:
                ctx.violation("D1", "IM.closure", f"{c.name}.{name} writes into {flow.dump(tgt)[:50]}, an object handed out by the road network's own structures", f, n,
                              why="the value comes from the graph / index held by the road network object (networkx returns its internal dictionaries), which every saved state shares: "
                                  "changing it in place, even temporarily, changes what earlier states read",
                              construct=f"{c.name}.{name}:alias-store:{flow.dump(tgt.value)[:40]}")
            elif isinstance(n, ast.Call) and isinstance(n.func, ast.Attribute) and n.func.attr in (MUTATING_METHODS | GRAPH_MUTATORS) and alias_rooted(n.func.value):
                ctx.violation("D1", "IM.closure", f"{c.name}.{name} calls {flow.dump(n.func.value)[:40]}.{n.func.attr}(...) on an object handed out by the road network's own structures", f, n,
                              why="a container held by the road network object — reachable from every saved state — is mutated after construction",
                              construct=f"{c.name}.{name}:alias-mutating-call:{flow.dump(n.func.value)[:40]}.{n.func.attr}")
            elif isinstance(n, ast.Call) and isinstance(n.func, ast.Attribute) and n.func.attr in GRAPH_MUTATORS and isinstance(n.func.value, (ast.Attribute, ast.Subscript)):
                e = n.func.value
                while isinstance(e, (ast.Attribute, ast.Subscript)):
                    e = e.value
                if isinstance(e, ast.Name) and e.id == "self":
                    ctx.violation("D1", "IM.closure", f"{c.name}.{name} calls {flow.dump(n.func.value)[:40]}.{n.func.attr}(...)", f, n,
                                  why="the graph held by the road network object — reachable from every saved state — is changed after construction",
                                  construct=f"{c.name}.{name}:self-mutating-call:{flow.dump(n.func.value)[:40]}.{n.func.attr}")
        def rooted_in_self(e):
            while isinstance(e, (ast.Attribute, ast.Subscript)):
                e = e.value
            return isinstance(e, ast.Name) and e.id == "self"

        for n in ast.walk(f.node):
            if isinstance(n, ast.Attribute) and isinstance(n.ctx, ast.Store) and isinstance(n.value, ast.Name) and n.value.id == "self":
                ctx.violation("D1", "IM.closure", f"{c.name}.{name} assigns self.{n.attr}", f, n, why="a road network object shared by every state is changed after construction", construct=f"{c.name}.{name}:self-assign:{n.attr}")
            elif isinstance(n, ast.Subscript) and isinstance(n.ctx, (ast.Store, ast.Del)) and rooted_in_self(n.value) and not isinstance(n.value, ast.Name):
                ctx.violation("D1", "IM.closure", f"{c.name}.{name} writes into {flow.dump(n.value)[:40]}[...]", f, n,
                              why="a container held by the road network object — reachable from every saved state — is changed after construction: the saved state no longer reads the same",
                              construct=f"{c.name}.{name}:self-item-store:{flow.dump(n.value)[:40]}")
            elif isinstance(n, ast.Call) and isinstance(n.func, ast.Attribute) and n.func.attr in MUTATING_METHODS and isinstance(n.func.value, (ast.Attribute, ast.Subscript)) \
                    and rooted_in_self(n.func.value):
                recv = flow.dump(n.func.value)
                ctx.violation("D1", "IM.closure", f"{c.name}.{name} calls {recv[:40]}.{n.func.attr}(...)", f, n,
                              why="a container held by the road network object — reachable from every saved state — is mutated after construction",
                              construct=f"{c.name}.{name}:self-mutating-call:{recv[:40]}.{n.func.attr}")


# ------------------------------------------------------------------------------------------ effects
def _fresh_value(v) -> bool:
    return isinstance(v, (ast.List, ast.Dict, ast.Set, ast.ListComp, ast.DictComp, ast.SetComp)) or (
        isinstance(v, ast.Call) and isinstance(v.func, ast.Name) and v.func.id in ("list", "dict", "set", "defaultdict", "Counter", "deque") and not v.args)


def _inner_of_fresh(fn, v, _depth: int = 0) -> bool:
    """`X.setdefault(k, <new container>)` / `X.get(k, <new container>)` / `X[k]` where X is a fresh local container into which this
    function only ever puts containers it builds itself (so the inner value cannot be an object of an earlier state)."""
    x = None
    if isinstance(v, ast.Call) and isinstance(v.func, ast.Attribute) and v.func.attr in ("setdefault", "get", "pop") and isinstance(v.func.value, ast.Name):
        if len(v.args) >= 2 and not _fresh_value(v.args[1]):
            return False
        if v.func.attr == "get" and len(v.args) < 2:
            return False
        x = v.func.value.id
    elif isinstance(v, ast.Subscript) and isinstance(v.value, ast.Name):
        x = v.value.id
    if x is None or not _fresh_local(fn, x, _depth + 1):
        return False
    for n in ast.walk(fn.node):
        if isinstance(n, ast.Assign):
            for t in n.targets:
                if isinstance(t, ast.Subscript) and isinstance(t.value, ast.Name) and t.value.id == x and not _fresh_value(n.value):
                    return False
        elif isinstance(n, ast.Call) and isinstance(n.func, ast.Attribute) and isinstance(n.func.value, ast.Name) and n.func.value.id == x:
            if n.func.attr == "setdefault" and len(n.args) >= 2 and not _fresh_value(n.args[1]):
                return False
            if n.func.attr in ("update", "append", "add", "extend", "insert"):
                return False
    return True


def _fresh_local(fn, name: str, _depth: int = 0) -> bool:
    """Every binding of `name` in the function is a freshly built container (literal, comprehension, constructor
    call, copy) — never a parameter, an attribute read or another variable."""
    if name in fn.params:
        return False
    binds = []
    for n in ast.walk(fn.node):
        if isinstance(n, (ast.Assign, ast.AnnAssign)):
            tg = n.targets if isinstance(n, ast.Assign) else [n.target]
            for t in tg:
                if isinstance(t, ast.Name) and t.id == name and getattr(n, "value", None) is not None:
                    binds.append(n.value)
                elif isinstance(t, (ast.Tuple, ast.List)) and any(isinstance(e, ast.Name) and e.id == name for e in t.elts):
                    binds.append(n.value)
        elif isinstance(n, (ast.For, ast.comprehension)) and name in flow.target_names(n.target):
            return False
        elif isinstance(n, ast.withitem) and n.optional_vars is not None and name in flow.target_names(n.optional_vars):
            binds.append(n.context_expr)
    if not binds:
        return False
    for v in binds:
        if isinstance(v, (ast.List, ast.Dict, ast.Set, ast.ListComp, ast.DictComp, ast.SetComp, ast.Tuple, ast.Constant, ast.BinOp, ast.JoinedStr)):
            continue
        if _depth < 3 and _inner_of_fresh(fn, v, _depth):
            continue  # an inner container of a local container that was built here and holds nothing but containers built here
        if isinstance(v, ast.Call):
            d = dotted(v.func) or (v.func.attr if isinstance(v.func, ast.Attribute) else "")
            base = d.split(".")[-1]
            if base in ("list", "dict", "set", "copy", "deepcopy", "defaultdict", "Counter", "deque", "array", "zeros", "ones", "full", "empty", "mutate", "sorted", "open",
                        "Exception", "DictReader", "reader", "writer", "DictWriter", "Reporter", "asdict", "_asdict", "safe_load", "load", "loads", "fromkeys") or base.endswith("Error") or base[:1].isupper():
                continue
            return False
        return False
    return True


def _param_always_fresh(repo, fn, pname: str) -> bool:
    """Every call of module-level function `fn` in the package passes, for parameter `pname`, nothing / None or a name that the calling
    function (or a function enclosing it) binds to a freshly built container -- and there is at least one such call."""
    from ..index import index, in_pkg
    if fn.cls is not None or fn.outer is not None:
        return False
    ps = fn.params
    if pname not in ps:
        return False
    pos = ps.index(pname)
    sites = [s_ for s_ in index(repo).calls(fn.name, refs=False) if in_pkg(s_) and s_.func is not None]
    if not sites:
        return False
    handed = 0
    for s_ in sites:
        c = s_.node
        a = None
        for k in c.keywords:
            if k.arg == pname:
                a = k.value
            elif k.arg is None:
                return False
        if a is None and len(c.args) > pos:
            a = c.args[pos]
        if any(isinstance(x, ast.Starred) for x in c.args):
            return False
        if a is None or (isinstance(a, ast.Constant) and a.value is None):
            continue
        if not isinstance(a, ast.Name):
            return False
        f = s_.func
        ok = False
        while f is not None:
            if a.id in f.params:
                break
            if _fresh_local(f, a.id):
                ok = True
                break
            f = f.outer
        if not ok:
            return False
        handed += 1
    return True


def effects(ctx: Ctx):
    repo = ctx.repo
    types = ctx.types
    n_checked = 0
    for fn in repo.all_funcs():
        if fn.relpath.startswith(OBSERVER_DIRS):
            continue
        if fn.outer is not None:
            continue
        for node in ast.walk(fn.node):
            owner = enclosing_func(node) or fn
            # ---- attribute stores
            if isinstance(node, ast.Attribute) and isinstance(node.ctx, (ast.Store, ast.Del)):
                n_checked += 1
                recv = node.value
                if isinstance(recv, ast.Name) and recv.id in ("self", "cls") and owner.name in ("__init__", "__new__", "__post_init__"):
                    continue
                if node.attr == "__cause__":
                    continue  # chaining a freshly created exception
                if isinstance(recv, ast.Name) and _fresh_local(owner, recv.id):
                    continue
                ctx.violation("D2", "IM.effect", f"{owner.qualname}: `{flow.dump(node)[:50]} = ...`", owner, node,
                              why="attribute assignment on a value that is not a freshly built local: an object shared with an earlier state is changed in place", construct=f"{owner.qualname}:attr-store:{node.attr}")
            # ---- item stores / deletes
            elif isinstance(node, ast.Subscript) and isinstance(node.ctx, (ast.Store, ast.Del)):
                n_checked += 1
                recv = node.value
                t = types.type_of(owner.relpath, recv) or ""
                root = recv
                while isinstance(root, ast.Subscript):
                    root = root.value
                if isinstance(root, ast.Name) and _fresh_local(owner, root.id):
                    continue
                if isinstance(root, ast.Call) and _inner_of_fresh(owner, root):
                    continue
                if IMMUTABLE_T.search(t):
                    continue  # would raise at run time; not an in-place change
                if isinstance(root, ast.Name) and root.id in owner.params and _param_always_fresh(repo, owner, root.id):
                    continue  # a scratch container: every caller hands in one it has just built (or nothing)
                ctx.violation("D2", "IM.effect", f"{owner.qualname}: `{flow.dump(node)[:50]}` item assignment", owner, node,
                              why=f"item assignment on `{flow.dump(recv)[:40]}` (static type {t[:50] or 'unknown'}), which is not a freshly built local", construct=f"{owner.qualname}:item-store:{flow.dump(recv)[:30]}")
            # ---- augmented assignment on containers
            elif isinstance(node, ast.AugAssign):
                tgt = node.target
                t = types.type_of(owner.relpath, tgt) or ""
                if isinstance(tgt, ast.Name):
                    if MUTABLE_T.search(t) and not _fresh_local(owner, tgt.id):
                        n_checked += 1
                        ctx.violation("D2", "IM.effect", f"{owner.qualname}: `{flow.dump(node)[:60]}`", owner, node,
                                      why=f"in-place operator on `{tgt.id}` of mutable static type {t[:40]} that is not a freshly built local", construct=f"{owner.qualname}:augassign:{tgt.id}")
            # ---- mutating method calls
            elif isinstance(node, ast.Call) and isinstance(node.func, ast.Attribute):
                m = node.func.attr
                recv = node.func.value
                if m in MUTATING_METHODS:
                    t = types.type_of(owner.relpath, recv) or ""
                    if IMMUTABLE_T.search(t) or t.startswith(("nrel.hive", "returns.")) or "Map" in t.split("[")[0]:
                        continue  # pure functional update of an immutable value / repo method of that name
                    if not MUTABLE_T.search(t) and t not in ("", "Any"):
                        continue
                    n_checked += 1
                    if isinstance(recv, ast.Name) and _fresh_local(owner, recv.id):
                        continue
                    if isinstance(recv, ast.Call):
                        continue  # method on a temporary
                    if t in ("", "Any") and not isinstance(recv, ast.Name):
                        # untyped attribute chain: only flag the classic container mutators
                        if m not in ("append", "extend", "insert", "clear", "sort", "reverse", "popitem", "setdefault"):
                            continue
                    ctx.violation("D2", "IM.effect", f"{owner.qualname}: `{flow.dump(node)[:60]}`", owner, node,
                                  why=f"`.{m}()` mutates `{flow.dump(recv)[:40]}` (static type {t[:50] or 'unknown'}) in place and the receiver is not a freshly built local",
                                  construct=f"{owner.qualname}:mutating-call:{m}:{flow.dump(recv)[:30]}")
                d = dotted(node.func) or ""
                if d in ("object.__setattr__",) or m == "__setattr__":
                    ctx.violation("D3", "IM.effect", f"{owner.qualname}: {d or m}", owner, node, why="bypasses frozen / NamedTuple immutability", construct=f"{owner.qualname}:setattr")
                if m == "mutate":
                    # MapMutation must be finished in the same function
                    finished = any(isinstance(c, ast.Call) and isinstance(c.func, ast.Attribute) and c.func.attr == "finish" for c in ast.walk(owner.node))
                    ctx.check(finished, "D2", "IM.effect", f"{owner.qualname}: MapMutation is finished before it can escape", owner, node,
                              why_bad="a MapMutation is created and never finished in this function: a mutable view of a state map escapes", construct=f"{owner.qualname}:mutation-escapes")
            elif isinstance(node, ast.Call) and isinstance(node.func, ast.Name) and node.func.id in ("setattr", "delattr"):
                ctx.violation("D3", "IM.effect", f"{owner.qualname}: {node.func.id}(...)", owner, node, why="dynamic attribute write", construct=f"{owner.qualname}:setattr")
            elif isinstance(node, (ast.Global, ast.Nonlocal)):
                ctx.violation("D5", "IM.effect", f"{owner.qualname}: {type(node).__name__.lower()}", owner, node, why="hidden state outside the arguments", construct=f"{owner.qualname}:global")
            elif isinstance(node, ast.Attribute) and node.attr == "__dict__":
                ctx.violation("D3", "IM.effect", f"{owner.qualname}: __dict__ access", owner, node, why="bypasses immutability", construct=f"{owner.qualname}:__dict__")
    ctx.extra["effect_sites_examined"] = n_checked
    ctx.ok("D2", "IM.effect", f"{n_checked} store / mutation sites examined in the step-path modules", file="nrel/hive", line=0, function="<package>")
    # dataclasses in the package: frozen
    for m in repo.pkg_modules():
        if m.relpath.startswith(PKG + "/resources"):
            continue
        for c in m.classes.values():
            decs = c.decorator_names()
            if any(d.startswith("dataclass") for d in decs) and not any("frozen=True" in d for d in decs):
                if c.relpath.startswith(OBSERVER_DIRS):
                    continue
                ctx.violation("D3", "IM.closure", f"{c.name}: dataclass without frozen=True", file=c.relpath, line=c.node.lineno, function=c.name,
                              why="instances can be assigned to in place", construct=f"{c.name}:not-frozen")


def index_values(ctx: Ctx):
    """Values stored in the location / search indexes are frozensets by static type (a plain set there could be
    updated in place through `|=` and would be shared by every earlier state)."""
    repo = ctx.repo
    types = ctx.types
    n = 0
    for qn in ("DictOps.add_to_collection_dict", "DictOps.remove_from_collection_dict"):
        fn = repo.func(DO, qn)
        for node in ast.walk(fn.node):
            if isinstance(node, ast.Call) and isinstance(node.func, ast.Attribute) and node.func.attr == "set" and len(node.args) == 2:
                n += 1
                t = types.type_of(fn.relpath, node.args[1]) or ""
                ok = t.startswith(("frozenset[", "builtins.frozenset[", "typing.FrozenSet[", "FrozenSet["))
                ctx.check(ok, "D2", "IM.index-values", f"{qn}: the cell value stored is a frozenset (static type {t[:40]})", fn, node,
                          why_bad=f"stores a value of static type {t[:50]} into an index cell: a plain set is shared by every state holding the cell and `|=` / .add() on it changes them all",
                          construct=f"{qn}:cell-value-type")
        for node in ast.walk(fn.node):
            if isinstance(node, ast.AugAssign) and isinstance(node.op, (ast.BitOr, ast.BitAnd, ast.Sub, ast.BitXor)):
                ctx.violation("D2", "IM.index-values", f"{qn}: `{flow.dump(node)[:50]}`", fn, node,
                              why="in-place set operator on a cell value read from the index: if the cell ever holds a plain set it is changed inside every earlier state", construct=f"{qn}:inplace-set-op")
    if n < 2:
        ctx.soft_fail("index-values rule: xs.set(cell, value) sites not found")


def lazy_iterators(ctx: Ctx):
    """No lazy one-shot iterator is stored in a field of a state / controller object."""
    repo = ctx.repo
    LAZY = {"iter", "map", "filter", "zip", "reversed", "enumerate", "it.chain", "itertools.chain"}
    n = 0
    for fn in repo.all_funcs():
        if fn.relpath.startswith((PKG + "/resources", PKG + "/reporting/", PKG + "/app/")):
            continue
        for node in ast.walk(fn.node):
            if not isinstance(node, ast.Call):
                continue
            d = dotted(node.func) or (node.func.attr if isinstance(node.func, ast.Attribute) else "")
            base = d.split(".")[-1]
            is_ctor = base in repo.class_index or base in ("replace", "_replace")
            if not is_ctor:
                continue
            if base in repo.class_index and all(c.relpath.startswith(OBSERVER_DIRS) for c in repo.class_index[base]):
                continue
            for a in list(node.args) + [k.value for k in node.keywords]:
                n += 1
                vals = [a]
                if isinstance(a, ast.Name):  # a local: every value it is bound to in this function
                    vals = [x.value for x in ast.walk(fn.node) if isinstance(x, (ast.Assign, ast.AnnAssign, ast.NamedExpr)) and getattr(x, "value", None) is not None
                            and any(isinstance(t, ast.Name) and t.id == a.id for t in (x.targets if isinstance(x, ast.Assign) else [x.target]))]
                vals = [v.body if isinstance(v, ast.IfExp) else v for v in vals] + [v.orelse for v in vals if isinstance(v, ast.IfExp)]
                lazy = any(isinstance(v, ast.GeneratorExp) or (isinstance(v, ast.Call) and (dotted(v.func) or "") in LAZY) for v in vals)
                if lazy:
                    ctx.violation("D5", "IM.lazy-iterator", f"{fn.qualname}: {base}(... {flow.dump(a)[:50]} ...)", fn, a,
                                  why="a one-shot iterator is stored in an immutable-looking object: the first use consumes it, so using the same saved object twice gives different results",
                                  construct=f"{fn.qualname}:lazy-iterator-stored")
    ctx.ok("D5", "IM.lazy-iterator", f"{n} constructor / replace arguments examined", file="nrel/hive", line=0, function="<package>")


def observers(ctx: Ctx):
    repo = ctx.repo
    # Reporter.reports is read only inside reporter.py (the step path never reads observer state)
    n = 0
    for m in repo.pkg_modules():
        if m.relpath.startswith(PKG + "/resources") or m.relpath.endswith("reporting/reporter.py"):
            continue
        for node in ast.walk(m.tree):
            if isinstance(node, ast.Attribute) and node.attr == "reports" and isinstance(node.value, ast.Attribute) and node.value.attr == "reporter":
                f = enclosing_func(node)
                n += 1
                ctx.violation("D4", "IM.observer", f"{f.qualname if f else m.relpath}: reads reporter.reports", f, node, why="simulation code reads the observer's mutable buffer", construct="reporter.reports-read") if f else None
    ctx.ok("D4", "IM.observer", "Reporter.reports is not read outside reporter.py", file="nrel/hive/reporting/reporter.py", line=0, function="Reporter")
    # module-level mutable containers that are written by functions
    for m in repo.pkg_modules():
        if m.relpath.startswith(OBSERVER_DIRS):
            continue
        mutable_globals = set()
        for s in m.tree.body:
            if isinstance(s, (ast.Assign, ast.AnnAssign)):
                v = s.value
                tg = s.targets[0] if isinstance(s, ast.Assign) else s.target
                if isinstance(tg, ast.Name) and isinstance(v, (ast.List, ast.Dict, ast.Set, ast.ListComp, ast.DictComp)):
                    mutable_globals.add(tg.id)
        for g in mutable_globals:
            for fn in m.funcs.values():
                for node in ast.walk(fn.node):
                    if isinstance(node, ast.Call) and isinstance(node.func, ast.Attribute) and isinstance(node.func.value, ast.Name) and node.func.value.id == g and node.func.attr in MUTATING_METHODS:
                        ctx.violation("D5", "IM.observer", f"{fn.qualname}: mutates module-level `{g}`", fn, node, why="module-level mutable state written during stepping", construct=f"{fn.qualname}:module-global:{g}")
                    if isinstance(node, ast.Subscript) and isinstance(node.ctx, ast.Store) and isinstance(node.value, ast.Name) and node.value.id == g:
                        ctx.violation("D5", "IM.observer", f"{fn.qualname}: writes module-level `{g}`", fn, node, why="module-level mutable state written during stepping", construct=f"{fn.qualname}:module-global:{g}")


def selftest():
    from ..selftest import V
    VEH = "nrel/hive/model/vehicle/vehicle.py"
    STEP = "nrel/hive/state/simulation_state/update/step_simulation.py"
    return [
        V("frozen-removed", VEH, "@dataclass(frozen=True)\nclass Vehicle(Entity):", "@dataclass\nclass Vehicle(Entity):", rule="IM.closure"),
        V("list-field", "nrel/hive/model/request/request.py", "    passengers: Tuple[Passenger, ...]", "    passengers: List[Passenger]", rule="IM.closure"),
        V("setattr-bypass", VEH, "        return replace(self, balance=self.balance - amount)", "        object.__setattr__(self, \"balance\", self.balance - amount)\n        return self", rule="IM.effect"),
        V("dict-write-through", "nrel/hive/state/simulation_state/update/step_simulation_ops.py", "    i_dict = asdict(i)\n", "    i_dict = asdict(i)\n    i.__dict__.update(i_dict)\n", rule="IM.effect"),
        V("plain-set-in-index", DO, "        updated_ids = ids_at_loc.difference([obj_id])", "        updated_ids = {i for i in ids_at_loc if i != obj_id}", rule="IM.index-values"),
        V("inplace-or-on-cell", DO, "        updated_ids = ids_at_location.union([obj_id])\n        return xs.set(collection_id, updated_ids)", "        ids_at_location |= {obj_id}\n        return xs.set(collection_id, ids_at_location)", rule="IM.index-values"),
        V("generator-in-controller", STEP, "            instruction_generator_order=tuple(i_gen.name for i_gen in updated_i_gens),", "            instruction_generator_order=(i_gen.name for i_gen in updated_i_gens),", rule="IM.lazy-iterator"),
        V("mutation-escapes", DO, "            tmp = mutable.finish()\n        return tmp", "            tmp = mutable\n        return tmp", rule="IM.effect"),
        V("module-counter", "nrel/hive/state/simulation_state/simulation_state_ops.py", "def tick(sim: SimulationState) -> SimulationState:", "_TICKS = []\n\n\ndef tick(sim: SimulationState) -> SimulationState:\n    _TICKS.append(1)", rule="IM"),
        V("random-tiebreak-in-step", "nrel/hive/state/simulation_state/update/step_simulation_ops.py", "        sorted_other_vehicles = tuple(sorted(other_vehicles, key=lambda v: v.id))", "        import random\n        sorted_other_vehicles = tuple(sorted(other_vehicles, key=lambda v: (v.id, random.random())))", rule="IM.hidden-input"),
        V("aliased-numpy-draw-in-step", "nrel/hive/state/simulation_state/simulation_state_ops.py", "def tick(sim: SimulationState) -> SimulationState:", "def tick(sim: SimulationState) -> SimulationState:\n    from numpy.random import uniform as _u\n    _jitter = _u()", rule="IM.hidden-input"),
        V("wall-clock-in-step", "nrel/hive/state/simulation_state/simulation_state_ops.py", "def tick(sim: SimulationState) -> SimulationState:", "def tick(sim: SimulationState) -> SimulationState:\n    import time as _t\n    _now = _t.time()", rule="IM.hidden-input"),
        V("twin-local-list", "nrel/hive/state/simulation_state/update/step_simulation_ops.py", "        results.append((instruction, instruction_result))", "        results.extend([(instruction, instruction_result)])", kind="twin"),
    ]
