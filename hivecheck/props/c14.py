"""C14 — routes on a street network are fastest paths (A* admissibility: BD bound direction + CR + wiring)."""
from __future__ import annotations

import ast

from .. import AnalysisError, flow
from ..report import Ctx

OSM = "nrel/hive/model/roadnetwork/osm/osm_roadnetwork.py"

EXPLANATION = (
    "A* returns a minimum-weight path when the heuristic never over-estimates (textbook; networkx.astar_path is "
    "trusted). Static obligations on the code: (D1) every route that is assembled takes its inner node path from "
    "nx.astar_path(self.graph, origin end node, destination start node, heuristic=..., weight=<the travel-time "
    "attribute>) — no shortcut path bypasses the search — and that attribute is the one __init__ fills from "
    "length / speed; (D2) bound direction: the heuristic is great-circle distance / S x 3600 where S is an UPPER "
    "bound of the link speeds — a max over the speeds of the finished link table (which includes defaulted "
    "speeds), so the estimate is a lower bound of the remaining time; (D3) coordinate roles: node cells used by the "
    "heuristic are computed from (lat, lon) in that order, y~lat and x~lon, agreeing with "
    "safe_get_node_coordinates. Not decided: that great-circle distance between cell-rounded junctions never "
    "exceeds road length (geometric)."
)


def run(ctx: Ctx):
    # what route() reads (graph, node cells, link table) is what the constructor built: no method of the network changes it afterwards
    def _frozen_network(ctx_):
        from . import c16 as _c16
        osm_mod = ctx_.repo.module("nrel/hive/model/roadnetwork/osm/osm_roadnetwork.py")
        c_ = osm_mod.classes.get("OSMRoadNetwork")
        ctx_.require(c_ is not None, "OSMRoadNetwork not found")
        _c16._init_only_assignment(ctx_, c_)
        ctx_.ok("D1", "IM.closure", "OSMRoadNetwork: no method other than __init__ changes the graph / tables route() reads", file=c_.relpath, line=c_.node.lineno, function=c_.name)
    ctx.attempt(_frozen_network, ctx)
    ctx.attempt(search_call, ctx)
    ctx.attempt(heuristic, ctx)
    ctx.attempt(speed_bound, ctx)
    ctx.attempt(node_cells, ctx)
    ctx.attempt(weights, ctx)
    ctx.attempt(units_and_distance, ctx)
    ctx.attempt(link_speed_agrees, ctx)
    ctx.floor("BD", 2)
    ctx.not_decided += ["that great-circle distance between (cell-rounded) junctions never exceeds road length (geometric)"]
    ctx.assumptions += ["networkx.astar_path returns a minimum-weight path for an admissible heuristic"]


def _heuristic(ctx: Ctx):
    """(expression handed to A* as `heuristic=`, the function it names): a nested function of route(), a method of the
    network (`self.<name>`) or a module-level function."""
    fn = ctx.repo.func(OSM, "OSMRoadNetwork.route")
    for c in ast.walk(fn.node):
        if isinstance(c, ast.Call) and flow.dump(c.func).endswith("astar_path"):
            for k in c.keywords:
                if k.arg == "heuristic":
                    h = k.value
                    if isinstance(h, ast.Name):
                        f = ctx.repo.func_opt(OSM, f"OSMRoadNetwork.route.{h.id}") or ctx.repo.func_opt(OSM, h.id)
                    elif isinstance(h, ast.Attribute) and flow.dump(h.value) == "self":
                        f = ctx.repo.func_opt(OSM, f"OSMRoadNetwork.{h.attr}")
                    else:
                        f = None
                    if f is None:
                        from .. import rules as _rules
                        f = _rules.resolve_callable(ctx.repo, fn, h)  # a lambda, a partial, an imported function
                    if f is None:
                        raise AnalysisError(f"A* heuristic `{flow.dump(h)[:60]}` cannot be resolved to a function")
                    return flow.dump(h), f
    raise AnalysisError("OSMRoadNetwork.route: no astar_path call with a heuristic")


def search_call(ctx: Ctx):
    fn = ctx.repo.func(OSM, "OSMRoadNetwork.route")
    o, d = fn.params[1:3]
    on = f"extract_node_ids_int({o}.link_id)[1][1]"
    dn = f"extract_node_ids_int({d}.link_id)[1][0]"
    hexpr, _ = _heuristic(ctx)
    want = f"nx.astar_path(self.graph, {on}, {dn}, heuristic={hexpr}, weight=TIME_WEIGHT)"
    n = 0
    all_paths = flow.paths(fn.node)

    def from_search(v: ast.AST) -> bool:
        inner_src = [c for c in flow.calls_in(v, "route_from_nx_path")]
        ok = bool(inner_src) and all(c.args and flow.dump(c.args[0]) == want for c in inner_src) and len(flow.calls_in(v, "resolve_route_src_dst_positions")) == 1
        # nothing else than the links of that node path sits between the origin and destination links
        res = flow.calls_in(v, "resolve_route_src_dst_positions")
        if ok and res:
            ok = flow.dump(res[0].args[0]) == f"route_from_nx_path({want}, self.link_helper.links)[1]"
        return ok

    def memo_of_search(v: ast.AST) -> bool:
        """v reads a table of this object (`self.T.get(K)` / `self.T[K]`) that is filled only in route(), only with routes that
        come from the search, under the very key it is read with, and that key names both link ids (which determine the
        inner path on a static graph)."""
        if isinstance(v, ast.Call) and isinstance(v.func, ast.Attribute) and v.func.attr == "get" and len(v.args) == 1:
            tab, key = v.func.value, v.args[0]
        elif isinstance(v, ast.Subscript):
            tab, key = v.value, v.slice
        else:
            return False
        if not (isinstance(tab, ast.Attribute) and flow.dump(tab.value) == "self"):
            return False
        kd = flow.dump(key)
        if f"{o}.link_id" not in kd or f"{d}.link_id" not in kd:
            return False
        cls = fn.cls
        writes = []
        for f in ctx.repo.all_funcs():
            if f.cls is not cls and (f.cls is None or f.cls.name != cls.name or f.relpath != fn.relpath):
                continue
            for node in ast.walk(f.node):
                if isinstance(node, ast.Subscript) and isinstance(node.ctx, (ast.Store, ast.Del)) and flow.dump(node.value) == flow.dump(tab):
                    writes.append((f, node))
                if isinstance(node, ast.Call) and isinstance(node.func, ast.Attribute) and flow.dump(node.func.value) == flow.dump(tab) \
                        and node.func.attr in ("update", "setdefault", "pop", "popitem", "clear", "__setitem__"):
                    writes.append((f, node))
        if not writes or any(f.qualname != fn.qualname for f, _ in writes):
            return False
        seen_store = False
        for p2 in all_paths:
            for st in p2.stores:
                if isinstance(st.raw, ast.Subscript) and flow.dump(st.raw.value) == flow.dump(tab):
                    seen_store = True
                    if flow.dump(st.target.slice if isinstance(st.target, ast.Subscript) else st.raw.slice) != kd or st.value is None or not from_search(st.value):
                        return False
        return seen_store

    for p in all_paths:
        if p.kind != "return" or flow.dump(p.value) == "empty_route()":
            continue
        n += 1
        v = p.value
        ok = from_search(v) or memo_of_search(v)
        ctx.check(ok, "D1", "DU.search", "every assembled route takes its inner path from A* over the travel-time weight, between the origin link's end node and the destination link's start node", fn, p.end,
                  why_bad=f"path [{p.cond_text()[:160]}] returns {flow.dump(v)[:260]}: the inner part does not come from the fastest-path search", construct="OSMRoadNetwork.route:bypasses-search")
    if n < 1:
        ctx.soft_fail("OSMRoadNetwork.route: no assembling path")


def link_speed_agrees(ctx: Ctx):
    """The speed bound of the heuristic is the maximum over the LINK TABLE, the travel-time weights are computed from the
    EDGE data: the bound is an upper bound of the weights' speeds only if a link stores its edge's posted speed whenever one
    is posted (and the default only when none is). Any other condition on the posted value (a plausibility window, a cap)
    makes the table's maximum smaller than a speed the weights use."""
    LH = "nrel/hive/model/roadnetwork/osm/osm_road_network_link_helper.py"
    ce = ctx.repo.func(LH, "OSMRoadNetworkLinkHelper.build.create_link_entry")
    n = 0
    for p in flow.paths(ce.node):
        if p.kind != "return" or p.has_marker("except") or flow.classify_result(p.value) != "ok":
            continue
        for e in p.events:
            if e.name == "build" and not e.deferred and flow.dump(e.call.func) == "Link.build" and len(e.call.args) >= 4:
                n += 1
                facts = p.facts()
                sp = flow.specialise(e.call.args[3], facts)
                d = flow.dump(sp)
                data = None
                for c in ast.walk(e.call.args[3]):
                    if isinstance(c, ast.Call) and flow.dump(c.func).endswith("get_edge_data"):
                        data = flow.dump(c)
                posted = f"{data}.get('speed_kmph')" if data else None
                ok = False
                why = d[:160]
                if data and d in (f"{data}.get('speed_kmph', default_speed_kmph)", f"{data}.get('speed_kmph', default_speed_kmph) if {data} else default_speed_kmph"):
                    ok = True
                elif data and d == posted:
                    ok = any((flow.is_syn(a, "$isnone") and pol is False and flow.dump(a.args[0]) == posted) for a, pol in facts)
                elif d == "default_speed_kmph":
                    # allowed only when nothing is posted: data falsy, or the posted value is None
                    none_posted = any((flow.is_syn(a, "$isnone") and pol is True and flow.dump(a.args[0]) in (posted, data)) or (flow.dump(a) == data and pol is False) for a, pol in facts)
                    value_tested = any(isinstance(a, ast.Compare) and posted and posted in flow.dump(a) and not flow.dump(a).endswith("is None") and not flow.dump(a).endswith("is not None") for a, _ in facts)
                    ok = none_posted and not value_tested or (data is None)
                    if value_tested:
                        why = "the default replaces a posted speed depending on its VALUE"
                ctx.check(ok, "D2", "BD.speed-bound", "a link stores its edge's posted speed whenever one is posted (the default only when none is)", ce, e.raw,
                          why_bad=f"on path [{p.cond_text()[-200:]}] the link's speed is {why}: the edge's travel-time weight still uses the posted speed, so the table's maximum speed is no "
                                  f"longer an upper bound and the A* estimate can exceed the true remaining time",
                          construct="create_link_entry:link-speed")
    if n < 1:
        ctx.soft_fail("create_link_entry: Link.build with a speed not found")


def heuristic(ctx: Ctx):
    _, fn = _heuristic(ctx)
    ps_ = [x for x in fn.params if x not in ("self", "cls")]
    if len(ps_) < 2:
        raise AnalysisError("A* heuristic: expected (source, dest) parameters")
    s, t = ps_[:2]
    ps = [p for p in flow.paths(fn.node) if p.kind == "return"]
    if len(ps) != 1:
        raise AnalysisError("_astar_cost_heuristic: expected one return")
    v = ps[0].value
    dist = f"H3Ops.great_circle_distance(self.graph.nodes[{s}]['geoid'], self.graph.nodes[{t}]['geoid'])"
    d = flow.dump(v)
    # time = dist / SPEED * SECONDS_IN_HOUR
    m = flow.match("M_d / M_s * SECONDS_IN_HOUR", v) or flow.match("SECONDS_IN_HOUR * (M_d / M_s)", v) or flow.match("M_d * SECONDS_IN_HOUR / M_s", v)
    if m is None or flow.dump(m["M_d"]) != dist:
        raise AnalysisError(f"_astar_cost_heuristic: unrecognised estimate {d[:160]}")
    speed = flow.dump(m["M_s"])
    ctx.check(speed == "self.max_speed_kmph", "D2", "BD.heuristic", "the travel-time estimate divides the great-circle distance by an UPPER bound of the link speeds", fn, ps[0].end,
              why_ok="estimate = distance / max speed x 3600: a lower bound of the remaining time",
              why_bad=f"estimate divides by {speed}: dividing by anything below the fastest link speed over-estimates the remaining time, so A* may return a slower route",
              construct=f"_astar_cost_heuristic:divisor:{speed}")


def speed_bound(ctx: Ctx):
    fn = ctx.repo.func(OSM, "OSMRoadNetwork.__init__")
    found = False
    for p in flow.paths(fn.node):
        for s in p.stores:
            if flow.dump(s.raw) == "self.max_speed_kmph":
                found = True
                d = flow.dump(s.value)
                helper = "OSMRoadNetworkLinkHelper.build(graph, sim_h3_resolution, default_speed_kmph)[1]"
                ok = d in (f"max((link.speed_kmph for link in {helper}.links.values()))", f"max([link.speed_kmph for link in {helper}.links.values()])")
                ctx.check(ok, "D2", "BD.speed-bound", "max_speed_kmph = max over the speeds of the finished link table (defaults included)", fn, s.stmt,
                          why_bad=f"max_speed_kmph = {d[:200]}: not an upper bound of every link's effective speed (links whose speed is filled in later, or other aggregates, are missed)",
                          construct="OSMRoadNetwork.__init__:max-speed")
    if not found:
        raise AnalysisError("OSMRoadNetwork.__init__: max_speed_kmph is not assigned")


def node_cells(ctx: Ctx):
    fn = ctx.repo.func(OSM, "OSMRoadNetwork.__init__")
    calls = [c for c in ast.walk(fn.node) if isinstance(c, ast.Call) and flow.dump(c.func) == "h3.geo_to_h3"]
    if len(calls) != 1:
        raise AnalysisError("OSMRoadNetwork.__init__: expected one geo_to_h3 call for the node cells")
    c = calls[0]
    a0, a1 = flow.dump(c.args[0]), flow.dump(c.args[1])
    def role(d):
        keys = [k for k in ("'y'", "'lat'", "'x'", "'lon'", "'lng'") if k in d]
        lat = any(k in ("'y'", "'lat'") for k in keys)
        lon = any(k in ("'x'", "'lon'", "'lng'") for k in keys)
        return "LAT" if lat and not lon else "LON" if lon and not lat else "?"
    ok = role(a0) == "LAT" and role(a1) == "LON"
    ctx.check(ok, "D3", "CR.node-cells", "node cells: geo_to_h3(latitude (y|lat), longitude (x|lon), resolution)", fn, c,
              why_bad=f"geo_to_h3({a0}, {a1}, ...): roles {role(a0)}, {role(a1)} — the heuristic would measure distances between wrong places", construct="OSMRoadNetwork.__init__:geo_to_h3-order")
    ok = len(c.args) == 3 and flow.dump(c.args[2]) == "sim_h3_resolution"
    ctx.check(ok, "D3", "CR.node-cells", "node cells use the simulation resolution", fn, c, why_bad="other resolution", construct="OSMRoadNetwork.__init__:geo_to_h3-res")
    # every node gets its cell from its own coordinates at this resolution, unconditionally (a cell left over from an
    # earlier construction at another resolution would put the heuristic's distances off)
    from ..loader import parent
    loop = c
    conds = []
    while loop is not None and not isinstance(loop, ast.For):
        if isinstance(loop, ast.If):
            conds.append(loop)
        loop = parent(loop)
    ok = loop is not None and flow.dump(loop.iter) == "graph.nodes(data=True)" and not conds
    ctx.check(ok, "D3", "CR.node-cells", "the node cell is (re)computed for every node of the graph, unconditionally", fn, c,
              why_bad=f"the cell is computed only under `{flow.dump(conds[0].test)[:60]}`" if conds else "not in the loop over graph.nodes(data=True)", construct="OSMRoadNetwork.__init__:node-cell-conditional")


def weights(ctx: Ctx):
    fn = ctx.repo.func(OSM, "OSMRoadNetwork.__init__")
    src = ctx.repo.module(OSM).segment(fn.node)
    ok = "d[TIME_WEIGHT] = time_seconds" in src and "time_hours = distance_km / speed_kmph" in src and "time_seconds = time_hours * 3600" in src and 'distance_km = d["length"] / 1000' in src
    # structural version
    stores = {}
    for p in flow.paths(fn.node):
        for s in p.stores:
            stores.setdefault(flow.dump(s.target), set()).add(flow.dump(s.value) if s.value is not None else "")
    tw = stores.get("$elem(graph.edges(data=True))[2][TIME_WEIGHT]", set()) | stores.get("$elem(graph.edges(data=True))[2]['travel_time']", set())
    tw = {t.replace("SECONDS_IN_HOUR", "3600") for t in tw}  # the package's own name for the literal
    want = "$elem(graph.edges(data=True))[2]['length'] / 1000 / $elem(graph.edges(data=True))[2]['speed_kmph'] * 3600"
    ctx.check(want in tw, "D1", "DU.weight", "the travel-time weight is length[km] / speed[km/h] x 3600 of the edge itself", fn,
              why_bad=f"TIME_WEIGHT = {sorted(tw)[:2]}", construct="OSMRoadNetwork.__init__:time-weight")


def units_and_distance(ctx: Ctx):
    """The heuristic's units agree with the weight's (seconds): SECONDS_IN_HOUR is 3600; the distance function is the
    haversine formula on (lat, lon) pairs unpacked in h3_to_geo's order, in kilometres."""
    repo = ctx.repo
    U = "nrel/hive/util/units.py"
    val = None
    for st in repo.module(U).tree.body:
        if isinstance(st, ast.Assign) and flow.dump(st.targets[0]) == "SECONDS_IN_HOUR":
            val = flow.dump(st.value)
    ctx.check(val == "3600", "D2", "BD.units", "SECONDS_IN_HOUR = 3600 (the estimate and the travel-time weight are both in seconds)", file=U, line=0, function="<module>",
              why_bad=f"SECONDS_IN_HOUR = {val}", construct="units:SECONDS_IN_HOUR") if False else _units(ctx, U, val)
    H3 = "nrel/hive/util/h3_ops.py"
    fn = repo.func(H3, "H3Ops.great_circle_distance")
    a, b = fn.params[1:3]
    ps = [p for p in flow.paths(fn.node) if p.kind == "return"]
    if len(ps) != 1:
        raise AnalysisError("great_circle_distance: expected one return")
    d = flow.dump(ps[0].value)
    R = "map(radians, (h3.h3_to_geo(%s)[0], h3.h3_to_geo(%s)[1], h3.h3_to_geo(%s)[0], h3.h3_to_geo(%s)[1]))" % (a, a, b, b)
    lat1, lon1, lat2, lon2 = (f"{R}[{i}]" for i in range(4))
    want = f"2 * 6371 * asin(sqrt(sin(({lat2} - {lat1}) * 0.5) ** 2 + cos({lat1}) * cos({lat2}) * sin(({lon2} - {lon1}) * 0.5) ** 2))"
    ctx.check(d == want, "D2", "BD.distance", "great_circle_distance is the haversine formula (km) on (lat, lon) in h3_to_geo's order", fn,
              why_bad=f"returns {d[:260]}", construct="great_circle_distance:formula")


def _units(ctx: Ctx, U: str, val):
    if val == "3600":
        ctx.ok("D2", "BD.units", "SECONDS_IN_HOUR = 3600 (the estimate and the travel-time weight are both in seconds)", file=U, line=0, function="<module>")
    else:
        ctx.violation("D2", "BD.units", "SECONDS_IN_HOUR = 3600", file=U, line=0, function="<module>", why=f"SECONDS_IN_HOUR = {val}: the estimate is no longer in the weight's unit", construct="units:SECONDS_IN_HOUR")


def selftest():
    from ..selftest import V
    def memo(key):
        return V("x", OSM, "        if origin == destination:\n            return empty_route()\n\n        def _astar_cost_heuristic",
                 "        if origin == destination:\n            return empty_route()\n\n        known_route = self._routes.get(%s)\n        if known_route is not None:\n            return known_route\n\n        def _astar_cost_heuristic" % key,
                 more=((OSM, "            self.link_helper = link_helper\n", "            self.link_helper = link_helper\n            self._routes = {}\n"),
                       (OSM, "                else:\n                    return resolved_route", "                else:\n                    self._routes[%s] = resolved_route\n                    return resolved_route" % key)))
    import dataclasses
    memo_both = dataclasses.replace(memo("(origin.link_id, destination.link_id)"), name="twin-memo-keyed-by-both-links", kind="twin")
    memo_one = dataclasses.replace(memo("origin.link_id"), name="memo-keyed-by-origin-only", kind="break", rule="DU.search")
    # (memo_both is no longer a twin: since round 5 any table on the shared network object that route() writes is reported under C13 / C14 / C16
    #  -- `IM.closure`, the road network is frozen after construction; the checker cannot tell a sound memo from a stale one (C14-n). DESIGN 6.5.)
    return [memo_one,
        V("haversine-lon-lat", "nrel/hive/util/h3_ops.py", "        lat1, lon1 = h3.h3_to_geo(a)\n", "        lon1, lat1 = h3.h3_to_geo(a)\n", rule="BD.distance"),
        V("min-speed", OSM, "            time: Hours = dist / self.max_speed_kmph", "            time: Hours = dist / self.min_speed_kmph", rule="BD.heuristic"),
        V("max-of-posted", OSM, "            self.max_speed_kmph: Kmph = max(link.speed_kmph for link in link_helper.links.values())",
          "            self.max_speed_kmph: Kmph = max(d.get(\"speed_kmph\", 0) for _, _, d in graph.edges(data=True))", rule="BD.speed-bound"),
        V("x-y-order", OSM, "                node_data.get(\"y\", node_data.get(\"lat\")),\n                node_data.get(\"x\", node_data.get(\"lon\")),", "                node_data.get(\"x\", node_data.get(\"lat\")),\n                node_data.get(\"y\", node_data.get(\"lon\")),", rule="CR.node-cells"),
        V("other-weight", OSM, "                weight=TIME_WEIGHT,\n            )\n            link_path_error", "                weight=\"length\",\n            )\n            link_path_error", rule="DU.search"),
        V("adjacent-shortcut", OSM, "            nx_path = nx.astar_path(\n                self.graph,\n                origin_node_id,\n                destination_node_id,\n                heuristic=_astar_cost_heuristic,\n                weight=TIME_WEIGHT,\n            )",
          "            nx_path = [origin_node_id, destination_node_id] if self.graph.has_edge(origin_node_id, destination_node_id) else nx.astar_path(\n                self.graph,\n                origin_node_id,\n                destination_node_id,\n                heuristic=_astar_cost_heuristic,\n                weight=TIME_WEIGHT,\n            )", rule="DU.search"),
        V("time-weight-no-3600", OSM, "                time_seconds = time_hours * 3600", "                time_seconds = time_hours * 60", rule="DU.weight"),
        V("twin-max-list", OSM, "            self.max_speed_kmph: Kmph = max(link.speed_kmph for link in link_helper.links.values())", "            self.max_speed_kmph: Kmph = max([link.speed_kmph for link in link_helper.links.values()])", kind="twin"),
    ]
