"""C02 — charger, queue and stall counts match the vehicles using them (TS + CMP + WMC)."""
from __future__ import annotations

import ast

from .. import AnalysisError, flow, states, cmp
from ..index import index, in_pkg
from ..loader import parent
from ..report import Ctx
from .. import rules

KINDS = {"plug", "stall", "queue"}
CS = "nrel/hive/model/station/charger_state.py"
ST = "nrel/hive/model/station/station.py"
SOPS = "nrel/hive/model/station/station_ops.py"
BASE = "nrel/hive/model/base.py"
VS = "nrel/hive/state/vehicle_state/vehicle_state.py"
SSO = "nrel/hive/state/simulation_state/update/step_simulation_ops.py"

EXPLANATION = (
    "Decides the preservation obligations of the count invariant by typestate analysis: for each of the 13 "
    "activity classes the plug/stall/queue resources acquired on every success path of enter() equal those "
    "released on every success path of exit() (same entity, same plug type), the updated entity reaches the "
    "returned state, every enter() call is paired with the previous activity's exit() (or can only be reached "
    "by activities that hold nothing), transition_previous_to_next returns enter(exit(sim)) or no state, its "
    "callers adopt the new state only on success, the six counter methods and three counter fields have closed "
    "caller/writer sets, the bounded counters change by exactly one inside [0,total] (truth tables over all "
    "orderings of count/total), and the helper contracts in station_ops hold. Decides these structural "
    "clauses, not the run-time equality itself; removal of an entity that is being used is outside the "
    "property's quantifier."
)


def run(ctx: Ctx):
    repo = ctx.repo
    scs = states.state_classes(repo)
    # D1 + D2
    rules.rule_pairing(ctx, KINDS, "D1", "D2")
    expected_holders = {"ChargingStation": {"plug"}, "ChargingBase": {"plug", "stall"}, "ReserveBase": {"stall"},
                        "ChargeQueueing": {"queue"}}
    for sc in scs:
        got = rules.released_kinds(sc, KINDS)
        want = expected_holders.get(sc.name, set())
        # an activity that charges / parks / queues must hold the matching resource
        if want - got:
            ctx.violation("D1", "TS.holds", f"{sc.name} holds {sorted(got)}; the activity needs {sorted(want)}", sc.enter,
                          why=f"{sc.name} uses a {sorted(want - got)} without acquiring it", construct=f"{sc.name}:missing-hold:{sorted(want - got)}")
        else:
            ctx.ok("D1", "TS.holds", f"{sc.name} holds {sorted(got) or 'nothing'}", sc.enter)
    # D3 who-may-call / who-may-write
    def allowed_enter_exit(s):
        return "inside enter/exit of an activity class" if rules.is_state_enter_exit(repo, s) else None

    for name, d in (("checkout_stall", "enter"), ("return_stall", "exit"), ("checkout_charger", "enter"),
                    ("return_charger", "exit"), ("enqueue_for_charger", "enter"), ("dequeue_for_charger", "exit")):
        rules.rule_callers(ctx, "D3", name,
                           lambda s, d=d: ("inside %s of an activity class" % d) if rules.is_state_enter_exit(repo, s, (d,)) else None,
                           f"{name} may only be called from an activity's {d}()")

    def cs_writer(s):
        f = s.func
        if f is not None and f.relpath == CS and f.cls is not None and f.cls.name == "ChargerState":
            return "ChargerState method"
        return None

    rules.rule_field_writers(ctx, "D3", "available_chargers", cs_writer, "only ChargerState methods write available_chargers", 3)
    rules.rule_field_writers(ctx, "D3", "enqueued_vehicles", cs_writer, "only ChargerState methods write enqueued_vehicles", 3)
    rules.rule_field_writers(ctx, "D3", "total_chargers", cs_writer, "only ChargerState methods write total_chargers", 2)

    def base_writer(s):
        f = s.func
        if f is not None and f.relpath == BASE and f.cls is not None and f.cls.name == "Base" and f.name in (
                "build", "checkout_stall", "return_stall"):
            return "Base.build / checkout_stall / return_stall"
        return None

    rules.rule_field_writers(ctx, "D3", "available_stalls", base_writer, "only Base.build/checkout_stall/return_stall write available_stalls", 3)
    # callers of the ChargerState counter methods: only the Station wrappers
    for name, wrappers in (("decrement_available_chargers", ("checkout_charger",)), ("increment_available_chargers", ("return_charger",)),
                           ("increment_enqueued_vehicles", ("enqueue_for_charger",)), ("decrement_enqueued_vehicles", ("dequeue_for_charger",))):
        def ok(s, wrappers=wrappers):
            f = s.func
            top = f
            while top is not None and top.outer is not None:
                top = top.outer
            if top is not None and top.relpath == ST and top.cls is not None and top.cls.name == "Station" and top.name in wrappers:
                return f"inside Station.{top.name}"
            return None
        rules.rule_callers(ctx, "D3", name, ok, f"{name} may only be called by Station.{'/'.join(wrappers)}")
    # D4 enter call sites, D5 transition data flow and adoption
    rules.rule_enter_sites(ctx, KINDS, "D4")
    ctx.attempt(rules.rule_activity_writes, ctx, "D4")
    ctx.attempt(rules.rule_acquire_effective, ctx, "D1")
    res_holders = {sc.name for sc in states.state_classes(repo) if rules.released_kinds(sc, KINDS)}
    ctx.attempt(rules.rule_enter_installs, ctx, "D4", "TS.enter-installs", res_holders)
    # a dropped state matters here only if the call that produced it can take or give back a plug, a queue slot or a stall
    ops = {k for k, (kind, _) in states.RES.items() if kind in KINDS} | {"modify_station", "modify_base"}
    ctx.attempt(rules.rule_state_lineage, ctx, "D2", rules.step_path_funcs(repo), "DU.state-lineage", lambda fn, c: rules.may_reach(repo, fn, c, ops), True)
    rules.rule_transition(ctx, "D5")
    du = repo.func(VS, "VehicleStateABC.default_update")
    ai = repo.func(SSO, "apply_instructions")
    n1 = rules.rule_adopt_on_success(ctx, du, "transition_previous_to_next", "D5")
    fam = [ai] + [f for f in repo.module(SSO).funcs.values() if f.qualname.startswith("apply_instructions.")]
    n2 = sum(rules.rule_adopt_on_success(ctx, f, "transition_previous_to_next", "D5") for f in fam)
    ctx.require(n1 >= 1 and n2 >= 1, "default_update / apply_instructions no longer adopt transition_previous_to_next's state")
    # who calls transition_previous_to_next
    rules.rule_callers(ctx, "D5", "transition_previous_to_next",
                       lambda s: "default_update / apply_instructions" if (s.func in (du, ai) or (s.func is not None and s.func.qualname.startswith("apply_instructions."))) else None,
                       "transitions are performed only by default_update and apply_instructions", 2)
    ctx.attempt(rules.rule_once_each, ctx, "D5", fam, {ai.params[2]}, "a transition performed twice returns the old plug twice and takes the new one twice", "DU.once-each", 2)
    step_vehicle_rule(ctx)
    # the vehicle-update phase threads its state: what one vehicle's update produced is what the next vehicle is stepped on, and a failed
    # update keeps what the earlier vehicles of the step did (a reducer that falls back to the phase's initial state undoes them all)
    ctx.attempt(rules.rule_fold_threading, ctx, "D2", ctx.repo.func("nrel/hive/state/simulation_state/update/step_simulation_ops.py", "perform_vehicle_state_updates"), 1)
    bounds(ctx)
    terminal(ctx)
    helpers(ctx)
    constructors(ctx)
    ctx.floor("TS.pairing", 13)
    ctx.floor("DU.must-flow", 10)
    ctx.floor("WMC.callers", 12)
    ctx.floor("CMP", 5)
    ctx.not_decided += ["the numeric equality installed-free = #charging as a run-time fact (implied by the decided preservation clauses + initial state)",
                        "removal of a station/base/vehicle while it is in use (outside the quantifier)"]
    ctx.assumptions += ["initial states are built by Vehicle.from_row (Idle), ChargerState.build (available = total), Base.build (available = total)"]


def step_vehicle_rule(ctx: Ctx):
    """step_vehicle keeps the previous state unless update returned a state without error."""
    fn = ctx.repo.func(SSO, "step_vehicle")
    s0 = fn.params[0]
    for p in flow.paths(fn.node):
        if p.kind != "return":
            continue
        v = p.value
        if isinstance(v, ast.Name) and v.id == s0:
            ctx.ok("D5", "DU.adopt-on-success", "step_vehicle returns the previous state", fn, p.end)
            continue
        # must be update(...)[1] with error falsy and state truthy
        facts = p.facts()
        d_err = None
        if isinstance(v, ast.Subscript) and isinstance(v.value, ast.Call):
            d_err = ast.dump(ast.Subscript(value=v.value, slice=ast.Constant(value=0), ctx=ast.Load()))
        e_ok = any(ast.dump(a) == d_err and pol is False for a, pol in facts)
        s_ok = any((ast.dump(a) == ast.dump(v) and pol is True) for a, pol in facts)
        ctx.check(bool(d_err) and e_ok and s_ok, "D5", "DU.adopt-on-success", "step_vehicle adopts update()'s state only on success", fn, p.end,
                  why_bad=f"returns {flow.dump(v)[:120]} under [{p.cond_text()[:200]}]", construct="step_vehicle:adopt")


def _label_delta(field: str, self_name="self"):
    inc = flow.pat(f"{self_name}._replace({field}={self_name}.{field} + 1)")
    dec = flow.pat(f"{self_name}._replace({field}={self_name}.{field} - 1)")

    def label(p: flow.Path) -> str:
        if p.kind != "return":
            return p.kind
        v = p.value
        k = flow.classify_result(v)
        if k == "error":
            return "error"
        if k == "reject" or k == "none":
            return "none"
        x = v.elts[1] if k == "ok" else v
        if flow.same(x, inc):
            return "+1"
        if flow.same(x, dec):
            return "-1"
        return "other:" + flow.dump(x)[:80]

    return label


def bounds(ctx: Ctx):
    """D6: bounded counters — truth tables over every ordering of (count, total) on a 0..3 grid."""
    repo = ctx.repo
    specs = [
        ("ChargerState.increment_available_chargers", "available_chargers", {"self.available_chargers": "a", "self.total_chargers": "t"},
         lambda g, f: "+1" if g["a"] < g["t"] else "error", "performs +1 iff available < total, else error"),
        ("ChargerState.decrement_available_chargers", "available_chargers", {"self.available_chargers": "a"},
         lambda g, f: "-1" if g["a"] != 0 else "error", "performs -1 iff available != 0, else error"),
        ("ChargerState.decrement_enqueued_vehicles", "enqueued_vehicles", {"self.enqueued_vehicles": "q"},
         lambda g, f: "-1" if g["q"] != 0 else "error", "performs -1 iff enqueued != 0, else error"),
    ]
    for qn, field, terms, spec, text in specs:
        fn = repo.func(CS, qn)
        rows = cmp.path_table(flow.paths(fn.node), terms, _label_delta(field))
        bad = cmp.compare_table(rows, spec)
        ctx.check(not bad, "D6", "CMP.bounded-counter", f"{qn}: {text}", fn,
                  why_ok=f"{len(rows)} assignments agree with the specified table",
                  why_bad=f"{len(bad)} of {len(rows)} assignments differ, e.g. {bad[:2]}", construct=f"{qn}:table",
                  witness={"bad": [str(b) for b in bad[:6]]})
    # increment_enqueued_vehicles: unconditional +1
    fn = repo.func(CS, "ChargerState.increment_enqueued_vehicles")
    ps = [p for p in flow.paths(fn.node)]
    good = len(ps) == 1 and ps[0].kind == "return" and flow.same(ps[0].value, flow.pat("self._replace(enqueued_vehicles=self.enqueued_vehicles + 1)"))
    ctx.check(good, "D6", "CMP.bounded-counter", "increment_enqueued_vehicles: unconditional +1", fn,
              why_bad="not a single unconditional +1", construct="increment_enqueued_vehicles:shape")
    # has_available_charger: true iff available > 0
    fn = repo.func(CS, "ChargerState.has_available_charger")
    rows = cmp.path_table(flow.paths(fn.node), {"self.available_chargers": "a"},
                          lambda p: "ret" if p.kind == "return" else p.kind)
    ps = flow.paths(fn.node)
    if len(ps) == 1 and ps[0].kind == "return":
        rows = cmp.predicate_table(ps[0].value, {"self.available_chargers": "a"}, grid=range(-1, 4))
        bad = cmp.compare_table(rows, lambda g, f: g["a"] > 0)
        ctx.check(not bad, "D6", "CMP.bounded-counter", "ChargerState.has_available_charger: true iff available > 0", fn,
                  why_bad=f"differs on {bad[:3]}", construct="has_available_charger:table")
    else:
        raise AnalysisError("ChargerState.has_available_charger: unrecognised shape")
    # Base.checkout_stall / return_stall
    def lab_stall(p):
        if p.kind != "return":
            return p.kind
        v = p.value
        k = flow.classify_result(v)
        if k in ("none", "reject"):
            return "none"
        if k == "error":
            return "error"
        x = v.elts[1] if k == "ok" else v
        for d, pat in (("-1", "replace(self, available_stalls=self.available_stalls - 1)"), ("+1", "replace(self, available_stalls=self.available_stalls + 1)")):
            if flow.same(x, flow.pat(pat)):
                return d
        return "other:" + flow.dump(x)[:60]

    fn = repo.func(BASE, "Base.checkout_stall")
    rows = cmp.path_table(flow.paths(fn.node), {"self.available_stalls": "s"}, lab_stall, grid=range(-1, 4))
    bad = cmp.compare_table(rows, lambda g, f: "-1" if g["s"] >= 1 else "none")
    ctx.check(not bad, "D6", "CMP.bounded-counter", "Base.checkout_stall: -1 iff stalls >= 1 else None", fn,
              why_bad=f"differs on {bad[:3]}", construct="checkout_stall:table")
    fn = repo.func(BASE, "Base.return_stall")
    rows = cmp.path_table(flow.paths(fn.node), {"self.available_stalls": "s", "self.total_stalls": "t"}, lab_stall)
    bad = cmp.compare_table(rows, lambda g, f: "+1" if g["s"] + 1 <= g["t"] else "error")
    ctx.check(not bad, "D6", "CMP.bounded-counter", "Base.return_stall: +1 iff stalls + 1 <= total else error", fn,
              why_bad=f"differs on {bad[:3]}", construct="return_stall:table")


def terminal(ctx: Ctx):
    """D7: default terminal transitions go through transition_previous_to_next; every activity's update()
    is default_update; full => leave the plug; plug free => leave the queue for the same station/plug."""
    repo = ctx.repo
    rules.rule_default_update(ctx, "D7")
    # charging: full => terminal; target state
    for cname, target, tpat in (("ChargingStation", "Idle", "Idle.build(self.vehicle_id)"),
                                ("ChargingBase", "ReserveBase", "ReserveBase.build(self.vehicle_id, self.base_id)")):
        sc = states.state_class(repo, cname)
        cond_fn = repo.method(sc.cls, "_has_reached_terminal_state_condition")
        rets = [p for p in flow.paths(cond_fn.node) if p.kind == "return"]
        full = [p for p in rets if isinstance(p.value, ast.Call) and getattr(p.value.func, "attr", "") == "is_full"]
        other = [p for p in rets if p not in full]
        good = len(full) >= 1 and all(isinstance(p.value, ast.Constant) and p.value.value is False for p in other) and all(
            states.ndump(p.value.args[0], {"sim": "SIM", "self": "SELF"}) == "SIM.vehicles.get(SELF.vehicle_id)" for p in full)
        ctx.check(good, "D7", "ORD.terminal", f"{cname}: terminal iff the vehicle is full", cond_fn,
                  why_bad="terminal condition is not `is_full(this vehicle)`", construct=f"{cname}:terminal-cond")
        tfn = repo.method(sc.cls, "_default_terminal_state")
        oks = [p for p in flow.paths(tfn.node) if p.kind == "return" and flow.classify_result(p.value) == "ok"]
        good = len(oks) >= 1 and all(flow.same(p.value.elts[1], flow.pat(tpat)) for p in oks)
        ctx.check(good, "D7", "ORD.terminal", f"{cname}: default terminal state is {tpat}", tfn,
                  why_bad=f"got {[flow.dump(p.value)[:80] for p in oks]}", construct=f"{cname}:terminal-state")
    sc = states.state_class(repo, "ChargeQueueing")
    cond_fn = repo.method(sc.cls, "_has_reached_terminal_state_condition")
    good = True
    for p in flow.paths(cond_fn.node):
        if p.kind != "return":
            continue
        if isinstance(p.value, ast.Constant):
            # True only when the station is gone
            if p.value.value is True:
                gone = any(states.ndump(a, {"sim": "SIM", "self": "SELF"}) == "SIM.stations.get(SELF.station_id)" and pol is False for a, pol in p.facts())
                good = good and gone
            continue
        good = good and states.ndump(p.value, {"sim": "SIM", "self": "SELF"}) == "SIM.stations.get(SELF.station_id).has_available_charger(SELF.charger_id)"
    ctx.check(good, "D7", "ORD.terminal", "ChargeQueueing: terminal iff its own station has a free plug of its own type (or the station is gone)",
              cond_fn, why_bad="terminal condition is not has_available_charger(own charger) of the own station", construct="ChargeQueueing:terminal-cond")
    tfn = repo.method(sc.cls, "_default_terminal_state")
    oks = [p for p in flow.paths(tfn.node) if p.kind == "return" and flow.classify_result(p.value) == "ok"]
    good = len(oks) >= 1 and all(flow.same(p.value.elts[1], flow.pat("ChargingStation.build(self.vehicle_id, self.station_id, self.charger_id)")) for p in oks)
    ctx.check(good, "D7", "ORD.terminal", "ChargeQueueing: leaves the queue for ChargingStation at the same station and plug type", tfn,
              why_bad=f"got {[flow.dump(p.value)[:100] for p in oks]}", construct="ChargeQueueing:terminal-state")


def stall_test(ctx: Ctx):
    """Base.has_available_stall(m) — what arrival at a base consults before handing over to ReserveBase — is true exactly when a stall is
    free AND the base grants m access (truth table over the free-stall count and the grant)."""
    fn = ctx.repo.func(BASE, "Base.has_available_stall")
    ps = [p for p in flow.paths(fn.node) if p.kind == "return"]
    ctx.require(len(ps) >= 1, "Base.has_available_stall: no return")
    m = fn.params[1]
    grant = f"self.membership.grant_access_to_membership({m})"
    bad = []
    n = 0
    for a in range(-1, 3):
        for g in (False, True):
            ev = cmp.Evaluator({"self.available_stalls": a}, {grant: g})
            try:
                p = cmp.taken_path(ps, ev)
                got = ev.truth(gd_strip(p.value))
            except cmp.Unknown as u:
                raise AnalysisError(f"Base.has_available_stall consults `{flow.dump(u.node)[:60]}`, outside (free stalls, membership)")
            n += 1
            if got != (a > 0 and g):
                bad.append(({"free stalls": a, "access": g}, got))
    ctx.check(not bad, "D7", "CMP.bounded-counter", "Base.has_available_stall iff a stall is free and the base grants access", fn, why_ok=f"{n} valuations",
              why_bad=f"differs on {bad[:3]}: arrivals are handed to ReserveBase although no stall can be taken (the vehicle never leaves its travelling activity), or turned away from a free one",
              construct="Base.has_available_stall:table")


def gd_strip(e):
    from .. import gd as _gd
    return _gd._strip_bool(e)


def helpers(ctx: Ctx):
    """D8: the acquire/release methods are thin wrappers — the contracts of the helpers they rely on."""
    repo = ctx.repo
    ctx.attempt(stall_test, ctx)
    for qn, none_means in (("station_state_update", "error"), ("station_state_optional_update", "reject")):
        fn = repo.func(SOPS, qn)
        station, cid, op = fn.params[:3]
        cs = f"{station}.state.get({cid})"
        upd = flow.pat(f"replace({station}, state={station}.state.set({cid}, {op}({cs})[1]))")
        seen = set()
        for p in flow.paths(fn.node):
            if p.kind != "return":
                continue
            facts = [(flow.dump(a), pol) for a, pol in p.facts()]
            k = flow.classify_result(p.value)
            absent = (f"$isnone({cs})", True) in facts
            err = (f"$isnone({op}({cs})[0])", False) in facts or (f"{op}({cs})[0]", True) in facts
            none_upd = (f"$isnone({op}({cs})[1])", True) in facts
            if absent:
                good = k == "ok" and flow.dump(p.value.elts[1]) == station
                seen.add("absent")
                ctx.check(good, "D8", "DU.helper-contract", f"{qn}: unknown plug type returns the station unchanged", fn, p.end,
                          why_bad=f"returns {flow.dump(p.value)[:80]}", construct=f"{qn}:absent")
            elif err:
                seen.add("err")
                ctx.check(k == "error", "D8", "DU.helper-contract", f"{qn}: op error returns the error and no station", fn, p.end,
                          why_bad=f"returns {flow.dump(p.value)[:80]}", construct=f"{qn}:op-error")
            elif none_upd:
                seen.add("none")
                ctx.check(k == none_means, "D8", "DU.helper-contract", f"{qn}: op result None returns no station ({none_means})", fn, p.end,
                          why_bad=f"an op that changed nothing is reported as {k}: {flow.dump(p.value)[:80]} — 'no plug free' would look like a checkout",
                          construct=f"{qn}:none-result")
            else:
                seen.add("ok")
                good = k == "ok" and flow.same(p.value.elts[1], upd)
                ctx.check(good, "D8", "DU.helper-contract", f"{qn}: success stores op's own result under the same plug type", fn, p.end,
                          why_bad=f"returns {flow.dump(p.value)[:160]}", construct=f"{qn}:success-shape")
        ctx.require(seen >= {"absent", "err", "none", "ok"}, f"{qn}: unrecognised shape (paths seen: {sorted(seen)})")
    # Station wrappers
    wr = {
        "checkout_charger": ("station_state_optional_update", "_checkout"),
        "return_charger": ("station_state_update", "_return"),
        "enqueue_for_charger": ("station_state_update", "_enqueue"),
        "dequeue_for_charger": ("station_state_update", "_dequeue"),
    }
    inner_spec = {
        "_checkout": None,
        "_return": "M_cs.increment_available_chargers()",
        "_enqueue": "(None, M_cs.increment_enqueued_vehicles())",
        "_dequeue": "M_cs.decrement_enqueued_vehicles()",
    }
    for m, (helper, inner) in wr.items():
        fn = repo.func(ST, f"Station.{m}")
        ps = [p for p in flow.paths(fn.node) if p.kind == "return"]
        ok = len(ps) == 1 and isinstance(ps[0].value, ast.Call) and flow.call_name(ps[0].value) == helper if hasattr(flow, "call_name") else None
        v = ps[0].value if len(ps) == 1 else None
        good = False
        if isinstance(v, ast.Call):
            nm = v.func.attr if isinstance(v.func, ast.Attribute) else getattr(v.func, "id", None)
            args = {**{i: a for i, a in enumerate(v.args)}, **{k.arg: k.value for k in v.keywords}}
            st_a = args.get(0, args.get("station"))
            cid_a = args.get(1, args.get("charger_id"))
            op_a = args.get(2, args.get("op"))
            good = (nm == helper and isinstance(st_a, ast.Name) and st_a.id == "self" and isinstance(cid_a, ast.Name)
                    and cid_a.id == fn.params[1] and isinstance(op_a, ast.Name) and op_a.id == inner)
        ctx.check(good, "D8", "DU.helper-contract", f"Station.{m} = {helper}(self, charger_id, {inner})", fn,
                  why_bad=f"returns {flow.dump(v)[:120] if v is not None else '?'}", construct=f"Station.{m}:wrapper")
        inn = repo.func(ST, f"Station.{m}.{inner}")
        ips = [p for p in flow.paths(inn.node) if p.kind == "return"]
        if inner == "_checkout":
            cs = inn.params[0]
            good = len(ips) == 2
            for p in ips:
                facts = [(flow.dump(a), pol) for a, pol in p.facts()]
                if (f"{cs}.has_available_charger()", False) in facts:
                    good = good and flow.classify_result(p.value) == "reject"
                elif (f"{cs}.has_available_charger()", True) in facts:
                    good = good and flow.same(p.value, flow.pat(f"{cs}.decrement_available_chargers()"))
                else:
                    good = False
            ctx.check(good, "D8", "DU.helper-contract", "Station.checkout_charger._checkout: None iff no plug free, else the decrement", inn,
                      why_bad="shape changed", construct="_checkout:shape")
        else:
            good = len(ips) == 1 and flow.match(inner_spec[inner], ips[0].value) is not None
            ctx.check(good, "D8", "DU.helper-contract", f"Station.{m}.{inner} returns {inner_spec[inner]}", inn,
                      why_bad=f"returns {[flow.dump(p.value)[:80] for p in ips]}", construct=f"{inner}:shape")
    # Station.has_available_charger delegates to the charger state of the same plug type
    fn = repo.func(ST, "Station.has_available_charger")
    good = True
    for p in flow.paths(fn.node):
        if p.kind != "return":
            continue
        if isinstance(p.value, ast.Constant):
            good = good and p.value.value is False
        else:
            good = good and flow.same(p.value, flow.pat(f"self.state.get({fn.params[1]}).has_available_charger()"))
    ctx.check(good, "D8", "DU.helper-contract", "Station.has_available_charger = state[charger_id].has_available_charger()", fn,
              why_bad="shape changed", construct="Station.has_available_charger:shape")


def constructors(ctx: Ctx):
    """Initial-state facts: available = total at construction; add_chargers adds one value to both."""
    repo = ctx.repo
    fn = repo.func(CS, "ChargerState.build")
    p = [p for p in flow.paths(fn.node) if p.kind == "return"]
    good = len(p) == 1 and isinstance(p[0].value, ast.Call)
    if good:
        kw = {k.arg: flow.dump(k.value) for k in p[0].value.keywords}
        good = kw.get("total_chargers") == kw.get("available_chargers") and kw.get("enqueued_vehicles") == "0" and kw.get("total_chargers") is not None
    ctx.check(good, "D8", "DU.constructor", "ChargerState.build: available = total, enqueued = 0", fn, why_bad="initial counters differ", construct="ChargerState.build")
    fn = repo.func(CS, "ChargerState.add_chargers")
    p = [p for p in flow.paths(fn.node) if p.kind == "return"]
    c = fn.params[1]
    good = len(p) == 1 and flow.same(p[0].value, flow.pat(f"self._replace(total_chargers=self.total_chargers + {c}, available_chargers=self.available_chargers + {c})"))
    ctx.check(good, "D8", "DU.constructor", "ChargerState.add_chargers adds one value to total and available", fn, why_bad="shape changed", construct="ChargerState.add_chargers")
    fn = repo.func(BASE, "Base.build")
    good = False
    for p in flow.paths(fn.node):
        if p.kind == "return" and isinstance(p.value, ast.Call):
            kw = {k.arg: flow.dump(k.value) for k in p.value.keywords}
            if "total_stalls" in kw:
                good = kw.get("total_stalls") == kw.get("available_stalls")
    ctx.check(good, "D8", "DU.constructor", "Base.build: available_stalls = total_stalls", fn, why_bad="initial stalls differ", construct="Base.build")
    # a counter record in its INITIAL state (everything free, nobody waiting) may enter the simulation only where a station / base is
    # first built or extended: built anywhere else (a re-pricing, a copy helper) it resets the counters of plugs that are in use
    idx = index(repo)
    ALLOWED = {
        "ChargerState": {(ST, "Station.build"), (ST, "Station.append_chargers"), (CS, "ChargerState.build")},
        "Base": {(BASE, "Base.build"), (BASE, "Base.from_row")},
    }
    n = 0
    for cname, allowed in ALLOWED.items():
        sites = [s for s in idx.calls(cname, refs=True) if in_pkg(s) and not s.file.startswith("nrel/hive/resources")]
        for s in idx.calls("build", refs=True) + idx.calls("_make", refs=True):
            f = s.node.func if isinstance(s.node, ast.Call) else s.node
            if in_pkg(s) and not s.file.startswith("nrel/hive/resources") and isinstance(f, ast.Attribute) and flow.dump(f.value) in (cname, "cls") and \
                    (flow.dump(f.value) == cname or (s.func is not None and s.func.cls is not None and s.func.cls.name == cname)):
                sites.append(s)
        for s in sites:
            if s.kind not in ("call", "ref"):
                continue
            if s.kind == "ref" and not isinstance(parent(s.node), ast.Call):
                # a bare mention (annotation, isinstance) is not a construction
                par = parent(s.node)
                if not (isinstance(par, (ast.keyword, ast.Call, ast.Assign, ast.Return, ast.Tuple))):
                    continue
            if s.kind == "ref":
                continue
            n += 1
            top = s.func
            while top is not None and top.outer is not None:
                top = top.outer
            ok = top is not None and (top.relpath, top.qualname) in allowed
            ctx.check(ok, "D8", "WMC.callers", f"a fresh {cname} (initial counters) is built in {s.qual}", s.func, s.node,
                      why_ok="construction / extension of the entity",
                      why_bad=f"{s.file}:{s.line} builds a {cname} in its initial state (all plugs / stalls free, nobody waiting) outside the construction of the entity: "
                              f"whatever the counters said at that moment is lost while vehicles still hold plugs, stalls or queue slots",
                      construct=f"fresh-{cname}:{s.file}:{s.qual}")
    ctx.require(n >= 4, f"constructor census saw only {n} constructions of ChargerState / Base")


def selftest():
    from ..selftest import V
    CSF = "nrel/hive/state/vehicle_state/charging_station.py"
    CBF = "nrel/hive/state/vehicle_state/charging_base.py"
    RBF = "nrel/hive/state/vehicle_state/reserve_base.py"
    CQF = "nrel/hive/state/vehicle_state/charge_queueing.py"
    EOF_ = "nrel/hive/state/entity_state/entity_state_ops.py"
    IDLE = "nrel/hive/state/vehicle_state/idle.py"
    VEHF = "nrel/hive/model/vehicle/vehicle.py"
    aw = [
        V("activity-written-directly", IDLE, "            updated_state = replace(self, idle_duration=updated_idle_duration)\n            updated_vehicle = less_energy_vehicle.modify_vehicle_state(updated_state)",
          "            from nrel.hive.state.vehicle_state.out_of_service import OutOfService\n            updated_state = OutOfService.build(self.vehicle_id) if mechatronics.is_empty(less_energy_vehicle) else replace(self, idle_duration=updated_idle_duration)\n            updated_vehicle = less_energy_vehicle.modify_vehicle_state(updated_state)", rule="TS.activity-write"),
        V("activity-field-replaced", IDLE, "            updated_vehicle = less_energy_vehicle.modify_vehicle_state(updated_state)",
          "            updated_vehicle = replace(less_energy_vehicle, vehicle_state=updated_state)", rule="WMC.writers"),
        V("install-other-activity", "nrel/hive/state/vehicle_state/reserve_base.py", "VehicleState.apply_new_vehicle_state(updated_sim, self.vehicle_id, self)", "VehicleState.apply_new_vehicle_state(updated_sim, self.vehicle_id, Idle.build(self.vehicle_id))", rule="WMC.callers"),
        V("twin-activity-update-twice", IDLE, "            updated_state = replace(self, idle_duration=updated_idle_duration)\n", "            updated_state = replace(replace(self, idle_duration=0), idle_duration=updated_idle_duration)\n", kind="twin"),
    ]
    return aw + [
        V("exit-no-return-charger", CSF, "error, updated_station = station.return_charger(self.charger_id)",
          "error, updated_station = None, station", rule="TS.pairing"),
        V("base-exit-commit-pre-release-station", CBF, "return simulation_state_ops.modify_station(sim2, updated_station)",
          "return simulation_state_ops.modify_station(sim2, station)", rule="DU.must-flow"),
        V("base-exit-drops-base-update", CBF, "return simulation_state_ops.modify_station(sim2, updated_station)",
          "return simulation_state_ops.modify_station(sim, updated_station)", rule="DU.must-flow"),
        V("reserve-enter-no-checkout", RBF, "updated_base = base.checkout_stall()", "updated_base = base", rule="TS"),
        V("queue-exit-no-dequeue", CQF, "error, updated_station = station.dequeue_for_charger(self.charger_id)",
          "error, updated_station = None, station", rule="TS.pairing"),
        V("queue-exit-wrong-plug", CQF, "station.dequeue_for_charger(self.charger_id)", "station.dequeue_for_charger(next_state.charger_id)", rule="TS.pairing"),
        V("transition-enter-on-sim", EOF_, "next_state.enter(exit_sim, env)", "next_state.enter(sim, env)", rule="TS"),
        V("transition-return-exit-sim", EOF_, "        elif not enter_sim:\n            return None, None", "        elif not enter_sim:\n            return None, exit_sim", rule="TS.transition"),
        V("increment-bound-off-by-one", CS, "if self.available_chargers >= self.total_chargers:", "if self.available_chargers > self.total_chargers:", rule="CMP"),
        V("decrement-bound-negative", CS, "if self.available_chargers == 0:", "if self.available_chargers < 0:", rule="CMP"),
        V("return-stall-bound", BASE, "if (stalls + 1) > self.total_stalls:", "if stalls > self.total_stalls:", rule="CMP"),
        V("checkout-stall-bound", BASE, "if stalls < 1:", "if stalls < 0:", rule="CMP"),
        V("optional-update-none-as-ok", SOPS, "            # noop\n            return None, None", "            # noop\n            return None, station", rule="DU.helper-contract"),
        V("new-writer-of-available", ST, "        return replace(self, balance=self.balance + currency_received)",
          "        cs = next(iter(self.state.values()))\n        _ = cs._replace(available_chargers=cs.total_chargers)\n        return replace(self, balance=self.balance + currency_received)", rule="WMC.writers"),
        V("charging-terminal-to-other-base", CBF, "next_state = ReserveBase.build(self.vehicle_id, self.base_id)", "next_state = ReserveBase.build(self.vehicle_id, self.charger_id)", rule="ORD.terminal"),
        V("queue-terminal-other-plug", CQF, "            next_state = ChargingStation.build(self.vehicle_id, self.station_id, self.charger_id)\n            return None, next_state",
          "            next_state = ChargingStation.build(self.vehicle_id, self.station_id, vehicle.id)\n            return None, next_state", rule="ORD.terminal"),
        V("step-vehicle-adopts-on-error", SSO, "    if error:\n        log.error(error)\n        return s\n    elif not updated_sim:", "    if error:\n        log.error(error)\n        return updated_sim or s\n    elif not updated_sim:", rule="DU.adopt"),
        # twins
        V("twin-rename-local", CSF, "            error, updated_station = station.return_charger(self.charger_id)\n", "            error, updated_station = station.return_charger(self.charger_id)\n            _unused = 1\n", kind="twin"),
        V("twin-mirror-compare", CS, "if self.available_chargers >= self.total_chargers:", "if not (self.available_chargers < self.total_chargers):", kind="twin"),
        V("twin-stall-compare", BASE, "if stalls < 1:", "if not stalls >= 1:", kind="twin"),
        V("twin-return-stall", BASE, "if (stalls + 1) > self.total_stalls:", "if stalls >= self.total_stalls:", kind="twin"),
        V("twin-reorder-guards", RBF, "        if not vehicle:\n            return SimulationStateError(f\"{context}; vehicle not found\"), None\n        elif not base:\n            return SimulationStateError(f\"{context}; base not found\"), None",
          "        if not base:\n            return SimulationStateError(f\"{context}; base not found\"), None\n        elif not vehicle:\n            return SimulationStateError(f\"{context}; vehicle not found\"), None", kind="twin"),
    ] + _auto()


def _auto():
    from ..loader import Repo
    from .. import autovariants as av
    r = Repo()
    return av.resource_variants(r, KINDS) + av.compare_variants(r, [
        (CS, "ChargerState.increment_available_chargers"), (CS, "ChargerState.decrement_available_chargers"), (CS, "ChargerState.decrement_enqueued_vehicles"),
        (CS, "ChargerState.has_available_charger"), (BASE, "Base.checkout_stall"), (BASE, "Base.return_stall")])

