"""C17 — a request's assigned vehicle is really on its way to it (TS for the assignment resource)."""
from __future__ import annotations

import ast

from .. import AnalysisError, flow, states, gd, rules
from ..report import Ctx

KINDS = {"assign"}
REQ = "nrel/hive/model/request/request.py"
DOPS = "nrel/hive/state/vehicle_state/dispatch_ops.py"
DISP = "nrel/hive/dispatcher/instruction_generator/dispatcher.py"

EXPLANATION = (
    "Typestate analysis of the assignment record: DispatchTrip / DispatchPoolingTrip record the vehicle on the "
    "request(s) on every success path of enter() and clear exactly that record on every success path of exit() "
    "(except when the request is gone), the updated request reaches the returned state, every enter() call is "
    "preceded by the previous activity's exit() (so a redirected, stopped or stranded vehicle is unassigned), "
    "the record is written only by Request.assign/unassign_dispatched_vehicle, those are called only from the "
    "two activities (and the fold helper, whose assign/unassign arms are checked), and the dispatcher's request "
    "filter requires 'no vehicle dispatched'. Decides these structural clauses, not run-time histories."
)



def _dispatcher_filter(repo, getter: str, default_name: str):
    """The function the dispatcher hands to get_vehicles / get_requests as `filter_function` (by role, not by name): the nested
    function of that name where it still exists, else whatever callable is passed."""
    from .. import rules as _rules
    solve = repo.func(DISP, "Dispatcher.generate_instructions._solve_assignment")
    f = repo.func_opt(DISP, f"Dispatcher.generate_instructions._solve_assignment.{default_name}")
    if f is not None:
        return f
    f = _rules.callable_argument(repo, solve, getter, "filter_function")
    if f is None:
        raise AnalysisError(f"_solve_assignment: no filter_function handed to {getter}")
    return f

def run(ctx: Ctx):
    # apply_instructions looks every instruction's previous activity up BEFORE any transition runs: that is the activity the vehicle is
    # really in only if at most one instruction per vehicle is applied in a step (one pop per vehicle id)
    from .c09 import step_phases as _step_phases
    ctx.attempt(_step_phases, ctx)
    ctx.attempt(rules.rule_entity_entry, ctx, "D1", "a request (and the assignment record it carries) enters the simulation only through the request updates")
    repo = ctx.repo
    rules.rule_pairing(ctx, KINDS, "D1", "D1")
    for name, want in (("DispatchTrip", True), ("DispatchPoolingTrip", True)):
        sc = states.state_class(repo, name)
        got = rules.released_kinds(sc, KINDS)
        ctx.check(bool(got), "D1", "TS.holds", f"{name} records itself on the request(s) it travels to", sc.enter,
                  why_bad=f"{name}.enter/exit never assign/unassign", construct=f"{name}:no-assignment")
    # the record is set with this vehicle's id
    sc = states.state_class(repo, "DispatchTrip")
    for m in sc.success("enter"):
        for u in m.uses:
            if u.kind == "assign" and u.direction == "A":
                a0 = states.ndump(u.event.call.args[0], sc.rename(sc.enter)) if u.event.call.args else "?"
                ctx.check(a0 == "SELF.vehicle_id", "D1", "TS.identity", "DispatchTrip.enter assigns its own vehicle id", sc.enter, u.event.raw,
                          why_bad=f"assigns {a0}", construct="DispatchTrip.enter:assign-id")
    sc = states.state_class(repo, "DispatchPoolingTrip")
    for which in ("enter", "exit"):
        for m in sc.success(which):
            for u in m.uses:
                if u.kind == "assign":
                    fn = sc.enter if which == "enter" else sc.exit
                    a1 = states.ndump(u.event.call.args[1], sc.rename(fn)) if len(u.event.call.args) > 1 else "?"
                    ctx.check(a1 == "SELF.vehicle_id", "D1", "TS.identity", f"DispatchPoolingTrip.{which} (un)assigns its own vehicle id", fn, u.event.raw,
                              why_bad=f"passes {a1}", construct=f"DispatchPoolingTrip.{which}:assign-id")
    fold_helper(ctx)
    # writers / callers
    def req_writer(s):
        f = s.func
        if f is not None and f.relpath == REQ and f.cls is not None and f.cls.name == "Request" and f.name in (
                "assign_dispatched_vehicle", "unassign_dispatched_vehicle"):
            return "Request.assign/unassign_dispatched_vehicle"
        return None

    rules.rule_field_writers(ctx, "D1", "dispatched_vehicle", req_writer, "only Request.assign/unassign_dispatched_vehicle write the record", 2)
    for nm, arms in (("assign_dispatched_vehicle", ("enter",)), ("unassign_dispatched_vehicle", ("exit",))):
        def ok(s, arms=arms):
            if rules.is_state_enter_exit(repo, s, arms):
                return f"inside {arms[0]} of an activity"
            f = s.func
            if f is not None and f.relpath == DOPS and f.qualname.startswith("modify_vehicle_assignment"):
                return "fold helper modify_vehicle_assignment"
            return None
        rules.rule_callers(ctx, "D1", nm, ok, f"{nm} may only be called from an activity's {arms[0]}() or the fold helper")
    rules.rule_callers(ctx, "D1", "modify_vehicle_assignment",
                       lambda s: "enter/exit of an activity" if rules.is_state_enter_exit(repo, s) else None,
                       "modify_vehicle_assignment may only be called from enter/exit")
    # setter bodies
    fn = repo.func(REQ, "Request.assign_dispatched_vehicle")
    ps = [p for p in flow.paths(fn.node) if p.kind == "return"]
    good = len(ps) == 1 and isinstance(ps[0].value, ast.Call) and {k.arg: flow.dump(k.value) for k in ps[0].value.keywords}.get("dispatched_vehicle") == fn.params[1]
    ctx.check(good, "D1", "DU.setter", "assign_dispatched_vehicle stores the given vehicle id", fn, why_bad="stores something else", construct="assign:setter")
    fn = repo.func(REQ, "Request.unassign_dispatched_vehicle")
    ps = [p for p in flow.paths(fn.node) if p.kind == "return"]
    good = len(ps) == 1 and isinstance(ps[0].value, ast.Call) and {k.arg: flow.dump(k.value) for k in ps[0].value.keywords}.get("dispatched_vehicle") == "None"
    ctx.check(good, "D1", "DU.setter", "unassign_dispatched_vehicle clears the record", fn, why_bad="does not store None", construct="unassign:setter")
    # D2
    rules.rule_enter_sites(ctx, KINDS, "D2")
    rules.rule_transition(ctx, "D2")
    ops = {"assign_dispatched_vehicle", "unassign_dispatched_vehicle", "modify_vehicle_assignment", "modify_request"}
    ctx.attempt(rules.rule_state_lineage, ctx, "D2", rules.step_path_funcs(repo), "DU.state-lineage", lambda fn, c: rules.may_reach(repo, fn, c, ops), True)
    # a transition that reports success without writing the new activity leaves the vehicle in the old one after its exit
    # already cleared the record: the request is offered again while the vehicle is still travelling to it
    assign_holders = {sc.name for sc in states.state_classes(repo) if rules.released_kinds(sc, {"assign"})}
    ctx.attempt(rules.rule_enter_installs, ctx, "D2", "TS.enter-installs", assign_holders)
    ctx.attempt(rules.rule_activity_writes, ctx, "D2")
    # D3 dispatcher filter
    dispatcher_filter(ctx)
    # "... at most one vehicle is travelling to any given request": the pairs the dispatcher turns into instructions are read from the
    # solver's index arrays (distinct rows, distinct columns -- trusted) and from nothing else (C12's table / read-back clauses)
    from . import c12 as _c12
    ctx.attempt(_c12.matrix, ctx)
    ctx.floor("TS.pairing", 13)
    ctx.floor("TS.enter-site", 3)
    ctx.not_decided += ["that at most one vehicle travels to a request under controllers other than the built-in dispatcher",
                        "distinctness of the matching (trusted SciPy solver, see C12)"]


def fold_helper(ctx: Ctx):
    repo = ctx.repo
    outer = repo.func(DOPS, "modify_vehicle_assignment")
    inner = repo.func_opt(DOPS, "modify_vehicle_assignment._modify")
    sim, vid, reqs, un = outer.params[:4]
    if inner is None:
        # written as a loop: it must visit every request of the list (no break / return inside), skipping only the
        # ones that are gone, and (un)assign the others through modify_request
        loops = [l for l in ast.walk(outer.node) if isinstance(l, ast.For) and flow.dump(l.iter) == reqs]
        if len(loops) != 1:
            raise AnalysisError("modify_vehicle_assignment: neither the `_modify` fold nor a single loop over the requests")
        loop = loops[0]
        early = [x for x in ast.walk(loop) if isinstance(x, (ast.Break, ast.Return))]
        errs_only = all(isinstance(x, ast.Return) and flow.classify_result(x.value) == "error" for x in early)
        ctx.check(not early or errs_only, "D1", "TS.fold-helper", "modify_vehicle_assignment visits every request of the list (a missing one is skipped, not a reason to stop)", outer, loop,
                  why_bad=f"`{type(early[0]).__name__.lower()}` inside the loop over the requests: requests listed after a missing one keep (or never get) their assignment record",
                  construct="modify_vehicle_assignment:stops-early")
        src = ast.unparse(loop)  # the normalised tree (helpers inlined), not the raw source text
        both = "unassign_dispatched_vehicle()" in src and "assign_dispatched_vehicle(" in src and "modify_request(" in src
        ctx.check(both, "D1", "TS.fold-helper", "the loop assigns / unassigns through modify_request", outer, loop, why_bad="arms missing", construct="modify_vehicle_assignment:loop-arms")
        return
    # outer: returns reduce(_modify, requests, (None, sim))
    ps = [p for p in flow.paths(outer.node) if p.kind == "return"]
    good = len(ps) == 1 and flow.match(f"ft.reduce(_modify, {reqs}, (None, {sim}))", ps[0].value) is not None
    ctx.check(good, "D1", "TS.fold-helper", "modify_vehicle_assignment folds _modify over every given request starting from (None, sim)", outer,
              why_bad=f"returns {flow.dump(ps[0].value)[:120] if ps else '?'}", construct="modify_vehicle_assignment:fold")
    acc, rid = inner.params[:2]
    n = 0
    for p in flow.paths(inner.node):
        if p.kind != "return":
            continue
        if isinstance(p.value, ast.Name) and p.value.id == acc:
            continue  # error carried / request missing: accumulator unchanged
        n += 1
        v = p.value
        want = flow.pat(
            f"simulation_state_ops.modify_request({acc}[1], "
            f"M_r.unassign_dispatched_vehicle() if {un} else M_r.assign_dispatched_vehicle({vid}, {acc}[1].sim_time))")
        b = flow.match(want, v)
        ok = b is not None and states.ndump(b["M_r"]) == f"{acc}[1].requests.get({rid})"
        ctx.check(ok, "D1", "TS.fold-helper", "_modify: unassign when asked else assign this vehicle, on the request of the folded id, committed with modify_request",
                  inner, p.end, why_bad=f"returns {flow.dump(v)[:200]}", construct="_modify:shape")
    ctx.require(n >= 1, "modify_vehicle_assignment._modify: no updating path found")


def _subselection_of(e: ast.AST) -> ast.AST:
    """Peel what can only drop or reorder elements: X[a:b], tuple/list/sorted/reversed(X), filter(f, X)."""
    while True:
        if isinstance(e, ast.Subscript) and isinstance(e.slice, ast.Slice):
            e = e.value
        elif isinstance(e, ast.Call) and flow.dump(e.func) in ("tuple", "list", "sorted", "reversed") and e.args:
            e = e.args[0]
        elif isinstance(e, ast.Call) and flow.dump(e.func) == "filter" and len(e.args) == 2:
            e = e.args[1]
        else:
            return e


def dispatcher_filter(ctx: Ctx, exact: bool = False):
    """exact=True (C12): the targets are exactly the filtered waiting requests. exact=False (C17): any sub-selection of
    them will do — what matters is that nothing outside the filter is offered."""
    repo = ctx.repo
    fn = _dispatcher_filter(repo, "get_requests", "_valid_request")
    r = fn.params[0]
    types = {r: gd.annotation_class(fn, r) or "Request"}
    acc = gd.accepting_paths(fn, repo, types)
    ctx.require(len(acc) >= 1, "_valid_request has no accepting path")
    for p, atoms in acc:
        ok = gd.has_atom(atoms, gd.falsy_or_none(f"{r}.dispatched_vehicle"))
        ctx.check(ok, "D3", "GD.NODISP", "_valid_request accepts only requests without a dispatched vehicle", fn, p.end,
                  why_ok="`dispatched_vehicle` falsy/None is implied on the accepting path",
                  why_bad=f"accepting path [{p.cond_text()[:120]}] returning {flow.dump(p.value)[:120]} does not imply `not {r}.dispatched_vehicle`",
                  construct="_valid_request:NODISP")
    # it is the filter of the requests handed to find_assignment
    solve = repo.func(DISP, "Dispatcher.generate_instructions._solve_assignment")
    found = False
    for p in flow.paths(solve.node):
        for ev in p.calls("find_assignment"):
            found = True
            a = list(ev.call.args)
            if len(a) >= 2 and not exact:
                a[1] = _subselection_of(a[1])
            good = len(a) >= 2 and isinstance(a[1], ast.Call) and any(
                k.arg == "filter_function" and flow.dump(k.value) == "_valid_request" for k in a[1].keywords) and \
                flow.dump(a[1].func).endswith(".get_requests")
            ctx.check(good, "D3", "GD.NODISP", "find_assignment's targets are " + ("" if exact else "(a sub-selection of) ") + "get_requests(filter_function=_valid_request)", solve, ev.raw,
                      why_bad=f"targets = {flow.dump(a[1])[:160] if len(a) > 1 else '?'}", construct="_solve_assignment:targets-filter")
    ctx.require(found, "_solve_assignment no longer calls find_assignment")


def selftest():
    from ..selftest import V
    DT = "nrel/hive/state/vehicle_state/dispatch_trip.py"
    DP = "nrel/hive/state/vehicle_state/dispatch_pooling_trip.py"
    VO = "nrel/hive/state/vehicle_state/vehicle_state_ops.py"
    return [
        V("unpaired-out-of-service", VO, "    return next_state.enter(exit_sim if exit_sim is not None else sim, env)", "    return next_state.enter(sim, env)", rule="TS.enter-site"),
        V("exit-without-unassign", DT, "            updated_request = request.unassign_dispatched_vehicle()", "            updated_request = request", rule="TS.pairing"),
        V("exit-skips-on-same-class", DT, "        if request is None:\n            # request doesn't exist, doesn't need to be updated",
          "        if request is None or isinstance(next_state, DispatchTrip):\n            # request doesn't exist, doesn't need to be updated", rule="TS.pairing"),
        V("assign-not-committed", DT, "result = VehicleState.apply_new_vehicle_state(updated_sim, self.vehicle_id, self)", "result = VehicleState.apply_new_vehicle_state(sim, self.vehicle_id, self)", rule="DU.must-flow"),
        V("pooling-exit-assigns", DP, "            sim, self.vehicle_id, req_ids, unassign=True\n", "            sim, self.vehicle_id, req_ids, unassign=False\n", rule="TS.pairing"),
        V("fold-arms-swapped", DOPS, "                req.unassign_dispatched_vehicle()\n                if unassign", "                req.unassign_dispatched_vehicle()\n                if not unassign", rule="TS.fold-helper"),
        V("dispatcher-ignores-record", DISP, "                return not_already_dispatched and valid_access", "                return valid_access", rule="GD.NODISP"),
        V("dispatcher-truthy-time", DISP, "not_already_dispatched = not r.dispatched_vehicle", "not_already_dispatched = not (r.dispatched_vehicle and r.dispatched_vehicle_time)", rule="GD.NODISP"),
        V("unassign-keeps-vehicle", REQ, "updated = replace(self, dispatched_vehicle=None, dispatched_vehicle_time=None)", "updated = replace(self, dispatched_vehicle_time=None)", rule="DU.setter"),
        V("twin-is-none", DISP, "not_already_dispatched = not r.dispatched_vehicle", "not_already_dispatched = r.dispatched_vehicle is None", kind="twin"),
        V("twin-exit-spelling", DT, "        if request is None:\n            # request doesn't exist, doesn't need to be updated", "        if not request:\n            # request doesn't exist, doesn't need to be updated", kind="twin"),
    ] + _auto()


def _auto():
    from ..loader import Repo
    from .. import autovariants as av
    return av.resource_variants(Repo(), KINDS)

