"""C18 — charging queues are served first-come first-served (ORD recogniser of the update order + WMC)."""
from __future__ import annotations

import ast
import re

from .. import AnalysisError, flow, states, rules, gd, cmp
from ..report import Ctx
from ..loader import parent
from ..canon import alpha_text

SSO = "nrel/hive/state/simulation_state/update/step_simulation_ops.py"
TO = "nrel/hive/util/tuple_ops.py"
CQ = "nrel/hive/state/vehicle_state/charge_queueing.py"
CS = "nrel/hive/state/vehicle_state/charging_station.py"
DS = "nrel/hive/state/vehicle_state/dispatch_station.py"

EXPLANATION = (
    "The sequence iterated by the vehicle-update loop is traced back (def-use) to its construction and recognised: "
    "all ChargeQueueing vehicles come after all others, ordered by a key that is lexicographic (enqueue_time "
    "ascending, id ascending) with no reverse and no negation; a one-pass sort with a two-class key is accepted only "
    "if the non-queued class's leading component is strictly below every possible enqueue_time (0 is not: a vehicle "
    "queued at time 0 would be updated among the others). The loop threads its state and visits every vehicle. "
    "enqueue_time is written only by ChargeQueueing.build, which is called only at arrival "
    "(DispatchStation._default_terminal_state) with the current state's sim_time. A queued vehicle leaves the queue "
    "exactly when its own station has a free plug of its own type and then enters ChargingStation for the same "
    "station and plug (through transition_previous_to_next). An unrecognised construction of the order is an "
    "ANALYSIS-ERROR, not a verdict. Controller instructions that pull a later vehicle out of the queue are outside "
    "the stated quantifier."
)


def _is_cq_test(e: ast.AST, v: str) -> bool:
    return flow.dump(e) == f"isinstance({v}.vehicle_state, ChargeQueueing)"


def _key_ok(key: ast.AST, allow_else=True):
    """key = lambda v: (v.vehicle_state.enqueue_time, v.id) [if isinstance(...) else (C, v.id)] -> (ok, why, else_const)"""
    if isinstance(key, ast.Name):
        # a named key function the canonicaliser could not read as a lambda (statements it does not fold into one expression): not understood
        raise AnalysisError(f"update order: the sort key `{key.id}` is a function the rule cannot read as one expression")
    if not isinstance(key, ast.Lambda) or len(key.args.args) != 1:
        return False, "sort key is not a one-argument lambda", None
    v = key.args.args[0].arg
    body = key.body
    els = None
    if isinstance(body, ast.IfExp):
        if not _is_cq_test(body.test, v):
            return False, f"key branches on {flow.dump(body.test)[:60]}", None
        els = body.orelse
        body = body.body
    if flow.dump(body) not in (f"({v}.vehicle_state.enqueue_time, {v}.id)", f"(int({v}.vehicle_state.enqueue_time), {v}.id)"):
        return False, f"queued vehicles are keyed by {flow.dump(body)[:80]}, not (enqueue_time, id)", None
    return True, "", els


def run(ctx: Ctx):
    ctx.attempt(order, ctx)
    ctx.attempt(enqueue_time_writers, ctx)
    ctx.attempt(leave_queue, ctx)
    ctx.attempt(built_in_candidates, ctx)
    ctx.attempt(head_of_line, ctx)
    ctx.attempt(first_update_after_grant, ctx)
    ctx.floor("ORD.queue-order", 3)
    ctx.floor("GD.head-of-line", 4)
    ctx.not_decided += ["interleavings with controller instructions that pull a later vehicle out of the queue"]


def order(ctx: Ctx):
    repo = ctx.repo
    fn = repo.func(SSO, "perform_vehicle_state_updates")
    s0 = fn.params[0]
    # the fold that applies step_vehicle to the vehicles, in either spelling (accumulator loop / reduce with any reducer)
    it = None
    loop = fn.node
    for F, XS, INIT in rules.recognise_folds(fn):
        r = flow.dump(rules.reducer_expr(repo, fn, F))
        if r.startswith("step_vehicle("):
            if r != f"step_vehicle(ACC, {fn.params[1]}, X)":
                ctx.violation("D1", "ORD.queue-order", "each step of the vehicle-update fold is step_vehicle(accumulated state, env, vehicle)", fn, F,
                              why=f"the fold computes {r[:120]}", construct="perform_vehicle_state_updates:reducer")
            if flow.dump(INIT) != s0:
                ctx.violation("D1", "ORD.queue-order", "the vehicle-update fold starts from the state it was given", fn, INIT,
                              why=f"starts from {flow.dump(INIT)[:80]}", construct="perform_vehicle_state_updates:init")
            it = XS
            loop = F
    if it is None:
        folds = rules.recognise_folds(fn)
        if len(folds) == 1:
            # another reducer (e.g. the update inlined into a local function): the order it visits is still the question
            # here; whether it threads its state is the fold-threading rule's (below)
            F, XS, INIT = folds[0]
            it, loop = XS, F
            ctx.info("D1", "ORD.queue-order", "the vehicle-update fold does not go through step_vehicle; its reducer is judged by the fold-threading rule", fn, F,
                     why=flow.dump(rules.reducer_expr(repo, fn, F))[:160])
            if flow.dump(INIT) != s0:
                ctx.violation("D1", "ORD.queue-order", "the vehicle-update fold starts from the state it was given", fn, INIT,
                              why=f"starts from {flow.dump(INIT)[:80]}", construct="perform_vehicle_state_updates:init")
        else:
            raise AnalysisError("perform_vehicle_state_updates: no fold over the vehicles was recognised")
    src_ok = lambda d: d in (f"tuple({s0}.vehicles.values())", f"{s0}.vehicles.values()", f"{s0}.get_vehicles()", f"tuple({s0}.get_vehicles())")
    recognised = False
    # shape A: helper(_sort_by_vehicle_state)(all vehicles)
    if isinstance(it, ast.Call) and isinstance(it.func, ast.Name) and len(it.args) == 1 and src_ok(flow.dump(it.args[0])):
        helper = repo.func_opt(SSO, f"perform_vehicle_state_updates.{it.func.id}")
        if helper is None:
            raise AnalysisError(f"perform_vehicle_state_updates: ordering helper {it.func.id} not found")
        vs = helper.params[0]
        ps = [p for p in flow.paths(helper.node) if p.kind == "return"]
        if len(ps) != 1:
            raise AnalysisError("ordering helper: expected a single return")
        v = ps[0].value
        recognised = True
        judge_order(ctx, helper, v, vs)
    elif isinstance(it, ast.Call):
        recognised = True
        judge_order(ctx, fn, it, None, all_src=src_ok)
    if not recognised:
        raise AnalysisError(f"perform_vehicle_state_updates: unrecognised construction of the update order: {flow.dump(it)[:120]}")
    ctx.ok("D1", "ORD.queue-order", "the update fold applies step_vehicle to every element of the ordered sequence (a fold has no early exit)", fn, loop)
    raw_loops = [l for l in ast.walk(fn.node) if isinstance(l, (ast.For, ast.While)) and any(isinstance(c, ast.Call) and flow.dump(c.func) == "step_vehicle" for c in ast.walk(l))]
    bad_exit = [t for l in raw_loops for t in ast.walk(l) if isinstance(t, (ast.Break, ast.Return))]
    ctx.check(not bad_exit, "D1", "ORD.queue-order", "the update loop has no early exit", fn, loop, why_bad="break/return inside the loop", construct="perform_vehicle_state_updates:early-exit")
    rules.rule_fold_threading(ctx, "D1", fn, 1)
    # partition helper semantics
    pf = repo.func(TO, "TupleOps.partition")
    pred, t = pf.params[1:3]
    ps = [p for p in flow.paths(pf.node) if p.kind == "return"]
    ok = flow.values_match(ps, f"(tuple(filter({pred}, it.tee({t})[0])), tuple(it.filterfalse({pred}, it.tee({t})[1])))")
    ctx.check(ok, "D1", "ORD.queue-order", "TupleOps.partition returns (matching, non-matching), each in input order", pf,
              why_bad=f"returns {flow.dump(ps[0].value)[:160] if ps else '?'}", construct="TupleOps.partition")


def judge_order(ctx: Ctx, fn, v: ast.AST, vs, all_src=None):
    """v = expanded expression producing the update order."""
    # shape A: tuple(sorted(OTHERS, key=id)) + tuple(sorted(QUEUED, key=K))
    if isinstance(v, ast.BinOp) and isinstance(v.op, ast.Add):
        def unwrap(e):
            if isinstance(e, ast.Call) and flow.dump(e.func) == "tuple" and len(e.args) == 1:
                e = e.args[0]
            if isinstance(e, ast.Call) and flow.dump(e.func) == "sorted" and e.args:
                kw = {k.arg: k.value for k in e.keywords}
                return e.args[0], kw
            return None, None
        left, lkw = unwrap(v.left)
        right, rkw = unwrap(v.right)
        if left is None or right is None:
            raise AnalysisError(f"update order: unrecognised concatenation {flow.dump(v)[:160]}")
        part = alpha_text(f"TupleOps.partition(lambda v: isinstance(v.vehicle_state, ChargeQueueing), {vs})")
        dl, dr = flow.dump(left), flow.dump(right)
        if dl == f"{part}[1]" and dr == f"{part}[0]":
            ctx.ok("D1", "ORD.queue-order", "all ChargeQueueing vehicles are updated after all other vehicles", fn, v)
        elif dl == f"{part}[0]" and dr == f"{part}[1]":
            ctx.violation("D1", "ORD.queue-order", "all ChargeQueueing vehicles are updated after all other vehicles", fn, v,
                          why="queueing vehicles are placed FIRST: a queued vehicle is updated before the charging vehicle that frees its plug in the same step, "
                              "so a later-updated (later-queued) vehicle can take the plug", construct="_sort_by_vehicle_state:queued-first")
        else:
            raise AnalysisError(f"update order: operands are not the two halves of partition(ChargeQueueing): {dl[:80]} / {dr[:80]}")
        for kw, who in ((lkw, "others"), (rkw, "queued")):
            if "reverse" in kw and not (isinstance(kw["reverse"], ast.Constant) and kw["reverse"].value is False):
                ctx.violation("D1", "ORD.queue-order", f"{who} are sorted ascending", fn, v, why="reverse= given", construct=f"_sort_by_vehicle_state:reverse-{who}")
        qkey = (rkw if dr == f"{part}[0]" else lkw).get("key")
        ok, why, _ = _key_ok(qkey)
        ctx.check(ok, "D1", "ORD.queue-order", "queued vehicles are ordered by (enqueue_time ascending, id ascending)", fn, v,
                  why_bad=why + ": arrival order (with the id tie-break) is not what decides who is updated first", construct="_sort_by_vehicle_state:key")
        okey = (lkw if dl == f"{part}[1]" else rkw).get("key")
        ok_o = okey is not None and isinstance(okey, ast.Lambda) and flow.dump(okey.body) == f"{okey.args.args[0].arg}.id"
        ctx.check(ok_o, "D1", "ORD.queue-order", "the other vehicles are ordered by id (deterministic)", fn, v,
                  why_bad="other vehicles not ordered by id", construct="_sort_by_vehicle_state:others-key")
        return
    # shape B: one sort over all vehicles with a two-class key
    e = v
    if isinstance(e, ast.Call) and flow.dump(e.func) == "tuple" and len(e.args) == 1:
        e = e.args[0]
    if isinstance(e, ast.Call) and flow.dump(e.func) == "sorted" and e.args:
        kw = {k.arg: k.value for k in e.keywords}
        src = flow.dump(e.args[0])
        if vs is not None and src != vs:
            raise AnalysisError(f"update order: single sort over {src[:60]}")
        if "reverse" in kw:
            ctx.violation("D1", "ORD.queue-order", "update order is ascending", fn, v, why="reverse= given", construct="_sort_by_vehicle_state:reverse")
        ok, why, els = _key_ok(kw.get("key"))
        if not ok:
            ctx.violation("D1", "ORD.queue-order", "queued vehicles are ordered by (enqueue_time ascending, id ascending)", fn, v, why=why, construct="_sort_by_vehicle_state:key")
            return
        # non-queued key must sort strictly before every queued key: leading component < every enqueue_time (>= 0)
        lead = els.elts[0] if isinstance(els, ast.Tuple) and els.elts else None
        strictly_below = False
        if isinstance(lead, ast.UnaryOp) and isinstance(lead.op, ast.USub) and isinstance(lead.operand, ast.Constant) and isinstance(lead.operand.value, (int, float)) and lead.operand.value > 0:
            strictly_below = True
        if lead is not None and flow.dump(lead) in ("float('-inf')", "-math.inf", "-float('inf')"):
            strictly_below = True
        ctx.check(strictly_below, "D1", "ORD.queue-order", "in a one-pass sort the non-queued class sorts strictly before every queued vehicle", fn, v,
                  why_bad=f"non-queued vehicles get the leading key {flow.dump(lead) if lead is not None else '?'}, which is not below an enqueue_time of 0: a vehicle that joined a queue at "
                          f"sim_time 0 is updated among the non-queued vehicles, before the charging vehicle that frees its plug",
                  construct="_sort_by_vehicle_state:single-sort-placeholder")
        return
    raise AnalysisError(f"update order: unrecognised construction {flow.dump(v)[:160]}")


def enqueue_time_writers(ctx: Ctx):
    repo = ctx.repo
    def ok_w(s):
        f = s.func
        if f is not None and f.relpath == CQ and f.qualname == "ChargeQueueing.build":
            return "ChargeQueueing.build"
        return None
    rules.rule_field_writers(ctx, "D2", "enqueue_time", ok_w, "enqueue_time is written only by ChargeQueueing.build", 1)
    # every construction of a ChargeQueueing state
    from ..index import index, in_pkg
    idx = index(repo)
    sites = [s for s in idx.calls("build", refs=False) if in_pkg(s) and isinstance(s.node.func, ast.Attribute) and flow.dump(s.node.func.value) == "ChargeQueueing"]
    sites += [s for s in idx.calls("ChargeQueueing", refs=False) if in_pkg(s) and not (s.func is not None and s.func.qualname == "ChargeQueueing.build")]
    if not sites:
        ctx.soft_fail("no construction site of ChargeQueueing found")
    for s in sites:
        f = s.func
        inst = f"{s.qual}: {flow.dump(s.node)[:80]}"
        at_arrival = f is not None and f.relpath == DS and f.qualname == "DispatchStation._default_terminal_state"
        t_ok = False
        if f is not None:
            simp = f.params[1] if f.cls is not None and len(f.params) > 1 else None
            args = s.node.args
            kw = {k.arg: k.value for k in s.node.keywords}
            t = kw.get("enqueue_time", args[3] if len(args) > 3 else None)
            t_ok = t is not None and simp is not None and flow.dump(t) == f"{simp}.sim_time"
        ctx.check(at_arrival and t_ok, "D2", "WMC.enqueue", "a ChargeQueueing state is created only at arrival, stamped with the current state's sim_time", f, s.node,
                  why_bad=f"{inst}: " + ("not the arrival transition" if not at_arrival else "enqueue_time is not the current sim_time") +
                          " — a vehicle (re)entering a queue with an older timestamp jumps ahead of vehicles that arrived before it",
                  construct=f"{s.qual}:ChargeQueueing-construction")


GRANT_ONLY = ("checkout_charger(", "modify_station(")  # the acquisition of the plug and its commit: what the queue waits for


def _as_queued(a: ast.AST):
    return gd.as_previous(a, "CHARGE_QUEUEING", "ChargeQueueing")


def head_of_line(ctx: Ctx):
    """D3: the vehicle at the head of a queue is served when a plug frees only if the plug grant
    (ChargingStation.enter) accepts it. Every condition the grant requires, other than the plug being free, must
    already be a condition of admission to the queue (ChargeQueueing.enter); otherwise an admitted vehicle fails its
    queue-to-plug transition every step, is rolled back, and the vehicles behind it are served first."""
    repo = ctx.repo
    need = {}
    for name in ("ChargingStation", "ChargeQueueing"):
        sc = states.state_class(repo, name)
        ren = sc.rename(sc.enter)
        succ = sc.success("enter")
        if not succ:
            raise AnalysisError(f"{name}.enter has no success path")
        if name == "ChargingStation":
            # the grant as seen by a vehicle that is waiting in the queue; conditions that are constant for it drop out
            sets = []
            for m in succ:
                st_ = set()
                for a, pol in m.path.facts():
                    a2 = _as_queued(a)
                    if isinstance(a2, ast.Constant):
                        continue
                    st_.add((states.ndump(a2, ren), pol))
                sets.append(st_)
        else:
            sets = [{(states.ndump(a, ren), pol) for a, pol in m.path.facts()} for m in succ]
        need[name] = (sc, set.intersection(*sets))
    plug_sc, plug = need["ChargingStation"]
    q_sc, queue = need["ChargeQueueing"]
    # only conditions on the vehicle can tell two vehicles of one queue (same station, same plug type) apart; a condition on
    # the station or the plug type alone fails for the whole queue at once and cannot reorder it
    # ... and so do conditions on WHERE the vehicle is: admission to the queue requires the vehicle to be in the station's cell
    # (checked right here), a queued vehicle does not move, so all vehicles of one queue stand in the same cell
    veh = "SIM.vehicles.get(SELF.vehicle_id)"
    at_station = (f"{veh}.geoid != SIM.stations.get(SELF.station_id).geoid", False)
    ctx.check(at_station in queue or (f"{veh}.geoid == SIM.stations.get(SELF.station_id).geoid", True) in queue, "D3", "GD.head-of-line",
              "admission to the queue requires the vehicle to stand in the station's cell (so location cannot tell queued vehicles apart)", q_sc.enter,
              why_bad="ChargeQueueing.enter admits vehicles that are elsewhere: location conditions of the plug grant can then reorder the queue", construct="head-of-line:queue-location")

    def vehicle_dependent(d: str) -> bool:
        core = d[len("$isnone("):-1] if d.startswith("$isnone(") else d
        if core.startswith("SIM.vehicle_at_"):
            return False  # the state's own "is this vehicle at that entity" predicates
        rest = d.replace(f"{veh}.geoid", "").replace(f"{veh}.position", "")
        return "SELF.vehicle_id" in rest

    elig = sorted((d, pol) for d, pol in plug if not any(g in d for g in GRANT_ONLY) and vehicle_dependent(d))
    ctx.require(len(elig) >= 4, f"ChargingStation.enter: only {len(elig)} eligibility conditions recognised")
    for d, pol in elig:
        if d.startswith("$isnone(") and ((d[len("$isnone("):-1], not pol) in plug or (d[len("$isnone("):-1], True) in plug):
            continue  # implied form of an atom judged on its own
        txt = d if pol else f"not ({d})"
        ctx.check((d, pol) in queue, "D3", "GD.head-of-line", f"plug grant requires `{txt[:110]}`: also required for admission to the queue", q_sc.enter,
                  why_ok="ChargeQueueing.enter requires the same condition on every success path",
                  why_bad=f"ChargingStation.enter refuses unless `{txt[:200]}`, but ChargeQueueing.enter admits without it: an admitted vehicle for which it fails is passed over at the "
                          f"head of the queue every step while vehicles that joined later take the plug",
                  construct=f"head-of-line:{txt[:160]}")
        # ... and it cannot CHANGE while the vehicle waits: a condition that held at admission protects the head of the line only if it
        # is about things a waiting vehicle keeps (who it is, what it can plug into, which fleets it belongs to). The driver's shift,
        # the battery level and the activity itself move on while the vehicle stands in the queue.
        fields = set()
        for m_ in re.finditer(re.escape(veh) + r"\.([A-Za-z_]+)", d):
            fields.add(m_.group(1))
        moving = sorted(fields & WHILE_QUEUED_CHANGES)
        unknown = sorted(fields - WHILE_QUEUED_CHANGES - WHILE_QUEUED_KEEPS)
        if unknown:
            raise AnalysisError(f"head-of-line: eligibility condition `{txt[:80]}` reads vehicle field(s) {unknown} the rule has no entry for")
        ctx.check(not moving, "D3", "GD.head-of-line", f"plug grant requires `{txt[:110]}`: about something a waiting vehicle keeps", plug_sc.enter,
                  why_bad=f"`{txt[:160]}` reads the vehicle's {moving}, which changes while the vehicle waits: a vehicle admitted when it held can reach the head of the queue when it no "
                          f"longer does, is refused the plug step after step, and the vehicles that joined later are served first",
                  construct=f"head-of-line-moving:{txt[:160]}")


# vehicle fields by whether anything in a step can change them while the vehicle's activity is ChargeQueueing
WHILE_QUEUED_KEEPS = {"id", "membership", "mechatronics_id", "geoid", "position", "total_seats"}
WHILE_QUEUED_CHANGES = {"driver_state", "energy", "vehicle_state", "balance", "distance_traveled_km", "energy_expended", "energy_gained"}


def first_update_after_grant(ctx: Ctx):
    """D3 (continued): default_update performs the new activity's `_perform_update` in the very step the plug is granted, and
    an error there rolls the whole vehicle step back — the grant included. So every vehicle-dependent condition under which
    `charge()` fails must be an admission condition of the queue, or be ruled out by `ChargingStation._perform_update` before
    it calls `charge()` (it returns the state unchanged when its own terminal condition — the vehicle is full — already
    holds). Otherwise the head of the queue is passed over, step after step, by the vehicles behind it."""
    repo = ctx.repo
    VO = "nrel/hive/state/vehicle_state/vehicle_state_ops.py"
    ch = repo.func(VO, "charge")
    sim, env, vid, sid, cid = ch.params[:5]
    ren = {sim: "SIM", env: "ENV", vid: "SELF.vehicle_id", sid: "SELF.station_id", cid: "SELF.charger_id"}
    q_sc = states.state_class(repo, "ChargeQueueing")
    qren = q_sc.rename(q_sc.enter)
    qsets = [{(states.ndump(a, qren), pol) for a, pol in m.path.facts()} for m in q_sc.success("enter")]
    queue = set.intersection(*qsets) if qsets else set()
    cs = states.state_class(repo, "ChargingStation")
    pu = repo.method(cs.cls, "_perform_update")
    tc = repo.method(cs.cls, "_has_reached_terminal_state_condition")
    pren = cs.rename(pu)
    # what the charging activity's terminal condition can be true for (normalised return expressions of its value paths)
    tren = cs.rename(tc)
    terminal_atoms = set()
    for p in flow.paths(tc.node):
        if p.kind == "return" and p.value is not None and not isinstance(p.value, ast.Constant):
            terminal_atoms.add(states.ndump(p.value, tren))
    guard = f"SELF._has_reached_terminal_state_condition(SIM, ENV)"
    charge_paths = [p for p in flow.paths(pu.node) if any(e.name == "charge" and not e.deferred for e in p.events)]
    ctx.require(len(charge_paths) >= 1, "ChargingStation._perform_update no longer calls charge()")
    guarded_by_terminal = all(any(states.ndump(a, pren) == guard and pol is False for a, pol in p.facts()) for p in charge_paths)
    n = 0
    veh = "SIM.vehicles.get(SELF.vehicle_id)"
    for p in flow.paths(ch.node):
        if p.kind != "return" or flow.classify_result(p.value) != "error" or not p.conds:
            continue
        last = p.conds[-1]
        if last.test is None or last.pol not in (True, False):
            continue
        for a, pol in flow.implied(last.test, last.pol):
            d = states.ndump(a, ren)
            if "SELF.vehicle_id" not in d or any(g in d for g in GRANT_ONLY + ("modify_vehicle(",)):
                continue  # the result of a commit is not a condition on the vehicle
            if d.startswith("$isnone(") and any(states.ndump(b, ren) == d[len("$isnone("):-1] for b, _ in flow.implied(last.test, last.pol)):
                continue
            n += 1
            txt = d if pol else f"not ({d})"
            admitted_without = (d, not pol) not in queue and not (pol is False and (f"$isnone({d})", False) in queue)
            excluded = guarded_by_terminal and pol is True and d in terminal_atoms
            ctx.check((not admitted_without) or excluded, "D3", "GD.head-of-line",
                      f"charge() fails when `{txt[:100]}`: ruled out at admission to the queue or before the first update after the grant", ch, p.end,
                      why_ok=("admission to the queue requires the opposite" if not admitted_without else "ChargingStation._perform_update returns before charge() when its terminal condition (the same test) holds"),
                      why_bad=f"a vehicle for which `{txt[:160]}` is admitted to the queue; when it is granted the plug, default_update runs ChargingStation._perform_update at once, charge() "
                              f"fails, the step (and the grant) is rolled back, and the vehicles that joined later are served while it waits",
                      construct=f"head-of-line:first-update:{txt[:140]}")
    ctx.require(n >= 2, f"charge(): only {n} vehicle-dependent failure conditions found")


def built_in_candidates(ctx: Ctx):
    """The built-in charging controller never instructs a vehicle that is waiting in a queue (an instruction for the station it stands at goes
    through DispatchStation's 'already there' shortcut straight to the plug, past everybody who queued before): the activities its
    candidate filter accepts do not include ChargeQueueing (nor the charging activities)."""
    CFM = "nrel/hive/dispatcher/instruction_generator/charging_fleet_manager.py"
    fn = ctx.repo.func(CFM, "ChargingFleetManager.generate_instructions")
    n = 0
    for node in ast.walk(fn.node):
        if isinstance(node, ast.Call) and flow.dump(node.func) == "isinstance" and len(node.args) == 2 and flow.dump(node.args[0]).endswith(".vehicle_state"):
            ks = node.args[1].elts if isinstance(node.args[1], ast.Tuple) else [node.args[1]]
            names = [flow.dump(k) for k in ks]
            n += 1
            bad = [k for k in names if k in ("ChargeQueueing", "ChargingStation", "ChargingBase")]
            # a negated test (`not isinstance(v.vehicle_state, ChargeQueueing)`) excludes: only positive acceptance counts
            par = parent(node)
            negated = isinstance(par, ast.UnaryOp) and isinstance(par.op, ast.Not)
            ctx.check(not bad or negated, "D4", "GD.candidates", f"the charging controller's candidates are drawn from {names}", fn, node,
                      why_bad=f"vehicles in {bad} are charge candidates: a queued vehicle is sent a DispatchStationInstruction for the station it is at and takes a freed plug ahead of "
                              f"vehicles that joined the queue earlier",
                      construct="ChargingFleetManager:candidates:" + ",".join(bad))
    ctx.require(n >= 1, "ChargingFleetManager.generate_instructions: no activity test found in the candidate filter")


def leave_queue(ctx: Ctx):
    from .c02 import terminal
    terminal(ctx)
    ctx.attempt(queue_hand_over, ctx)


def queue_hand_over(ctx: Ctx):
    """When its terminal condition holds, the head of the queue must really get the plug: ChargeQueueing._default_terminal_state
    yields ChargingStation.build(own vehicle, own station, own plug type) exactly when the vehicle and the station exist and the
    station has a free plug of that type (all 8 valuations of the three atoms) — an error under any of those valuations rolls
    the vehicle's step back every step, and the vehicles behind it are served first."""
    import itertools

    cq = states.state_class(ctx.repo, "ChargeQueueing")
    fn = ctx.repo.method(cq.cls, "_default_terminal_state")
    ctx.require(fn is not None, "ChargeQueueing._default_terminal_state not found")
    sim = fn.params[1]
    V = f"{sim}.vehicles.get(self.vehicle_id)"
    S = f"{sim}.stations.get(self.station_id)"
    H = f"{S}.has_available_charger(self.charger_id)"
    paths = flow.paths(fn.node)
    bad = []
    n = 0
    for v, s_, h in itertools.product([False, True], repeat=3):
        if not s_ and h:
            continue
        free = {V: v, S: s_, H: h, f"{V} is None": not v, f"{V} is not None": v, f"{S} is None": not s_, f"{S} is not None": s_,
                f"$isnone({V})": not v, f"$isnone({S})": not s_,
                f"{H} if {S} is not None else False": h, f"{H} if {S} else False": h}
        ev = cmp.Evaluator({}, free)
        try:
            p = cmp.taken_path(paths, ev)
        except cmp.Unknown as u:
            raise AnalysisError(f"ChargeQueueing._default_terminal_state consults `{flow.dump(u.node)[:80]}`, outside (vehicle, station, free plug)")
        if p is None:
            raise AnalysisError("ChargeQueueing._default_terminal_state: no path for a valuation")
        n += 1
        kind = flow.classify_result(p.value) if p.kind == "return" else p.kind
        got_ok = kind == "ok" and isinstance(p.value, ast.Tuple) and flow.dump(flow.core(p.value.elts[1])) == "ChargingStation.build(self.vehicle_id, self.station_id, self.charger_id)"
        want_ok = v and s_ and h
        if got_ok != want_ok or (not want_ok and kind == "ok"):
            bad.append(({"vehicle": v, "station": s_, "free plug": h}, kind, flow.dump(p.value)[:80] if p.value is not None else None))
    ctx.check(not bad, "D3", "GD.queue-hand-over", "the head of the queue is handed ChargingStation(own station, own plug type) exactly when vehicle, station and a free plug exist", fn,
              why_ok=f"{n} valuations", why_bad=f"differs on {bad[:3]}: the queued vehicle is not handed over although a plug is free (or is handed over without one), every step",
              construct="ChargeQueueing._default_terminal_state:table", witness={"bad": [str(b) for b in bad[:6]]})


def selftest():
    from ..selftest import V
    return [
        V("key-without-time", SSO, "                key=lambda v: (v.vehicle_state.enqueue_time, v.id)\n                if isinstance(v.vehicle_state, ChargeQueueing)\n                else (0, v.id),", "                key=lambda v: v.id,", rule="ORD.queue-order"),
        V("reverse", SSO, "                else (0, v.id),\n            )", "                else (0, v.id),\n                reverse=True,\n            )", rule="ORD.queue-order"),
        V("queued-first", SSO, "        return sorted_other_vehicles + sorted_charge_queueing_vehicles", "        return sorted_charge_queueing_vehicles + sorted_other_vehicles", rule="ORD.queue-order"),
        V("single-sort-zero", SSO, "        return sorted_other_vehicles + sorted_charge_queueing_vehicles",
          "        return tuple(sorted(vs, key=lambda v: (v.vehicle_state.enqueue_time, v.id) if isinstance(v.vehicle_state, ChargeQueueing) else (0, v.id)))", rule="ORD.queue-order"),
        V("time-negated", SSO, "                key=lambda v: (v.vehicle_state.enqueue_time, v.id)\n", "                key=lambda v: (-v.vehicle_state.enqueue_time, v.id)\n", rule="ORD.queue-order"),
        V("enqueue-time-rewritten", CQ, "            less_energy_vehicle = mechatronics.idle(vehicle, sim.sim_timestep_duration_seconds)\n\n            return simulation_state_ops.modify_vehicle(sim, less_energy_vehicle)",
          "            less_energy_vehicle = mechatronics.idle(vehicle, sim.sim_timestep_duration_seconds).modify_vehicle_state(ChargeQueueing.build(self.vehicle_id, self.station_id, self.charger_id, sim.sim_time))\n\n            return simulation_state_ops.modify_vehicle(sim, less_energy_vehicle)", rule="WMC.enqueue"),
        V("arrival-stamp-zero", DS, "                    self.charger_id,\n                    sim.sim_time,\n                )", "                    self.charger_id,\n                    0,\n                )", rule="WMC.enqueue"),
        V("queue-leaves-without-plug", CQ, "        if not station:\n            return True\n        else:\n            return station.has_available_charger(self.charger_id)", "        if not station:\n            return True\n        else:\n            return True", rule="ORD.terminal"),
        V("grant-receiver-swapped", CS, "        elif not station.membership.grant_access_to_membership(vehicle.membership):\n            msg = f\"vehicle {vehicle.id} doesn't have access to station {station.id}\"", "        elif not vehicle.membership.grant_access_to_membership(station.membership):\n            msg = f\"vehicle {vehicle.id} doesn't have access to station {station.id}\"", rule="GD.head-of-line"),
        V("grant-extra-vehicle-condition", CS, "        elif charger is None:\n            return None, None\n        elif not mechatronics.valid_charger(charger):", "        elif charger is None:\n            return None, None\n        elif vehicle.driver_state.schedule_id is None:\n            return None, None\n        elif not mechatronics.valid_charger(charger):", rule="GD.head-of-line"),
        V("queue-drops-compat-check", CQ, "            elif not mechatronics.valid_charger(charger):\n                msg = f\"vehicle {vehicle.id} of type {vehicle.mechatronics_id} can't use charger {charger.id}\"\n                return SimulationStateError(msg), None\n", "", rule="GD.head-of-line"),
        V("twin-grant-extra-station-condition", CS, "        elif charger is None:\n            return None, None\n        elif not mechatronics.valid_charger(charger):", "        elif charger is None:\n            return None, None\n        elif station.balance < -1e9:\n            return None, None\n        elif not mechatronics.valid_charger(charger):", kind="twin"),
        V("twin-single-sort-minus-one", SSO, "        return sorted_other_vehicles + sorted_charge_queueing_vehicles",
          "        return tuple(sorted(vs, key=lambda v: (v.vehicle_state.enqueue_time, v.id) if isinstance(v.vehicle_state, ChargeQueueing) else (-1, v.id)))", kind="twin"),
    ]
