"""C09 — instructions apply all-or-nothing, one per vehicle per step (TS transition + DU + ORD)."""
from __future__ import annotations

import ast

from .. import AnalysisError, flow, states, rules
from ..loader import walk_stmts
from ..report import Ctx

SSO = "nrel/hive/state/simulation_state/update/step_simulation_ops.py"
SS = "nrel/hive/state/simulation_state/update/step_simulation.py"
IGO = "nrel/hive/dispatcher/instruction_generator/instruction_generator_ops.py"
DO = "nrel/hive/util/dict_ops.py"
VS = "nrel/hive/state/vehicle_state/vehicle_state.py"
UPD = "nrel/hive/state/simulation_state/update/update.py"

EXPLANATION = (
    "Atomicity: transition_previous_to_next returns enter(exit(sim)) or no state at all (every non-success path "
    "returns None for the state), and apply_instructions adopts a transition's state only after testing its error "
    "and None, carries its accumulator through every iteration (no branch falls back to an older state, no early "
    "exit), and records an instruction as applied only in the adopting branch. Precedence: generators are folded in "
    "the configured order, drivers are pushed afterwards, push and pop use the same end of the per-vehicle stack, "
    "every path of add_to_stack_dict really pushes, one pop per vehicle id, and the phases of StepSimulation.update "
    "thread the state (drivers -> generators see the driver-updated state -> apply -> vehicle updates -> tick). "
    "Package-wide error discipline: the value slot of an error-pair call reaches a function's result only on paths that "
    "ruled out its error / None. Decides these structural clauses; which situations each enter() rejects is C02/C07/C10."
)


def run(ctx: Ctx):
    repo = ctx.repo
    rules.rule_transition(ctx, "D1")
    ctx.attempt(rules.rule_enter_installs, ctx, "D1")
    ctx.attempt(rules.rule_acquire_effective, ctx, "D1")  # an instruction that 'succeeds' without taking the plug it names is neither all nor nothing
    # "... enters the instructed activity with ALL of its side effects": what the previous activity's enter() took (plug, stall, queue slot,
    # assignment) its exit() gives back on every success path, whichever activity comes next
    ctx.attempt(rules.rule_pairing, ctx, {"plug", "stall", "queue", "assign"}, "D1", "D1")
    ai = repo.func(SSO, "apply_instructions")
    # the instruction path: everything apply_instructions can reach (every activity's enter / exit and their helpers)
    inst_roots = [ai] + [f for f in repo.all_funcs() if f.name == "apply_instruction"]
    reach = rules.reachable_funcs(repo, inst_roots)
    if reach is None:
        raise AnalysisError("instruction path: reachability bound exceeded")
    on_path = [f for f in rules.step_path_funcs(repo) if f in reach]
    ctx.require(len(on_path) >= 40, f"instruction path has only {len(on_path)} functions")
    ctx.attempt(rules.rule_state_lineage, ctx, "D1", on_path)
    fam = [ai] + [f for f in repo.module(SSO).funcs.values() if f.qualname.startswith("apply_instructions.")]
    n = sum(rules.rule_adopt_on_success(ctx, f, "transition_previous_to_next", "D2") for f in fam)
    ctx.require(n >= 1, "apply_instructions no longer adopts transition_previous_to_next's state")
    rules.rule_fold_threading(ctx, "D4", ai, 1)
    applied_only_on_success(ctx, ai)
    no_early_exit(ctx, ai)
    # "at most one instruction takes effect per vehicle": the two passes of apply_instructions meet every instruction at most once
    ctx.attempt(rules.rule_once_each, ctx, "D3", fam, {ai.params[2]}, "an instruction met twice is applied twice: its plug / stall / assignment is taken twice", "DU.once-each", 2)
    stack_ends(ctx)
    generation_order(ctx)
    step_phases(ctx)
    # exits never leak a partial state: every exit() error/reject path returns None for the state
    for sc in states.state_classes(repo):
        for which, fn in (("enter", sc.enter), ("exit", sc.exit)):
            for m in sc.mpaths(which):
                if m.result in ("error", "reject"):
                    v = m.path.value
                    ok = v is None or flow.is_none(v) or (isinstance(v, ast.Tuple) and len(v.elts) == 2 and flow.is_none(v.elts[1]))
                    ctx.check(ok, "D1", "DU.no-partial-state", f"{sc.name}.{which}: failing path at line {m.path.lineno} returns no state", fn, m.path.end,
                              why_bad=f"returns {flow.dump(v)[:100]}", construct=f"{sc.name}.{which}:partial-state")
    ctx.attempt(rules.rule_error_discipline, ctx, "D1")
    ctx.floor("DU.no-partial-state", 60)
    ctx.floor("ORD.stack", 2)
    ctx.floor("ORD.generation", 7)
    ctx.floor("ORD.phases", 2)
    ctx.not_decided += ["that each enter() rejects exactly the right situations (C02, C07, C10 decide the individual predicates)"]


def applied_only_on_success(ctx: Ctx, ai):
    """applied_instructions is written only together with the adoption of the transition's state."""
    n = 0
    for s in walk_stmts(ai.node):
        if not isinstance(s, ast.For):
            continue
        for p in flow.paths_of_block(s.body):
            for name, val in p.env.items():
                if val is None:
                    continue
                for c in ast.walk(val):
                    if isinstance(c, ast.Call) and any(k.arg == "applied_instructions" for k in c.keywords):
                        n += 1
                        # the record derives from the state produced by the transition, tested for success on this path
                        trans = flow.calls_in(val, "transition_previous_to_next")
                        ok = False
                        if trans:
                            err = ast.dump(ast.Subscript(value=trans[0], slice=ast.Constant(value=0), ctx=ast.Load()))
                            st = ast.dump(ast.Subscript(value=trans[0], slice=ast.Constant(value=1), ctx=ast.Load()))
                            e_ok = s_ok = False
                            for a, pol in p.facts():
                                d = ast.dump(a)
                                if d == err and pol is False:
                                    e_ok = True
                                if flow.is_syn(a, "$isnone") and ast.dump(a.args[0]) == err and pol is True:
                                    e_ok = True
                                if flow.is_syn(a, "$isnone") and ast.dump(a.args[0]) == st and pol is False:
                                    s_ok = True
                                if d == st and pol is True:
                                    s_ok = True
                            ok = e_ok and s_ok
                        ctx.check(ok, "D2", "DU.applied-on-success", "applied_instructions is updated only in the branch that adopts a successful transition", ai, s,
                                  why_bad=f"`{name}` gets applied_instructions on path [{p.cond_text()[:200]}] that does not establish a successful transition",
                                  construct="apply_instructions:applied-before-success")
    # the same obligation when the loop body lives in a nested reducer function
    for f in [f for f in ctx.repo.module(SSO).funcs.values() if f.qualname.startswith("apply_instructions.")]:
        for p in flow.paths(f.node):
            if p.kind != "return" or p.value is None:
                continue
            if not any(isinstance(c, ast.Call) and any(k.arg == "applied_instructions" for k in c.keywords) for c in ast.walk(p.value)):
                continue
            n += 1
            trans = flow.calls_in(p.value, "transition_previous_to_next")
            ok = False
            if trans:
                err = ast.dump(ast.Subscript(value=trans[0], slice=ast.Constant(value=0), ctx=ast.Load()))
                st = ast.dump(ast.Subscript(value=trans[0], slice=ast.Constant(value=1), ctx=ast.Load()))
                facts = [(ast.dump(a.args[0]) if flow.is_syn(a, "$isnone") else ast.dump(a), ("none", pol) if flow.is_syn(a, "$isnone") else ("val", pol)) for a, pol in p.facts()]
                e_ok = (err, ("val", False)) in facts or (err, ("none", True)) in facts
                s_ok = (st, ("val", True)) in facts or (st, ("none", False)) in facts
                ok = e_ok and s_ok
            ctx.check(ok, "D2", "DU.applied-on-success", "applied_instructions is updated only in the branch that adopts a successful transition", f, p.end,
                      why_bad=f"path [{p.cond_text()[:200]}] records the instruction without establishing a successful transition",
                      construct="apply_instructions:applied-before-success")
    ctx.require(n >= 1, "apply_instructions no longer records applied_instructions")
    def w_ok(s):
        f = s.func
        if f is None:
            return None
        top = f
        while top.outer is not None:
            top = top.outer
        if top == ai:
            return "apply_instructions (success branch, checked above)"
        if f.relpath == UPD and f.qualname == "Update.apply_update":
            return "Update.apply_update resets the record at the start of a step"
        if f.relpath.endswith("simulation_state.py") or "initialize" in f.relpath:
            return "initial state"
        return None
    rules.rule_field_writers(ctx, "D2", "applied_instructions", w_ok, "applied_instructions is written only by apply_instructions / the per-step reset", 2)


def no_early_exit(ctx: Ctx, ai):
    for s in walk_stmts(ai.node):
        if isinstance(s, ast.For):
            bad = [t for t in ast.walk(s) if isinstance(t, (ast.Break, ast.Return, ast.Raise))]
            ctx.check(not bad, "D4", "ORD.no-early-exit", f"apply_instructions: loop at line {s.lineno} visits every instruction (no break/return/raise)", ai, s,
                      why_bad=f"{type(bad[0]).__name__ if bad else ''} inside the loop: a rejected instruction would stop the instructions of other vehicles",
                      construct="apply_instructions:early-exit")


def stack_ends(ctx: Ctx):
    repo = ctx.repo
    push = repo.func(DO, "DictOps.add_to_stack_dict")
    pop = repo.func(DO, "DictOps.pop_from_stack_dict")
    xs, cid, obj = push.params[1:4]
    end_push = None
    for p in flow.paths(push.node):
        if p.kind != "return":
            continue
        v = p.value
        m_head = flow.match(f"{xs}.set({cid}, ({obj},) + {xs}.get({cid}, ()))", v)
        m_tail = flow.match(f"{xs}.set({cid}, {xs}.get({cid}, ()) + ({obj},))", v)
        if m_head is not None:
            e = "head"
        elif m_tail is not None:
            e = "tail"
        else:
            ctx.violation("D3", "ORD.stack", f"add_to_stack_dict: path at line {p.lineno} does not push the element", push, p.end,
                          why=f"returns {flow.dump(v)[:120]} under [{p.cond_text()[:120]}]: the instruction generated last is not guaranteed to be on top",
                          construct="add_to_stack_dict:no-push")
            continue
        if end_push not in (None, e):
            ctx.violation("D3", "ORD.stack", "add_to_stack_dict pushes at different ends on different paths", push, p.end, why="", construct="add_to_stack_dict:mixed-ends")
        end_push = e
        ctx.ok("D3", "ORD.stack", f"add_to_stack_dict pushes at the {e} (path line {p.lineno})", push, p.end)
    xs2, cid2 = pop.params[1:3]
    end_pop = None
    for p in flow.paths(pop.node):
        if p.kind != "return" or not isinstance(p.value, ast.Tuple):
            continue
        o = flow.dump(p.value.elts[0])
        if o == f"{xs2}.get({cid2}, ())[0]":
            end_pop = "head"
        elif o == f"{xs2}.get({cid2}, ())[-1]":
            end_pop = "tail"
        elif o == "None":
            continue
        else:
            raise AnalysisError(f"pop_from_stack_dict: unrecognised popped element {o}")
    ctx.require(end_push is not None and end_pop is not None, "stack helpers: unrecognised shape")
    ctx.check(end_push == end_pop, "D3", "ORD.stack", f"push end ({end_push}) = pop end ({end_pop}): the instruction pushed last is the one popped", pop,
              why_bad="push and pop use different ends of the per-vehicle stack: the FIRST generated instruction would win", construct="stack:ends-differ")


def generation_order(ctx: Ctx):
    repo = ctx.repo
    gi = repo.func(IGO, "generate_instructions")
    gens, sim, env = gi.params[:3]
    ps = [p for p in flow.paths(gi.node) if p.kind == "return"]
    want = flow.pat(f"ft.reduce(lambda acc, gen: acc.apply_instruction_generator(gen, {sim}, {env}), {gens}, InstructionGenerationResult())"
                    f".add_driver_instructions({sim}, {env})")
    ok = len(ps) == 1 and flow.same(ps[0].value, want)
    ctx.check(ok, "D3", "ORD.generation", "generate_instructions folds the generators in the given order, then lets the drivers push last", gi,
              why_bad=f"returns {flow.dump(ps[0].value)[:200] if ps else '?'}", construct="generate_instructions:order")
    aig = repo.func(IGO, "InstructionGenerationResult.apply_instruction_generator")
    adi = repo.func(IGO, "InstructionGenerationResult.add_driver_instructions")
    for fn, step in ((aig, "DictOps.add_to_stack_dict(ACC, X.vehicle_id, X)"),
                     (adi, "DictOps.add_to_stack_dict(ACC, X.vehicle_id, X) if X else ACC")):
        found = False
        folds = rules.recognise_folds(fn)  # reduce(...) or the equivalent accumulator loop, any spelling of the reducer
        for p in flow.paths(fn.node):
            if p.kind != "return":
                continue
            for F, XS, INIT in folds:
                if flow.dump(rules.reducer_expr(repo, fn, F)) == step and flow.dump(INIT) == "self.instruction_stack":
                    found = True
            kw = {k.arg for k in p.value.keywords} if isinstance(p.value, ast.Call) else set()
            found = found and "instruction_stack" in kw
        ctx.check(found, "D3", "ORD.generation", f"{fn.name}: every new instruction is pushed onto its own vehicle's stack, starting from the stack so far", fn,
                  why_bad="push fold changed shape", construct=f"{fn.name}:push-fold")
    # the updated generators are collected in the order they were applied (they define the next step's order)
    ok = False
    for p in flow.paths(aig.node):
        if p.kind == "return" and isinstance(p.value, ast.Call):
            kw = {k.arg: flow.dump(k.value) for k in p.value.keywords}
            g = aig.params[1]
            ok = kw.get("updated_instruction_generators") == f"self.updated_instruction_generators + ({g}.generate_instructions({aig.params[2]}, {aig.params[3]})[0],)"
    ctx.check(ok, "D3", "ORD.generation", "apply_instruction_generator appends the updated generator (the next step's order is this step's order)", aig,
              why_bad="updated generators are not appended in application order: the generator order changes from step to step", construct="apply_instruction_generator:updated-order")
    upd = repo.func(SS, "StepSimulation.update")
    ok = False
    for p in flow.paths(upd.node):
        if p.kind == "return" and isinstance(p.value, ast.Tuple) and len(p.value.elts) == 2:
            d = flow.dump(p.value.elts[1])
            ok = d.startswith("self.update_instruction_generators(generate_instructions(self.ordered_instruction_generators, ") and d.endswith(")[1])")
    ctx.check(ok, "D3", "ORD.generation", "StepSimulation.update returns the controller rebuilt from this step's (possibly updated) generators, in order", upd,
              why_bad="updated controller is not update_instruction_generators(generate_instructions(...)[1])", construct="StepSimulation.update:controller")
    # the order field has a closed writer set; the single-generator update keeps it
    def ord_writer(site):
        f = site.func
        if f is not None and f.relpath == SS and f.qualname in ("StepSimulation.from_tuple", "StepSimulation.update_instruction_generators"):
            return "from_tuple / update_instruction_generators (order = given order, checked below)"
        return None
    rules.rule_field_writers(ctx, "D3", "instruction_generator_order", ord_writer, "instruction_generator_order is written only where the order is the given order", 2)
    def uig_caller(site):
        f = site.func
        if f is None:
            return None
        if f.relpath == SS and f.qualname == "StepSimulation.update":
            return "StepSimulation.update (generators in application order)"
        if f.relpath.endswith("runner/runner_payload_ops.py") or f.relpath.endswith("state/simulation_state/update/update.py"):
            return "payload helper passing the caller's tuple"
        return None
    rules.rule_callers(ctx, "D3", "update_instruction_generators", uig_caller, "the generator set is rebuilt only from an explicitly ordered tuple", 1)
    # generator order = configured order
    og = repo.func(SS, "StepSimulation.ordered_instruction_generators")
    ps = [p for p in flow.paths(og.node) if p.kind == "return"]
    ok = flow.values_match(ps, "tuple((self.instruction_generators[ig_id] for ig_id in self.instruction_generator_order))")
    ctx.check(ok, "D3", "ORD.generation", "generators are taken in instruction_generator_order", og, why_bad=f"{flow.dump(ps[0].value)[:120] if ps else '?'}",
              construct="ordered_instruction_generators")
    for qn in ("StepSimulation.from_tuple", "StepSimulation.update_instruction_generators"):
        fn = repo.func(SS, qn)
        arg = fn.params[1]
        ps = [p for p in flow.paths(fn.node) if p.kind == "return"]
        ok = len(ps) == 1 and isinstance(ps[0].value, ast.Call) and any(
            k.arg == "instruction_generator_order" and flow.dump(k.value) in (f"tuple((i_gen.name for i_gen in {arg}))", f"(i_gen.name for i_gen in {arg})",
                                                                               f"tuple([i_gen.name for i_gen in {arg}])", f"[i_gen.name for i_gen in {arg}]")
            for k in ps[0].value.keywords)
        # (that the order is stored as an immutable tuple and not as a one-shot iterator is C16's clause)
        ctx.check(ok, "D3", "ORD.generation", f"{qn}: order = names of the given generators in the given order", fn,
                  why_bad="instruction_generator_order is not the names in the given order", construct=f"{qn}:order")


def step_phases(ctx: Ctx, generators_must_see_driver_updates: bool = False):
    repo = ctx.repo
    fn = repo.func(SS, "StepSimulation.update")
    sim, env = fn.params[1:3]
    ps = [p for p in flow.paths(fn.node) if p.kind == "return"]
    ctx.require(len(ps) >= 1, "StepSimulation.update has no return")
    d1 = f"perform_driver_state_updates({sim}, {env})"
    for p in ps:
        v = p.value
        ok = isinstance(v, ast.Tuple) and len(v.elts) == 2
        if ok:
            d = flow.dump(v.elts[0])
            # tick(perform_vehicle_state_updates(apply_instructions(drivers(sim), env, final), env))
            shape = d.startswith("simulation_state_ops.tick(perform_vehicle_state_updates(") and f"apply_instructions({d1}, {env}," in d
            gen_calls = [e for e in p.events if e.name == "generate_instructions"]
            g_ok = bool(gen_calls) and all(len(e.call.args) >= 2 and flow.dump(e.call.args[1]) == d1 for e in gen_calls)
            ctx.check(shape, "D3", "ORD.phases", "StepSimulation.update: tick(vehicle updates(apply_instructions(driver updates(sim))))", fn, p.end,
                      why_bad=f"returned state = {d[:200]}", construct="StepSimulation.update:state-threading")
            if generators_must_see_driver_updates:
                ctx.check(g_ok, "D3", "ORD.phases", "instruction generators see the state after the driver updates", fn, p.end,
                          why_bad=f"generate_instructions receives {flow.dump(gen_calls[0].call.args[1])[:80] if gen_calls and len(gen_calls[0].call.args) > 1 else '?'}",
                          construct="StepSimulation.update:generators-stale-state")
            # one pop per vehicle id, iterating the stack's keys in sorted order, accumulating every popped instruction
            pops = [e for e in p.events if e.name == "pop_from_stack_dict"]
            if pops:
                e = pops[0]
                ok_pop = len(e.call.args) >= 2 and flow.is_syn(e.call.args[1], "$elem") and flow.dump(e.call.args[1].args[0]).startswith("sorted(") \
                    and flow.dump(e.call.args[0]).startswith("generate_instructions(self.ordered_instruction_generators, ") and flow.dump(e.call.args[0]).endswith(f", {env})[0]")
                ctx.check(ok_pop, "D3", "ORD.phases", "one pop per vehicle id of the generated stack (sorted ids)", fn, e.raw,
                          why_bad=f"pop call {flow.dump(e.call)[:200]}", construct="StepSimulation.update:pop")
            elif "apply_instructions(" in d and "pop_from_stack_dict" not in d and (any(c.pol == "iter" for c in p.conds) or "reduce(" in d or "$elem(" in d):
                # the loop over the stacks ran, instructions are applied, yet nothing was popped: what is applied is not "the top of each stack"
                ctx.violation("D3", "ORD.phases", "one pop per vehicle id of the generated stack (sorted ids)", fn, p.end,
                              why="the instructions handed to apply_instructions are not obtained by popping each vehicle's stack once: more than the instruction generated last "
                                  "takes effect for a vehicle (each applied on a previous activity looked up before any of them ran)",
                              construct="StepSimulation.update:no-pop")
        else:
            ctx.violation("D3", "ORD.phases", "StepSimulation.update returns an unrecognised value", fn, p.end, why=flow.dump(v)[:100], construct="StepSimulation.update:shape")
    rules.rule_fold_threading(ctx, "D3", fn, 1)


def selftest():
    from ..selftest import V
    return [
        V("applied-before-transition", SSO, "        results.append((instruction, instruction_result))\n",
          "        results.append((instruction, instruction_result))\n        sim = sim._replace(applied_instructions=sim.applied_instructions.update({instruction.vehicle_id: instruction}))\n", rule="DU.applied-on-success"),
        V("error-branch-resets", SSO, "        if update_error:\n            log.error(update_error)\n            continue\n        elif updated_sim is None:\n            continue",
          "        if update_error:\n            log.error(update_error)\n            sim = updated_sim\n            continue\n        elif updated_sim is None:\n            continue", rule="DU"),
        V("break-on-error", SSO, "        if update_error:\n            log.error(update_error)\n            continue\n        elif updated_sim is None:", "        if update_error:\n            log.error(update_error)\n            break\n        elif updated_sim is None:", rule="ORD.no-early-exit"),
        V("pop-tail", DO, "            obj, updated_stack = stack[0], stack[1:]", "            obj, updated_stack = stack[-1], stack[:-1]", rule="ORD.stack"),
        V("push-skips-duplicates", DO, "        stack = xs.get(collection_id, ())\n        updated_stack = (obj,) + stack\n        return xs.set(collection_id, updated_stack)",
          "        stack = xs.get(collection_id, ())\n        if obj in stack:\n            return xs\n        updated_stack = (obj,) + stack\n        return xs.set(collection_id, updated_stack)", rule="ORD.stack"),
        V("drivers-before-generators", IGO, "    result = ft.reduce(\n        lambda acc, gen: acc.apply_instruction_generator(gen, simulation_state, environment),\n        instruction_generators,\n        InstructionGenerationResult(),\n    )",
          "    result = ft.reduce(\n        lambda acc, gen: acc.apply_instruction_generator(gen, simulation_state, environment),\n        instruction_generators,\n        InstructionGenerationResult().add_driver_instructions(simulation_state, environment),\n    )", rule="ORD.generation"),
        V("twin-generators-see-older-state", SS, "            self.ordered_instruction_generators, sim_with_drivers_updated, env", "            self.ordered_instruction_generators, simulation_state, env", kind="twin"),
        V("transition-returns-exit-state-on-reject", "nrel/hive/state/entity_state/entity_state_ops.py", "        elif not enter_sim:\n            return None, None", "        elif not enter_sim:\n            return None, exit_sim", rule="TS.transition"),
        V("order-reversed", SS, "            instruction_generator_order=tuple(i_gen.name for i_gen in updated_i_gens),", "            instruction_generator_order=tuple(i_gen.name for i_gen in reversed(updated_i_gens)),", rule="ORD.generation"),
        V("reserve-exit-leaks-state", "nrel/hive/state/vehicle_state/reserve_base.py", "            elif updated_base is None:\n                return None, None\n            return simulation_state_ops.modify_base(sim, updated_base)",
          "            elif updated_base is None:\n                return None, None\n            return simulation_state_ops.modify_base(sim, updated_base)\n", kind="twin"),
        V("unchecked-commit-result", "nrel/hive/state/vehicle_state/charge_queueing.py", "                error, updated_sim = simulation_state_ops.modify_station(sim, updated_station)\n                if error:\n                    response = SimulationStateError(\n                        f\"failure during ChargeQueueing.exit",
          "                error, updated_sim = simulation_state_ops.modify_station(sim, updated_station)\n                if False:\n                    response = SimulationStateError(\n                        f\"failure during ChargeQueueing.exit", rule="DU.error-discipline"),
        V("twin-zip", SSO, "        update_error, updated_sim = result\n", "        (update_error, updated_sim) = result\n", kind="twin"),
    ]
