"""C15 — the clock advances uniformly and stepping composes (WMC + DU threading + ORD siblings + CMP)."""
from __future__ import annotations

import ast

from .. import AnalysisError, flow, states, cmp, rules
from ..report import Ctx

SSOPS = "nrel/hive/state/simulation_state/simulation_state_ops.py"
SS = "nrel/hive/state/simulation_state/update/step_simulation.py"
UPD = "nrel/hive/state/simulation_state/update/update.py"
COSIM = "nrel/hive/app/hive_cosim.py"
LSR = "nrel/hive/runner/local_simulation_runner.py"

EXPLANATION = (
    "sim_time has a closed writer set (tick and the initial state); tick adds the state's own "
    "sim_timestep_duration_seconds and is called exactly once, as the last phase, on the single path of "
    "StepSimulation.update, and nowhere else. Update.apply_update threads everything a step produces into the "
    "next payload: the state from step_update.update, and an Update rebuilt from the folded (possibly updated) "
    "pre-step functions and the updated StepSimulation; _apply_fn never drops a function. The two drivers agree: "
    "crank's reducer and the runner's _run_step both call <current payload>.u.apply_update(<current payload>) then "
    "flush, and return the updated payload; crank folds over exactly range(time_steps) with a reducer that ignores "
    "the index; the runner folds over range(start, end, step) of the configuration; step() refuses iff sim_time >= "
    "end_time (truth table). No global/nonlocal state in the package. Decides these structural clauses; equality of "
    "differently split runs follows from them (with C16) but is not executed."
)


def run(ctx: Ctx):
    ctx.attempt(clock, ctx)
    ctx.attempt(apply_update, ctx)
    ctx.attempt(drivers, ctx)
    ctx.attempt(step_guard, ctx)
    ctx.attempt(no_globals, ctx)
    ctx.attempt(generator_state, ctx)
    ctx.attempt(controller_order, ctx)
    ctx.attempt(wiring, ctx)
    ctx.attempt(pending_reports, ctx)
    from . import c19 as _c19
    ctx.attempt(_c19.collectors, ctx)  # what a co-simulation caller picks up between two crank() calls is not wiped or refilled by the next one
    ctx.floor("WMC", 3)
    ctx.floor("ORD.driver", 4)
    ctx.not_decided += ["equality of states/events of differently split runs as observed behaviour (follows from the decided clauses + C16)"]


def clock(ctx: Ctx):
    repo = ctx.repo
    tick = repo.func(SSOPS, "tick")
    s = tick.params[0]
    ps = flow.paths(tick.node)
    ok = len(ps) == 1 and ps[0].kind == "return" and flow.dump(ps[0].value) == f"{s}._replace(sim_time={s}.sim_time + {s}.sim_timestep_duration_seconds)"
    ctx.check(ok, "D1", "DU.tick", "tick: sim_time += the state's own sim_timestep_duration_seconds, unconditionally", tick,
              why_bad=f"returns {[flow.dump(p.value)[:120] for p in ps]}", construct="tick:shape")

    def ok_w(site):
        f = site.func
        if f is None:
            return None
        if f == tick:
            return "tick"
        if "initialize" in f.relpath or f.relpath.endswith("simulation_state.py") or f.relpath.endswith("sim_config.py") or "config" in f.relpath:
            return "initial state / configuration"
        return None

    def owner(site):
        n = site.node
        if isinstance(n, ast.Call):
            nm = n.func.attr if isinstance(n.func, ast.Attribute) else getattr(n.func, "id", "")
            return nm in ("_replace", "SimulationState", "replace")
        return False

    rules.rule_field_writers(ctx, "D1", "sim_time", ok_w, "sim_time is written only by tick and the initial state", 2, owner_hint=owner)
    upd = repo.func(SS, "StepSimulation.update")
    rules.rule_callers(ctx, "D1", "tick", lambda site: "StepSimulation.update" if site.func == upd else None, "tick is called only by StepSimulation.update", 1,
                       skip=lambda site: not (isinstance(site.node, ast.Call) and flow.dump(site.node.func) in ("simulation_state_ops.tick", "tick")) and site.kind == "call")
    for p in flow.paths(upd.node):
        if p.kind != "return":
            continue
        ticks = [e for e in p.events if e.name == "tick" and not e.deferred]
        ctx.check(len(ticks) == 1, "D1", "ORD.one-tick", "StepSimulation.update ticks exactly once on every path", upd, p.end,
                  why_bad=f"{len(ticks)} tick calls", construct="StepSimulation.update:ticks")
    from .c09 import step_phases
    step_phases(ctx)


def apply_update(ctx: Ctx):
    repo = ctx.repo
    fn = repo.func(UPD, "Update.apply_update")
    rp = fn.params[1]
    init = f"{rp}._replace(s={rp}.s._replace(applied_instructions=immutables.Map()))"
    pre = f"ft.reduce(_apply_fn, self.pre_step_update, UpdatePayload({init}))"
    step = f"self.step_update.update({pre}.runner_payload.s, {pre}.runner_payload.e)"
    want = f"{rp}._replace(s={step}[0], u=Update({pre}.updated_step_fns, {step}[1]))"
    ps = [p for p in flow.paths(fn.node) if p.kind == "return"]
    ok = flow.values_match(ps, want)
    ctx.check(ok, "D2", "DU.threading", "apply_update: next payload = (state from step_update.update on the pre-step result, Update(folded pre-step functions, updated StepSimulation))", fn,
              why_bad=f"returns {flow.dump(ps[0].value)[:400] if ps else '?'}", construct="apply_update:shape")
    af = repo.func(UPD, "_apply_fn")
    p0, f0 = af.params[:2]
    upd = f"{f0}.update({p0}.runner_payload.s, {p0}.runner_payload.e)"
    want = (f"{p0}._replace(runner_payload={p0}.runner_payload._replace(s={upd}[0]), "
            f"updated_step_fns={p0}.updated_step_fns + ({upd}[1],) if {upd}[1] else {p0}.updated_step_fns + ({f0},))")
    ps = [p for p in flow.paths(af.node) if p.kind == "return"]
    ok = flow.values_match(ps, want)
    ctx.check(ok, "D2", "DU.threading", "_apply_fn: applies the function to the accumulated state and keeps the updated function or the old one (never drops one)", af,
              why_bad=f"returns {flow.dump(ps[0].value)[:400] if ps else '?'}", construct="_apply_fn:shape")
    rules.rule_fold_threading(ctx, "D2", fn, 1)


def _step_callable(repo, fn, F):
    """The function a fold's reducer denotes, however it is bound: (step function, index of its payload parameter, [expressions bound
    before it]) for `G`, `ft.partial(G, a, ..)`, or `K(a, ..)` with K a factory that returns its nested step function."""
    F = flow.core(F)
    if isinstance(F, ast.Call) and (flow.dump(F.func)).split(".")[-1] == "partial" and F.args and not F.keywords:
        g = rules.resolve_callable(repo, fn, F.args[0])
        if g is not None:
            return g, len(F.args) - 1, list(F.args[1:])
    if isinstance(F, ast.Call) and isinstance(F.func, ast.Name) and not F.keywords:
        k = rules.resolve_callable(repo, fn, F.func)
        if k is not None:
            rets = [p.value for p in flow.paths(k.node) if p.kind == "return"]
            if len(rets) == 1 and isinstance(rets[0], ast.Name):
                inner = repo.func_opt(k.relpath, f"{k.qualname}.{rets[0].id}")
                if inner is not None:
                    return inner, 0, list(F.args)
    g = rules.resolve_callable(repo, fn, F)
    if g is not None:
        return g, 0, []
    return None


def _judge_step(ctx: Ctx, step, idx: int, label: str, flush_cond=None):
    """one step = apply_update on the CURRENT payload, flush with the UPDATED payload, return it; the step index is ignored"""
    pay = step.params[idx]
    n = 0
    for p in flow.paths(step.node):
        if p.kind != "return":
            continue
        n += 1
        ok = flow.dump(p.value) == f"{pay}.u.apply_update({pay})"
        ctx.check(ok, "D3", "ORD.driver", f"{label} returns <current payload>.u.apply_update(<current payload>)", step, p.end,
                  why_bad=f"returns {flow.dump(p.value)[:120]}: an update captured outside the fold would discard what the previous step produced", construct=f"{label}:apply")
        flushed = [e for e in p.events if e.name == "flush" and not e.deferred]
        want_flush = True if flush_cond is None else any(flow.dump(a) == flush_cond and pol is True for a, pol in p.facts())
        if want_flush:
            # the environment (and its reporter) does not change between steps: only the flushed payload matters
            ok = len(flushed) == 1 and len(flushed[0].call.args) == 1 and flow.same(flushed[0].call.args[0], p.value)
            ctx.check(ok, "D3", "ORD.driver", f"{label} flushes the reporter with the updated payload after the update", step, p.end,
                      why_bad=f"flush calls {[flow.dump(e.call)[:100] for e in flushed]}", construct=f"{label}:flush")
    ctx.require(n >= 1, f"{label}: no return path")
    rest = step.params[idx + 1:]
    used = [x for x in ast.walk(step.node) if isinstance(x, ast.Name) and x.id in rest]
    ctx.check(not used, "D3", "ORD.driver", f"{label} ignores the step index", step, why_bad="index-dependent step", construct=f"{label}:index")


def drivers(ctx: Ctx):
    repo = ctx.repo
    crank = repo.func(COSIM, "crank")
    ts = crank.params[1]
    ITER = (f"range({ts})", f"tqdm(range({ts}), position=0) if progress_bar else range({ts})")
    folds = [c for p in flow.paths(crank.node) if p.kind == "return" for c in flow.calls_in(p.value, "reduce") if len(c.args) >= 3]
    if folds:
        c = folds[0]
        sc = _step_callable(repo, crank, c.args[0])
        ctx.require(sc is not None, "crank: the reducer of its fold cannot be resolved to a function")
        step, idx, bound = sc
        _judge_step(ctx, step, idx, "crank.run_step", "flush_events")
        ok = flow.dump(c.args[1]) in ITER and flow.dump(c.args[2]) == crank.params[0] and not bound
        ctx.check(ok, "D3", "ORD.driver", "crank folds run_step over exactly range(time_steps), starting from the given payload", crank,
                  why_bad="fold shape changed", construct="crank:fold")
    else:
        # the fold written as a loop: the path that enters the loop returns STEP(A) where the path that skips it returns A
        ps = [p for p in flow.paths(crank.node) if p.kind == "return" and p.value is not None]
        first = lambda v: v.args[0] if isinstance(v, ast.Call) and v.args else v  # CrankResult(<payload>, <time>)
        skip = [p for p in ps if not any(cd.pol == "iter" for cd in p.conds)]
        it = [p for p in ps if any(cd.pol == "iter" for cd in p.conds)]
        ctx.require(bool(skip) and bool(it), "crank: neither a reduce nor a loop over the steps was recognised")
        A = flow.dump(first(skip[0].value))
        ctx.check(A == crank.params[0], "D3", "ORD.driver", "crank starts from the given payload", crank, why_bad=f"starts from {A[:80]}", construct="crank:fold")
        for p in it:
            v = first(p.value)
            ok = flow.dump(v) == f"{A}.u.apply_update({A})"
            ctx.check(ok, "D3", "ORD.driver", "crank's loop body returns <current payload>.u.apply_update(<current payload>)", crank, p.end,
                      why_bad=f"computes {flow.dump(v)[:120]}", construct="crank.run_step:apply")
            flushed = [e for e in p.events if e.name == "flush" and not e.deferred]
            if any(flow.dump(a) == "flush_events" and pol is True for a, pol in p.facts()):
                ok = len(flushed) == 1 and len(flushed[0].call.args) == 1 and flow.same(flushed[0].call.args[0], v)
                ctx.check(ok, "D3", "ORD.driver", "crank's loop body flushes the reporter with the updated payload after the update", crank, p.end,
                          why_bad=f"flush calls {[flow.dump(e.call)[:100] for e in flushed]}", construct="crank.run_step:flush")
            its = [flow.dump(cd.test) for cd in p.conds if cd.pol == "iter" and cd.test is not None]
            ctx.check(all(t in ITER or t == "steps" for t in its), "D3", "ORD.driver", "crank loops over exactly range(time_steps)", crank, p.end,
                      why_bad=f"iterates {its}", construct="crank:fold")
    run = repo.func(LSR, "LocalSimulationRunner.run")
    rp = run.params[1]
    cfg = f"{rp}.e.config.sim"
    rng = f"range(int({cfg}.start_time), int({cfg}.end_time), {cfg}.timestep_duration_seconds)"
    found = False
    for p in flow.paths(run.node):
        if p.kind != "return":
            continue
        for c in flow.calls_in(p.value, "reduce"):
            found = True
            it = flow.dump(c.args[1]) if len(c.args) > 1 else ""
            sc = _step_callable(repo, run, c.args[0])
            ctx.require(sc is not None, "LocalSimulationRunner.run: the reducer of its fold cannot be resolved to a function")
            step, idx, bound = sc
            ok = it in (rng, f"tqdm({rng})") and [flow.dump(b) for b in bound] == [f"{rp}.e"] and flow.dump(c.args[2]) == rp
            if ok:
                ctx.ok("D3", "ORD.driver", "the runner folds over range(start_time, end_time, timestep) of the configuration", run, p.end)
            elif "range(" in it:
                ctx.violation("D3", "ORD.driver", "the runner folds over range(start_time, end_time, timestep) of the configuration", run, p.end,
                              why=f"iterates {it[:200]} (step bound to {[flow.dump(b)[:40] for b in bound]}): the number of steps no longer covers the interval [start, end) (a partial last step is dropped or added)", construct="LocalSimulationRunner.run:range")
            else:
                raise AnalysisError(f"LocalSimulationRunner.run: unrecognised step iterable {it[:100]}")
            _judge_step(ctx, step, idx, "_run_step")
            ctx.extra["runner_step"] = (step.relpath, step.qualname, idx)
    ctx.require(found, "LocalSimulationRunner.run: fold not found")


def step_guard(ctx: Ctx):
    fn = ctx.repo.func(LSR, "LocalSimulationRunner.step")
    rp = fn.params[1]

    def label(p):
        if p.kind != "return":
            return p.kind
        if p.value is None or flow.is_none(p.value):
            return "refuse"
        v = flow.core(p.value)
        if isinstance(v, ast.Call) and isinstance(v.func, ast.Call):       # K(rp.e)(rp)
            sc = _step_callable(ctx.repo, fn, v.func)
            if sc is not None and [flow.dump(b) for b in sc[2]] == [f"{rp}.e"] and [flow.dump(a) for a in v.args] == [rp] and not v.keywords:
                return "step"
        elif isinstance(v, ast.Call) and not v.keywords:                      # G(rp.e, rp)
            g = rules.resolve_callable(ctx.repo, fn, v.func)
            known = ctx.extra.get("runner_step")
            if g is not None and [flow.dump(a) for a in v.args] == [f"{rp}.e", rp] and (known is None or (g.relpath, g.qualname) == tuple(known[:2])):
                return "step"
            if flow.dump(v) == f"{rp}.u.apply_update({rp})":                  # the step function read in place (a helper the pinned tree does not have)
                return "step"
        return "other:" + flow.dump(p.value)[:60]

    rows = cmp.path_table(flow.paths(fn.node), {f"{rp}.s.sim_time": "now", f"{rp}.e.config.sim.end_time": "end"}, label, grid=range(0, 3))
    bad = cmp.compare_table(rows, lambda g, f: "refuse" if g["now"] >= g["end"] else "step")
    ctx.check(not bad, "D3", "CMP.step-guard", "step() refuses iff sim_time >= end_time, else performs exactly one step", fn,
              why_bad=f"differs on {bad[:3]}", construct="LocalSimulationRunner.step:table")


def no_globals(ctx: Ctx):
    n = 0
    for fn in ctx.repo.all_funcs():
        for node in ast.walk(fn.node):
            if isinstance(node, (ast.Global, ast.Nonlocal)):
                n += 1
                ctx.violation("D4", "IM.global", f"{fn.qualname}: {type(node).__name__.lower()} {', '.join(node.names)}", fn, node,
                              why="hidden per-call state: stepping would depend on how often it was called before", construct=f"{fn.qualname}:global")
    if n == 0:
        ctx.ok("D4", "IM.global", "no global/nonlocal statement in nrel/hive", file="nrel/hive", line=0, function="<package>")


RNG_STATE = {"random.setstate", "random.seed", "numpy.random.set_state", "np.random.set_state", "numpy.random.seed", "np.random.seed",
             "random.getstate", "numpy.random.get_state", "np.random.get_state"}


def generator_state(ctx: Ctx):
    """'a steps then b steps == a+b steps == the batch runner': the process's random generators are part of what a step continues from
    (seeded once, by load_scenario / run). The stepping entry points (crank, the runner's run / step) therefore never save, restore or
    re-seed them: a crank() that rewinds the generators makes every call repeat the draws of the one before."""
    from ..loader import fq_dotted, dotted
    repo = ctx.repo
    roots = [repo.func(COSIM, "crank"), repo.func(LSR, "LocalSimulationRunner.run"), repo.func(LSR, "LocalSimulationRunner.step")]
    reach = rules.reachable_funcs(repo, roots)
    if reach is None:
        raise AnalysisError("generator_state: reachability bound exceeded")
    # new helpers of the entry modules (context managers are entered through `with`, which the call graph sees as a call)
    n = 0
    for f in sorted(reach, key=lambda f: (f.relpath, f.qualname)):
        for c in ast.walk(f.node):
            if isinstance(c, ast.Call):
                d = fq_dotted(f.module, c.func) or dotted(c.func) or ""
                if d in RNG_STATE:
                    n += 1
                    ctx.violation("D4", "IM.generator-state", f"{f.qualname}: {d}() on the stepping path", f, c,
                                  why=f"reached from crank() / run() / step(): the generators' state is saved, restored or re-seeded while stepping, so the draws of a call depend on where the "
                                      f"call boundaries fall -- crank(a); crank(b) no longer equals crank(a+b) or the batch runner",
                                  construct=f"{f.qualname}:generator-state:{d}")
    ctx.ok("D4", "IM.generator-state", f"{len(reach)} functions reachable from crank / run / step: none saves, restores or re-seeds the random generators", file=COSIM, line=0, function="crank")
    ctx.require(len(reach) >= 100, f"generator_state: only {len(reach)} functions reachable from the stepping entry points")


def controller_order(ctx: Ctx):
    """Re-injecting a generator between two co-simulation calls must not change the order in which generators are
    consulted: the order field is written only from an explicitly ordered tuple, and the single-generator update
    leaves it alone."""
    repo = ctx.repo
    fn = repo.func(SS, "StepSimulation.update_instruction_generator")
    oks = [p for p in flow.paths(fn.node) if p.kind == "return" and isinstance(p.value, ast.Call) and flow.dump(p.value.func) == "Success"]
    good = bool(oks)
    for p in oks:
        v = p.value.args[0]
        kw = {k.arg for k in v.keywords} if isinstance(v, ast.Call) else set()
        good = good and isinstance(v, ast.Call) and flow.dump(v.func) == "replace" and flow.dump(v.args[0]) == "self" and kw == {"instruction_generators"}
    ctx.check(good, "D2", "DU.controller-order", "update_instruction_generator replaces one generator and leaves the configured order untouched", fn,
              why_bad=f"returns {[flow.dump(p.value)[:140] for p in oks]}: the order in which generators are consulted can change when a generator is re-injected between two calls",
              construct="StepSimulation.update_instruction_generator:order")
    def ord_writer(site):
        f = site.func
        if f is not None and f.relpath == SS and f.qualname in ("StepSimulation.from_tuple", "StepSimulation.update_instruction_generators"):
            return "from_tuple / update_instruction_generators"
        return None
    rules.rule_field_writers(ctx, "D2", "instruction_generator_order", ord_writer, "instruction_generator_order is written only from an explicitly ordered tuple", 2)
    def uig_caller(site):
        f = site.func
        if f is None:
            return None
        if f.relpath == SS and f.qualname == "StepSimulation.update":
            return "StepSimulation.update"
        if f.relpath.endswith("runner/runner_payload_ops.py") or f.relpath.endswith("state/simulation_state/update/update.py"):
            return "payload helper passing the caller's tuple"
        return None
    rules.rule_callers(ctx, "D2", "update_instruction_generators", uig_caller, "the generator set is rebuilt only from an explicitly ordered tuple", 1)


CONFIG_WIRING = {  # SimulationState field <- the configuration entry the runner's own loop uses
    "sim_time": "config.sim.start_time",
    "sim_timestep_duration_seconds": "config.sim.timestep_duration_seconds",
}


def wiring(ctx: Ctx):
    """The clock the state ticks by and the clock the runner counts by are the same two configuration entries: every
    construction of the initial SimulationState passes start_time and timestep_duration_seconds from the configuration
    (a field left to its default silently decouples tick() from the runner's range()). The controller of a running
    payload is only ever modified in place: Update.build (which re-reads the input files from their first row) is called
    from the loading code only, and the payload operations replace nothing but `step_update`."""
    from ..index import index, in_pkg
    repo = ctx.repo
    idx = index(repo)
    sites = [s for s in idx.calls("SimulationState", refs=False) if in_pkg(s) and s.file.startswith("nrel/hive/initialization")]
    ctx.require(len(sites) >= 3, f"only {len(sites)} constructions of the initial SimulationState found")
    for s in sites:
        # plain aliases of the enclosing function (`cfg = config`, the parameter bindings of an inlined helper) are read through
        alias = {}
        if s.func is not None:
            for a in ast.walk(s.func.node):
                if isinstance(a, ast.Assign) and len(a.targets) == 1 and isinstance(a.targets[0], ast.Name) and isinstance(a.value, (ast.Name, ast.Attribute)) \
                        and sum(1 for b in ast.walk(s.func.node) if isinstance(b, ast.Name) and b.id == a.targets[0].id and isinstance(b.ctx, ast.Store)) == 1:
                    alias[a.targets[0].id] = a.value
        for _ in range(3):
            alias = {k: flow.subst(v, alias) for k, v in alias.items()}
        kw = {k.arg: flow.dump(flow.subst(k.value, alias)) for k in s.node.keywords if k.arg}
        for fld, want in CONFIG_WIRING.items():
            got = kw.get(fld)
            ctx.check(got is not None and got.endswith(want), "D1", "DU.config-wiring", f"{s.qual}: SimulationState({fld}=...) comes from {want}", s.func, s.node,
                      why_bad=(f"{fld} is not passed: the state keeps the class default while the runner counts steps by {want}" if got is None else f"{fld}={got}"),
                      construct=f"{s.qual}:SimulationState:{fld}")

    def ok_build(st):
        f = st.func
        if f is not None and f.relpath.startswith("nrel/hive/initialization/"):
            return "loading code"
        return None
    rules.rule_callers(ctx, "D2", "build", ok_build, "Update.build is called only while loading a scenario", 2,
                       skip=lambda st: not (isinstance(st.node, ast.Call) and isinstance(st.node.func, ast.Attribute) and flow.dump(st.node.func.value) == "Update"))
    RPO = "nrel/hive/runner/runner_payload_ops.py"
    n = 0
    for f in repo.module(RPO).funcs.values():
        for p in flow.paths(f.node):
            if p.kind != "return" or p.value is None:
                continue
            for c in ast.walk(p.value):
                if isinstance(c, ast.Call) and isinstance(c.func, ast.Attribute) and c.func.attr == "_replace":
                    for k in c.keywords:
                        if k.arg == "u":
                            n += 1
                            v = k.value
                            rp = f.params[0]
                            good = isinstance(v, ast.Call) and isinstance(v.func, ast.Attribute) and v.func.attr == "_replace" and flow.dump(v.func.value) == f"{rp}.u" \
                                and {kk.arg for kk in v.keywords} <= {"step_update"}
                            ctx.check(good, "D2", "DU.threading", f"{f.qualname}: the payload's Update is replaced only in its step_update (the pre-step readers keep their position)", f, c,
                                      why_bad=f"u = {flow.dump(v)[:160]}", construct=f"{f.qualname}:update-replaced")
    ctx.require(n >= 1, "runner_payload_ops: no function replacing the payload's Update found")


def pending_reports(ctx: Ctx):
    """Splitting a run differently (crank(3) + crank(3) against crank(6), flushing every step or once) delivers the same reports only if a
    report that was filed stays pending until a flush takes it: Reporter.reports is bound only in __init__ and flush, and emptied nowhere."""
    REP = "nrel/hive/reporting/reporter.py"

    def ok_w(s_):
        f = s_.func
        if f is not None and f.relpath == REP and f.qualname in ("Reporter.__init__", "Reporter.flush"):
            return f.qualname
        if f is not None and f.relpath != REP and f.cls is not None and f.cls.name != "Reporter" and isinstance(s_.node, ast.Attribute) and flow.dump(s_.node.value) == "self":
            return "another class's own attribute of that name"
        if f is not None and f.relpath.startswith("nrel/hive/resources"):
            return "mock"
        return None
    rules.rule_field_writers(ctx, "D5", "reports", ok_w, "the pending report list is bound only by Reporter.__init__ and Reporter.flush", 2)
    rep = ctx.repo.module(REP)
    for f in rep.funcs.values():
        if f.cls is None or f.cls.name != "Reporter" or f.name in ("__init__", "flush"):
            continue
        for n_ in ast.walk(f.node):
            removes = isinstance(n_, ast.Call) and isinstance(n_.func, ast.Attribute) and n_.func.attr in ("clear", "pop", "remove") and flow.dump(n_.func.value) == "self.reports"
            removes = removes or (isinstance(n_, ast.Delete) and any(isinstance(t, ast.Subscript) and flow.dump(t.value) == "self.reports" for t in n_.targets))
            removes = removes or (isinstance(n_, ast.Assign) and any(isinstance(t, ast.Subscript) and flow.dump(t.value) == "self.reports" for t in n_.targets))
            if removes:
                ctx.violation("D5", "WMC.writers", f"{f.qualname} removes pending reports", f, n_, why="reports filed but not yet flushed are withdrawn: what a flush delivers no longer is "
                              "everything that was filed since the last one", construct=f"reports-removed:{f.qualname}")


def selftest():
    from ..selftest import V
    return [
        V("second-tick", SS, "        sim_next_time_step = simulation_state_ops.tick(sim_vehicles_updated)", "        sim_next_time_step = simulation_state_ops.tick(simulation_state_ops.tick(sim_vehicles_updated))", rule="ORD"),
        V("tick-constant", SSOPS, "    return sim._replace(sim_time=sim.sim_time + sim.sim_timestep_duration_seconds)", "    return sim._replace(sim_time=sim.sim_time + 60)", rule="DU.tick"),
        V("u-not-threaded", UPD, "        updated_payload = runner_payload._replace(s=updated_sim, u=next_update)", "        updated_payload = runner_payload._replace(s=updated_sim)", rule="DU.threading"),
        V("crank-captured-update", COSIM, "        rp1 = rp0.u.apply_update(rp0)", "        rp1 = runner_payload.u.apply_update(rp0)", rule="ORD.driver"),
        V("crank-no-flush-payload", COSIM, "            rp1.e.reporter.flush(rp1)", "            rp1.e.reporter.flush(rp0)", rule="ORD.driver"),
        V("runner-floor-division", LSR, "        time_steps = tqdm(\n            range(\n                int(runner_payload.e.config.sim.start_time),\n                int(runner_payload.e.config.sim.end_time),\n                runner_payload.e.config.sim.timestep_duration_seconds,\n            )\n        )",
          "        time_steps = tqdm(\n            range(\n                (int(runner_payload.e.config.sim.end_time) - int(runner_payload.e.config.sim.start_time)) // runner_payload.e.config.sim.timestep_duration_seconds\n            )\n        )", rule="ORD.driver"),
        V("step-guard-strict", LSR, "        if runner_payload.s.sim_time >= runner_payload.e.config.sim.end_time:", "        if runner_payload.s.sim_time > runner_payload.e.config.sim.end_time:", rule="CMP.step-guard"),
        V("apply-fn-drops", UPD, "        p.updated_step_fns + (updated_fn,) if updated_fn else p.updated_step_fns + (fn,)", "        p.updated_step_fns + (updated_fn,) if updated_fn else p.updated_step_fns", rule="DU.threading"),
        V("external-clock-writer", "nrel/hive/state/simulation_state/update/cancel_requests.py", "        return updated, None", "        return updated._replace(sim_time=updated.sim_time), None", rule="WMC.writers"),
        V("twin-step-mirror", LSR, "        if runner_payload.s.sim_time >= runner_payload.e.config.sim.end_time:", "        if not (runner_payload.s.sim_time < runner_payload.e.config.sim.end_time):", kind="twin"),
    ] + _auto()


def _auto():
    from ..loader import Repo
    from .. import autovariants as av
    return av.compare_variants(Repo(), [(LSR, "LocalSimulationRunner.step")])

