"""C03 — every ride request is resolved exactly once (WMC + GD + DU + CMP)."""
from __future__ import annotations

import ast

from .. import AnalysisError, flow, states, guards, cmp, rules, gd
from ..report import Ctx
from . import c05

SOPS = "nrel/hive/state/vehicle_state/servicing_ops.py"
CAN = "nrel/hive/state/simulation_state/update/cancel_requests.py"
SSOPS = "nrel/hive/state/simulation_state/simulation_state_ops.py"
ST = "nrel/hive/state/vehicle_state/servicing_trip.py"
EOPS = "nrel/hive/state/entity_state/entity_state_ops.py"
VEO = "nrel/hive/reporting/vehicle_event_ops.py"

EXPLANATION = (
    "A waiting request can leave the simulation only through remove_request, whose only callers are pick_up_trip "
    "and CancelRequests (closed caller set); both require the request to be present in the state they return "
    "from, so pickup and cancel exclude each other per request. pick_up_trip credits request.value exactly once "
    "and returns payment + removal in one state; it is called only from ServicingTrip.enter (dominated by "
    "'previous activity is DISPATCH_TRIP' and 'request still there'), ServicingPoolingTrip.enter and "
    "complete_trip_phase(PICKUP). No diversion: ServicingTrip.exit succeeds iff len(route) == 0 (truth table), "
    "ServicingPoolingTrip.exit iff plan empty or re-planning. Drop-off: called only under route-empty with the "
    "activity's own request and vehicle, rejects unless every passenger's destination is the vehicle's cell, and "
    "the default update runs the NEW activity's _perform_update after a terminal transition (so an arrived trip "
    "is dropped off exactly once). Cancellation removes iff now >= departure + timeout (truth table) and the "
    "cancel fold threads its accumulator. Decides these structural clauses; the count identities over whole runs "
    "follow from them but are not summed."
)


def run(ctx: Ctx):
    ctx.attempt(rules.rule_entity_entry, ctx, "D1", "a request enters the simulation once, through the request updates: re-entering a picked-up request lets it be resolved twice")
    repo = ctx.repo
    pick = repo.func(SOPS, "pick_up_trip")
    cancel_inner = repo.func(CAN, "CancelRequests.update._remove_from_sim")
    rr = repo.func(SSOPS, "remove_request")

    def ok_remove(s):
        if s.func in (pick, cancel_inner):
            return "pick_up_trip / CancelRequests"
        if s.func is not None and s.func.relpath == CAN and (s.func.qualname.startswith("CancelRequests.update") or s.func.name == cancel_inner.name):
            return "CancelRequests (the removal step of its fold, wherever it is defined in that module)"
        return None

    rules.rule_callers(ctx, "D1", "remove_request", ok_remove, "a waiting request is consumed only by pickup or cancellation", 2)
    rules.rule_callers(ctx, "D1", "remove_request_safe", lambda s: "wrapper remove_request" if s.func == rr else None,
                       "remove_request_safe is reached only through remove_request", 1)
    # remove_request wrapper: failure -> (error, None); success -> (None, state)
    ps = [p for p in flow.paths(rr.node) if p.kind == "return"]
    kinds = sorted(flow.classify_result(p.value) for p in ps)
    ctx.check(kinds == ["error", "ok"], "D1", "DU.wrapper", "remove_request: Failure -> (error, None), Success -> (None, state)", rr,
              why_bad=f"paths {kinds}", construct="remove_request:wrapper")
    # D2 fare once
    c05.pickup_rule(ctx)
    c05.lost_update(ctx)
    rules.rule_callers(ctx, "D2", "receive_payment", lambda s: "pick_up_trip / charge" if s.func is not None and s.func.qualname in ("pick_up_trip", "charge") else None,
                       "fares are credited only by pick_up_trip", 2)
    # D3 pick_up_trip callers
    def ok_pick(s):
        f = s.func
        if f is None:
            return None
        if f.name == "enter" and f.cls is not None and f.cls.name in ("ServicingTrip", "ServicingPoolingTrip"):
            return f"{f.cls.name}.enter"
        if f.relpath == SOPS and f.qualname == "complete_trip_phase":
            return "complete_trip_phase"
        return None

    rules.rule_callers(ctx, "D3", "pick_up_trip", ok_pick, "pick_up_trip is called only when a trip is entered or a pooled pickup phase completes", 3)
    guards.rule_enter_guards(ctx, "PREV", "D3")
    # pickup in enter uses the activity's own vehicle and request
    for cname in ("ServicingTrip", "ServicingPoolingTrip"):
        sc = states.state_class(repo, cname)
        for m in sc.success("enter"):
            for u in m.uses:
                if u.kind == "pickup":
                    a = [states.ndump(x, sc.rename(sc.enter)) for x in u.event.call.args]
                    ok = a[:3] == ["SIM", "ENV", "SELF.vehicle_id"]
                    ctx.check(ok and u.flows_to_result, "D3", "DU.provenance", f"{cname}.enter picks up with its own vehicle and the returned state contains the pickup", sc.enter, u.event.raw,
                              why_bad=f"pick_up_trip({', '.join(a)[:120]}) flows={u.flows_to_result}", construct=f"{cname}.enter:pickup-args")
    # "none vanishes without a trace": the pickup record is written inside a catch-all that carries on silently
    rules.rule_swallowed_regions(ctx, "D3")
    complete_phase(ctx)
    no_diversion(ctx)
    dropoff(ctx)
    from . import c06 as _c06
    ctx.attempt(_c06.move_rejections, ctx)  # a finished trip is dropped off only if move() hands its state on
    # the vehicle-update phase threads its state: what one vehicle's update produced is what the next vehicle is stepped on, and a failed
    # update keeps what the earlier vehicles of the step did (a reducer that falls back to the phase's initial state undoes them all)
    ctx.attempt(rules.rule_fold_threading, ctx, "D1", ctx.repo.func("nrel/hive/state/simulation_state/update/step_simulation_ops.py", "perform_vehicle_state_updates"), 1)
    rules.rule_default_update(ctx, "D5", require_perform_update=True)
    cancellation(ctx, timing=False)
    ctx.floor("WMC.callers", 8)
    ctx.floor("CMP", 2)
    ctx.not_decided += ["the count identities over whole runs (implied by the decided clauses, not summed)",
                        "pooling re-planning (ServicingPoolingTrip.exit admits DISPATCH_POOLING_TRIP): diversion allowed by design"]


def complete_phase(ctx: Ctx):
    fn = ctx.repo.func(SOPS, "complete_trip_phase")
    sim, env, veh, act = fn.params[:4]
    n_pick = n_drop = 0
    for p in flow.paths(fn.node):
        if p.kind != "return":
            continue
        facts = [(flow.dump(a), pol) for a, pol in p.facts()]
        is_pick = (f"{act}.trip_phase == TripPhase.PICKUP", True) in facts
        is_drop = (f"{act}.trip_phase == TripPhase.DROPOFF", True) in facts
        picks = [e for e in p.events if e.name == "pick_up_trip" and not e.deferred]
        drops = [e for e in p.events if e.name == "drop_off_trip" and not e.deferred]
        if picks:
            n_pick += 1
            a = [flow.dump(x) for x in picks[0].call.args]
            ok = is_pick and a == [sim, env, f"{veh}.id", f"{sim}.requests.get({act}.request_id).id"] and not drops
            ctx.check(ok, "D3", "DU.provenance", "complete_trip_phase: pickup only in the PICKUP phase, for the active request and this vehicle", fn, picks[0].raw,
                      why_bad=f"pick_up_trip({', '.join(a)[:140]}) under [{p.cond_text()[:100]}]", construct="complete_trip_phase:pickup")
        if drops:
            n_drop += 1
            a = [flow.dump(x) for x in drops[0].call.args]
            ok = is_drop and a == [sim, env, f"{veh}.id", f"{veh}.vehicle_state.boarded_requests.get({act}.request_id)"] and not picks
            ctx.check(ok, "D5", "DU.provenance", "complete_trip_phase: drop-off only in the DROPOFF phase, for the boarded active request and this vehicle", fn, drops[0].raw,
                      why_bad=f"drop_off_trip({', '.join(a)[:140]})", construct="complete_trip_phase:dropoff")
    ctx.require(n_pick >= 1 and n_drop >= 1, "complete_trip_phase: pickup/dropoff branches not found")


def trip_end_tables(ctx: Ctx, clause: str = "D4", lenient: bool = False):
    """ServicingTrip.exit succeeds iff len(route) == 0, and its terminal condition is the same predicate. lenient=True (C07):
    any non-refusing, non-failing result counts as leaving (what exit does besides deciding is not a location matter)."""
    repo = ctx.repo
    sc = states.state_class(repo, "ServicingTrip")
    fn = sc.exit

    def label(p):
        if p.kind != "return":
            return p.kind
        return {"ok": "leave", "reject": "refuse", "error": "error"}.get(flow.classify_result(p.value), "leave" if lenient else "other")

    rows = cmp.path_table(flow.paths(fn.node), {"len(self.route)": "n"}, label, grid=range(0, 4))
    bad = cmp.compare_table(rows, lambda g, f: "leave" if g["n"] == 0 else "refuse")
    ctx.check(not bad, clause, "CMP.trip-end", "ServicingTrip.exit succeeds iff the route is finished (len(route) == 0), for any next activity", fn,
              why_ok=f"{len(rows)} assignments agree", why_bad=f"differs on {bad[:3]}", construct="ServicingTrip.exit:table", witness={"bad": [str(b) for b in bad[:5]]})
    t = repo.method(sc.cls, "_has_reached_terminal_state_condition")
    ps = [p for p in flow.paths(t.node) if p.kind == "return"]
    if len(ps) == 1:
        rows = cmp.predicate_table(ps[0].value, {"len(self.route)": "n"}, grid=range(0, 4))
        ok = not cmp.compare_table(rows, lambda g, f: g["n"] == 0)
    else:
        ok = all(flow.dump(p.value) in ("True", "False") and ((gd.allowed_lengths(p.facts(), "self.route") == {0}) == (flow.dump(p.value) == "True")) for p in ps)
    ctx.check(ok, clause, "CMP.trip-end", "ServicingTrip is terminal iff len(route) == 0", t, why_bad="terminal condition differs", construct="ServicingTrip:terminal")


def no_diversion(ctx: Ctx):
    repo = ctx.repo
    sc = states.state_class(repo, "ServicingTrip")
    fn = sc.exit

    def label(p):
        if p.kind != "return":
            return p.kind
        return {"ok": "leave", "reject": "refuse", "error": "error"}.get(flow.classify_result(p.value), "other")

    rows = cmp.path_table(flow.paths(fn.node), {"len(self.route)": "n"}, label, grid=range(0, 4))
    bad = cmp.compare_table(rows, lambda g, f: "leave" if g["n"] == 0 else "refuse")
    ctx.check(not bad, "D4", "CMP.no-diversion", "ServicingTrip.exit succeeds iff the route is finished (len(route) == 0), for any next activity", fn,
              why_ok=f"{len(rows)} assignments agree", why_bad=f"differs on {bad[:3]}", construct="ServicingTrip.exit:table", witness={"bad": [str(b) for b in bad[:5]]})
    for p in flow.paths(fn.node):
        if p.kind == "return" and flow.classify_result(p.value) == "ok":
            ctx.check(flow.dump(p.value.elts[1]) == fn.params[2], "D4", "CMP.no-diversion", "ServicingTrip.exit returns the state unchanged", fn, p.end,
                      why_bad="changes the state", construct="ServicingTrip.exit:state")
    sc = states.state_class(repo, "ServicingPoolingTrip")
    fn = sc.exit
    nxt = fn.params[1]
    rows = cmp.path_table(flow.paths(fn.node), {"len(self.trip_plan)": "n"}, label, grid=range(0, 3))
    replan = f"{nxt}.vehicle_state_type == VehicleStateType.DISPATCH_POOLING_TRIP"
    bad = cmp.compare_table(rows, lambda g, f: "leave" if (g["n"] == 0 or f.get(replan)) else "refuse")
    ctx.check(not bad, "D4", "CMP.no-diversion", "ServicingPoolingTrip.exit succeeds iff the plan is finished or the next activity is a pooling re-plan", fn,
              why_bad=f"differs on {bad[:3]}", construct="ServicingPoolingTrip.exit:table")
    refusal_honoured(ctx)
    ctx.attempt(rules.rule_activity_writes, ctx, "D4")  # an activity written outside enter() never asks the trip's exit
    # terminal condition of ServicingTrip is the same predicate
    sc = states.state_class(repo, "ServicingTrip")
    t = repo.method(sc.cls, "_has_reached_terminal_state_condition")
    ps = [p for p in flow.paths(t.node) if p.kind == "return"]
    ok = len(ps) == 1
    if ok:
        rows = cmp.predicate_table(ps[0].value, {"len(self.route)": "n"}, grid=range(0, 4))
        ok = not cmp.compare_table(rows, lambda g, f: g["n"] == 0)
    ctx.check(ok, "D5", "CMP.no-diversion", "ServicingTrip is terminal iff len(route) == 0 (so the update after the drop-off leaves the activity)", t,
              why_bad="terminal condition differs", construct="ServicingTrip:terminal")


# enter sites that may run although the previous activity's exit refused: function -> reason
UNPAIRED_ENTER_ALLOWED = {
    "_go_out_of_service_on_empty": "running out of energy is the property's stated exception ('unless that vehicle runs out of energy')",
}


def refusal_honoured(ctx: Ctx):
    """D4: the refusal of a trip's exit is honoured wherever an activity is entered. Every call of
    `enter` is fed the state produced by the previous activity's exit (so a refusal leaves no state to
    enter on), is a delegation inside an enter, or sits in the out-of-energy helper, which is reached
    only from move() under `is_empty`."""
    repo = ctx.repo
    rules.rule_transition(ctx, "D4")
    idx = rules.index(repo)
    sites = [s for s in idx.calls("enter", refs=True) if rules.in_pkg(s) and not s.file.startswith("nrel/hive/resources")]
    n = 0
    for s in sites:
        fn = s.func
        if fn is None or s.kind == "ref":
            ctx.violation("D4", "TS.refusal-honoured", "enter referenced outside a call on a function path", file=s.file, line=s.line,
                          function=s.qual, why="an enter that may run without the carrying activity's exit agreeing", construct=f"enter-ref:{s.qual}")
            continue
        verdict = None
        for p in flow.paths(fn.node):
            for ev in p.events:
                if ev.raw is s.node:
                    arg = ev.call.args[0] if ev.call.args else None
                    v, why = rules._classify_enter_arg(fn, p, ev, arg, {"trip"}, ["ServicingTrip", "ServicingPoolingTrip"], ["ServicingTrip", "ServicingPoolingTrip"])
                    verdict = (v, why)
                    break
            if verdict:
                break
        n += 1
        inst = f"{fn.qualname}: enter site"
        poss = rules.possible_current_classes(repo, fn)
        if verdict and verdict[0] == "ok":
            ctx.ok("D4", "TS.refusal-honoured", inst, fn, s.node, verdict[1])
        elif poss is not None and not (poss & {"ServicingTrip", "ServicingPoolingTrip"}):
            ctx.ok("D4", "TS.refusal-honoured", inst, fn, s.node, f"reached only while the vehicle's activity is one of {sorted(poss)}: no passengers on board here")
        elif fn.qualname in UNPAIRED_ENTER_ALLOWED:
            ctx.ok("D4", "TS.refusal-honoured", inst, fn, s.node, "allowed: " + UNPAIRED_ENTER_ALLOWED[fn.qualname])
        else:
            ctx.violation("D4", "TS.refusal-honoured", inst, fn, s.node,
                          why=("an activity is entered here although a trip with passengers on board may have refused to be left: "
                               + (verdict[1] if verdict else "enter call not on an analysable path")),
                          construct=f"{fn.qualname}:enter-ignores-refusal")
    ctx.require(n >= 2, "fewer than two enter sites found")
    # the out-of-energy helper is reached only from move(), only when the battery is empty
    for name in UNPAIRED_ENTER_ALLOWED:
        def ok(s):
            f = s.func
            if f is None or f.qualname != "move":
                return None
            for p in flow.paths(f.node):
                for ev in p.events:
                    if ev.raw is s.node:
                        if any(pol is True and isinstance(a, ast.Call) and flow.dump(a.func).endswith(".is_empty") for a, pol in p.facts()):
                            return "move(), on the path where mechatronics.is_empty(...) holds"
                        return None
            return None
        rules.rule_callers(ctx, "D4", name, ok, f"{name} is reached only from move() when the battery is empty", 1)


def dropoff(ctx: Ctx, reported_only: bool = False):
    """reported_only (C19): only the clauses that decide WHETHER the drop-off (and with it its report) happens"""
    repo = ctx.repo
    drop = repo.func(SOPS, "drop_off_trip")

    def ok_drop(s):
        f = s.func
        if f is None:
            return None
        if f.relpath == ST and f.qualname == "ServicingTrip._perform_update":
            return "ServicingTrip._perform_update"
        if f.relpath == SOPS and f.qualname == "complete_trip_phase":
            return "complete_trip_phase"
        return None

    rules.rule_callers(ctx, "D5", "drop_off_trip", ok_drop, "drop_off_trip is called only at the end of a trip leg", 2,
                       skip=lambda s: s.file.endswith("vehicle_event_ops.py"))
    fn = repo.func(ST, "ServicingTrip._perform_update")
    sim, env = fn.params[1:3]
    n = 0
    for p in flow.paths(fn.node):
        for e in p.events:
            if e.name != "drop_off_trip" or e.deferred:
                continue
            n += 1
            a = [flow.dump(x) for x in e.call.args]
            moved = f"move({sim}, {env}, self.vehicle_id)[1]"
            ok_args = a == [moved, env, "self.vehicle_id", "self.request"]
            empty = gd.allowed_lengths(p.facts(), f"{moved}.vehicles.get(self.vehicle_id).vehicle_state.route") == {0}
            ctx.check(ok_args and empty, "D5", "DU.provenance", "ServicingTrip drops off its own request with its own vehicle, only when the moved vehicle's route is empty", fn, e.raw,
                      why_bad=f"drop_off_trip({', '.join(a)[:160]}) route-empty guard={empty}", construct="ServicingTrip._perform_update:dropoff")
            break
    ctx.require(n >= 1, "ServicingTrip._perform_update no longer drops off")
    # ... and ALWAYS then: a path on which the moved vehicle is still on its trip with an empty route must drop off (the next
    # update takes the terminal branch, so a drop-off skipped now never happens)
    moved_route = f"move({sim}, {env}, self.vehicle_id)[1].vehicles.get(self.vehicle_id).vehicle_state.route"
    for p in flow.paths(fn.node):
        if p.kind != "return" or flow.classify_result(p.value) == "error":
            continue
        # a condition such as `not (underway and len(route) == 0)` leaves a disjunction open: look at each case
        if flow.classify_result(p.value) in ("reject", "none"):
            continue
        def off_trip(case):
            # the path established that the moved vehicle is no longer on its trip: it went out of service / is in another activity
            for a, pol in case:
                d = flow.dump(a)
                if d.startswith("isinstance(") and d.endswith(".vehicle_state, ServicingTrip)") and pol is False:
                    return True
                if d.endswith(".vehicle_state.vehicle_state_type == VehicleStateType.OUT_OF_SERVICE") and pol is True:
                    return True
                if d.endswith(".vehicle_state.vehicle_state_type != VehicleStateType.OUT_OF_SERVICE") and pol is False:
                    return True
                if d.startswith("isinstance(") and d.endswith(".vehicle_state, OutOfService)") and pol is True:
                    return True
            return False
        if not any((not off_trip(case)) and 0 in gd.allowed_lengths(case, moved_route) for case in p.fact_cases()):
            continue  # the route cannot be empty here (or the vehicle is no longer on its trip)
        dropped = any(e.name == "drop_off_trip" and not e.deferred for e in p.events)
        ctx.check(dropped, "D5", "DU.provenance", "ServicingTrip._perform_update: whenever the moved vehicle's route is empty the passengers are dropped off in this very update", fn, p.end,
                  why_bad=f"path [{p.cond_text()[:260]}] finishes the route without calling drop_off_trip: the next update goes straight to the terminal transition, the request is never dropped off",
                  construct="ServicingTrip._perform_update:dropoff-skipped")
    if reported_only:
        return
    # destination check inside drop_off_trip (shared with C07-D5)
    from .c07 import dropoff as c07_dropoff
    c07_dropoff(ctx)
    ctx.attempt(c07_dropoff, ctx, True)


def cancellation(ctx: Ctx, timing: bool = True):
    """timing=True (C11): removal iff now >= departure + timeout, over every waiting request. timing=False (C03): only
    what 'resolved exactly once' needs — every path either keeps the state or returns remove_request's state for this
    request, and the fold threads its accumulator starting from the given state."""
    repo = ctx.repo
    outer = repo.func(CAN, "CancelRequests.update")
    fn = repo.func(CAN, "CancelRequests.update._remove_from_sim")
    sim, rid = fn.params[:2]
    T = f"{sim}.requests.get({rid}).departure_time + env.config.sim.request_cancel_time_seconds"  # (`requests[id]` reads as `.get(id)`, canon pass G)

    def label(p):
        if p.kind != "return":
            return p.kind
        removed = any(e.name == "remove_request" and not e.deferred for e in p.events)
        if isinstance(p.value, ast.Name) and p.value.id == sim:
            return "keep-after-failed-remove" if removed else "keep"
        if removed and flow.dump(p.value) == f"simulation_state_ops.remove_request({sim}, {rid})[1]":
            return "remove"
        return "other:" + flow.dump(p.value)[:60]

    rows = cmp.path_table(flow.paths(fn.node), {f"{sim}.sim_time": "now", T: "T"}, label, grid=range(0, 3))
    # a request id that is not in the state: the pinned code raises KeyError there (it subscripts sim.requests); the ids folded over are
    # the state's own, so the case is outside the property -- rows in which the request is absent are not judged
    ABSENT = {(f"{sim}.requests.get({rid}) is None", True), (f"{sim}.requests.get({rid}) is not None", False), (f"{sim}.requests.get({rid})", False),
              (f"not {sim}.requests.get({rid})", True), (f"{rid} not in {sim}.requests", True), (f"{rid} in {sim}.requests", False)}
    rows = [r for r in rows if not any((k, v) in ABSENT for k, v in r[1].items())]
    def spec(g, f):
        if g["now"] >= g["T"]:
            return None  # remove, unless remove_request itself failed (free atoms): checked below
        return "keep"
    if timing:
        bad = cmp.compare_table(rows, spec)
        late = [r for r in rows if r[0]["now"] >= r[0]["T"] and r[2] not in ("remove", "keep-after-failed-remove")]
        ctx.check(not bad and not late, "D6", "CMP.cancel", "a waiting request is removed iff now >= departure + timeout", fn,
                  why_ok=f"{len(rows)} assignments agree", why_bad=f"differs on {(bad or late)[:3]}", construct="_remove_from_sim:table",
                  witness={"bad": [str(b) for b in (bad or late)[:6]]})
    else:
        odd = sorted({r[2] for r in rows if r[2] not in ("keep", "remove", "keep-after-failed-remove")})
        ctx.check(not odd, "D6", "CMP.cancel", "every path of the cancel step keeps the state or returns remove_request's state for this very request", fn,
                  why_ok=f"{len(rows)} assignments, outcomes keep/remove only", why_bad=f"other outcomes {odd[:3]}", construct="_remove_from_sim:outcomes")
    rules.rule_fold_threading(ctx, "D6", outer, 1)
    # the fold ranges over every request id of the state
    ok = False
    for F, XS, INIT in rules.recognise_folds(outer):  # reduce(...) or the equivalent accumulator loop
        if flow.dump(F) == "_remove_from_sim":
            ok = flow.dump(INIT) == outer.params[1] and (not timing or flow.dump(XS) == f"{outer.params[1]}.get_request_ids()")
    ctx.check(ok, "D6", "CMP.cancel", "the cancel fold " + ("visits every request id of the state, " if timing else "") + "starts from the state it was given", outer,
              why_bad="fold shape changed", construct="CancelRequests.update:fold")


def selftest():
    from ..selftest import V
    VSF = "nrel/hive/state/vehicle_state/vehicle_state.py"
    return [
        V("exit-always", ST, "        if len(self.route) == 0:\n            return None, sim\n        else:\n            return None, None", "        if len(self.route) >= 0:\n            return None, sim\n        else:\n            return None, None", rule="CMP.no-diversion"),
        V("exit-idle-allowed", ST, "        if len(self.route) == 0:\n            return None, sim", "        if len(self.route) == 0 or next_state.vehicle_state_type == VehicleStateType.IDLE:\n            return None, sim", rule="CMP.no-diversion"),
        V("cancel-stale-state", CAN, "                ) = simulation_state_ops.remove_request(sim, request_id)", "                ) = simulation_state_ops.remove_request(simulation_state, request_id)", rule="DU.fold-threading"),
        V("cancel-returns-other-state", CAN, "                    env.reporter.file_report(_gen_report(request_id, sim))\n                    return updated_sim", "                    env.reporter.file_report(_gen_report(request_id, sim))\n                    return simulation_state", rule="CMP.cancel"),
        V("twin-cancel-late-is-c11s", CAN, "            if sim.sim_time < this_request_cancel_time:", "            if sim.sim_time <= this_request_cancel_time:", kind="twin"),
        V("new-consumer", "nrel/hive/state/vehicle_state/dispatch_trip.py", "            return None, idle_next_state", "            _ = simulation_state_ops.remove_request(sim, self.request_id)\n            return None, idle_next_state", rule="WMC.callers"),
        V("pickup-before-remove-returned", SOPS, "            return simulation_state_ops.remove_request(maybe_sim_with_vehicle, request_id)", "            simulation_state_ops.remove_request(maybe_sim_with_vehicle, request_id)\n            return None, maybe_sim_with_vehicle", rule="DU"),
        V("default-update-reupdates", VSF, "                        return updated_next_state._perform_update(updated_sim, env)", "                        return updated_next_state.update(updated_sim, env)", rule="ORD.terminal"),
        V("dropoff-not-empty-guard", ST, "            if len(moved_vehicle.vehicle_state.route) == 0:", "            if len(moved_vehicle.vehicle_state.route) <= 1:", rule="DU.provenance"),
        V("servicing-enter-any-prev", ST, "        elif not vehicle.vehicle_state.vehicle_state_type == VehicleStateType.DISPATCH_TRIP:", "        elif vehicle.vehicle_state.vehicle_state_type == VehicleStateType.SERVICING_TRIP:", rule="GD.PREV"),
        V("transition-forced-oos", EOPS, "    elif not exit_sim:\n        return None, None\n    else:\n        enter_error, enter_sim = next_state.enter(exit_sim, env)", "    elif not exit_sim and next_state.__class__.__name__ != \"OutOfService\":\n        return None, None\n    else:\n        enter_error, enter_sim = next_state.enter(exit_sim if exit_sim else sim, env)", rule="TS"),
        V("oos-helper-weakened-guard", "nrel/hive/state/vehicle_state/vehicle_state_ops.py", "        if mechatronics.is_empty(less_energy_vehicle):\n            # impossible to move, let's transition to OutOfService\n            return _go_out_of_service_on_empty(sim, env, vehicle_id)", "        if mechatronics.is_empty(less_energy_vehicle) or traverse_result.traversal_distance_km > 1000:\n            # impossible to move, let's transition to OutOfService\n            return _go_out_of_service_on_empty(sim, env, vehicle_id)", rule="WMC.callers"),
        V("oos-helper-unguarded", "nrel/hive/state/vehicle_state/vehicle_state_ops.py", "    if error:\n        return error, None\n    elif traverse_result is None:\n        return None, None\n", "    if error:\n        return error, None\n    elif traverse_result is None:\n        return _go_out_of_service_on_empty(sim, env, vehicle_id)\n", rule="WMC.callers"),
        V("pickup-report-divides", VEO, "        \"price\": request.value,\n        \"geoid\": geoid,", "        \"price\": request.value,\n        \"price_per_seat\": request.value / len(request.passengers),\n        \"geoid\": geoid,", rule="EV.swallowed"),
        V("pickup-report-looks-up", VEO, "        \"fleet_id\": request.membership,\n        \"vehicle_memberships\": vehicle.membership.to_json(),\n        \"price\": request.value,", "        \"fleet_id\": request.membership,\n        \"first_passenger\": request.passengers[0].id,\n        \"vehicle_memberships\": vehicle.membership.to_json(),\n        \"price\": request.value,", rule="EV.swallowed"),
        V("twin-pickup-report-const-division", VEO, "        \"price\": request.value,\n        \"geoid\": geoid,", "        \"price\": request.value,\n        \"price_cents\": request.value / 0.01,\n        \"geoid\": geoid,", kind="twin"),
        V("twin-pickup-report-guarded-division", VEO, "        \"price\": request.value,\n        \"geoid\": geoid,", "        \"price\": request.value,\n        \"price_per_seat\": request.value / len(request.passengers) if request.passengers else 0.0,\n        \"geoid\": geoid,", kind="twin"),
        V("twin-exit-mirror", ST, "        if len(self.route) == 0:\n            return None, sim\n        else:\n            return None, None", "        if len(self.route) != 0:\n            return None, None\n        else:\n            return None, sim", kind="twin"),
        V("twin-cancel-mirror", CAN, "            if sim.sim_time < this_request_cancel_time:", "            if not (sim.sim_time >= this_request_cancel_time):", kind="twin"),
    ] + _auto()


def _auto():
    from ..loader import Repo
    from .. import autovariants as av
    return av.compare_variants(Repo(), [(ST, "ServicingTrip.exit"), (ST, "ServicingTrip._has_reached_terminal_state_condition")])

