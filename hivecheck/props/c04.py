"""C04 — vehicle energy stays physical and fully accounted for (DU + BD + GD, sibling cross-check)."""
from __future__ import annotations

import ast
from typing import List, Optional, Tuple

from .. import AnalysisError, flow, states, cmp, rules
from ..loader import walk_stmts
from ..report import Ctx

BEV = "nrel/hive/model/vehicle/mechatronics/bev.py"
ICE = "nrel/hive/model/vehicle/mechatronics/ice.py"
PC = "nrel/hive/model/vehicle/mechatronics/powercurve/tabular_powercurve.py"
VO = "nrel/hive/state/vehicle_state/vehicle_state_ops.py"
VEH = "nrel/hive/model/vehicle/vehicle.py"
IDLE = "nrel/hive/state/vehicle_state/idle.py"
CQ = "nrel/hive/state/vehicle_state/charge_queueing.py"

EXPLANATION = (
    "For both MechatronicsInterface implementations (BEV, ICE) and each of consume_energy / idle / add_energy: the "
    "returned vehicle carries BOTH updates (new level via modify_energy, booking via tick_energy_expended/gained; "
    "no functional update is dropped), the booked amount is exactly old-new (resp. new-start) of the level that is "
    "stored, the stored level is max(0.0, .) resp. min(capacity, .), and the amount depends on the step duration "
    "passed in. move(): the consumed vehicle is committed only on the branch where is_empty(consumed) is false; the "
    "true branch returns the out-of-service transition; is_empty is 'level <= 0' (truth table); Idle's terminal "
    "condition is is_empty and its terminal state OutOfService. Charge quantum: in the powercurve loop the time "
    "quantum multiplying power is min(.., duration - t) (or the guard looks ahead), the same quantum advances t, "
    "and the power is min(curve, plug). Decides these structural clauses; positivity of consumption and float "
    "identities are data-dependent and not decided."
)

ENERGY_CAP = {"BEV": "self.battery_capacity_kwh", "ICE": "self.tank_capacity_gallons"}


def chain(e: ast.AST) -> Tuple[ast.AST, List[ast.Call]]:
    """`base.m1(a).m2(b)` -> (base, [m1-call, m2-call])"""
    calls = []
    while isinstance(e, ast.Call) and isinstance(e.func, ast.Attribute):
        calls.append(e)
        e = e.func.value
    return e, list(reversed(calls))


def map_single(e: ast.AST) -> Optional[Tuple[str, ast.AST]]:
    """immutables.Map({K: V}) -> (dump(K), V)"""
    if isinstance(e, ast.Call) and flow.dump(e.func) in ("immutables.Map", "Map") and len(e.args) == 1 and isinstance(e.args[0], ast.Dict) and len(e.args[0].keys) == 1:
        return flow.dump(e.args[0].keys[0]), e.args[0].values[0]
    return None


def run(ctx: Ctx):
    repo = ctx.repo
    for file, cname in ((BEV, "BEV"), (ICE, "ICE")):
        for meth, tick, kind in (("consume_energy", "tick_energy_expended", "down"), ("idle", "tick_energy_expended", "down"),
                                 ("add_energy", "tick_energy_gained", "up")):
            fn = repo.func(file, f"{cname}.{meth}")
            mechatronics_method(ctx, fn, cname, meth, tick, kind)
        empties(ctx, repo.func(file, f"{cname}.is_empty"), cname)
    vehicle_setters(ctx)
    move_rule(ctx)
    ctx.attempt(out_of_energy_helper, ctx)
    idle_rule(ctx)
    quantum(ctx)
    durations(ctx)
    writers(ctx)
    # base case of "level = initial + gained - expended": both tallies of a new vehicle start at zero at every construction site
    ctx.attempt(rules.rule_initial_tallies, ctx, "D7", {"Vehicle": ["energy_gained", "energy_expended"]})
    ctx.attempt(rate_range, ctx)
    ctx.floor("DU.both-updates", 6)
    ctx.floor("DU.booked-equals-delta", 6)
    ctx.floor("BD.clamp", 6)
    ctx.not_decided += ["strictly positive consumption for a positive distance/time (depends on table data)",
                        "charging never lowers the level (sign of rates: data)", "the running-balance identity as a float equation"]


def mechatronics_method(ctx: Ctx, fn, cname, meth, tick, kind, bounds: bool = True):
    """bounds=False (C05): only the bookkeeping clauses (both updates present, booked = delta); the clamps and the dependence on
    the duration are C04's own clauses."""
    veh = fn.params[1]
    n = 0
    for p in flow.paths(fn.node):
        if p.kind != "return" or p.value is None:
            continue
        v = p.value
        if meth == "add_energy":
            if not (isinstance(v, ast.Tuple) and len(v.elts) == 2):
                ctx.violation("D1", "DU.both-updates", f"{cname}.{meth}: unrecognised return", fn, p.end, why=flow.dump(v)[:80], construct=f"{cname}.{meth}:return-shape")
                continue
            v = v.elts[0]
            if isinstance(v, ast.Name) and v.id == veh:
                # invalid charger: unchanged vehicle, zero time — must be guarded by `not valid_charger`
                ok = any(flow.dump(a).startswith("self.valid_charger(") and pol is False for a, pol in p.facts())
                ctx.check(ok, "D1", "DU.both-updates", f"{cname}.add_energy returns the vehicle unchanged only for an invalid charger", fn, p.end,
                          why_bad=f"unchanged vehicle returned under [{p.cond_text()[:100]}]", construct=f"{cname}.add_energy:unchanged")
                continue
        n += 1
        base, calls = chain(v)
        names = [c.func.attr for c in calls]
        inst = f"{cname}.{meth}"
        both = isinstance(base, ast.Name) and base.id == veh and sorted(names) == sorted(["modify_energy", tick])
        ctx.check(both, "D1", "DU.both-updates", f"{inst}: returned vehicle = vehicle.modify_energy(..).{tick}(..)", fn, p.end,
                  why_ok="both functional updates are on the returned value",
                  why_bad=f"returned vehicle is {flow.dump(v)[:160]}: updates applied = {names} on base {flow.dump(base)[:40]} (a functional update was dropped or applied to the wrong vehicle)",
                  construct=f"{inst}:updates:{','.join(sorted(names))}")
        if not both:
            continue
        me = next(c for c in calls if c.func.attr == "modify_energy")
        tk = next(c for c in calls if c.func.attr == tick)
        m1 = map_single(me.args[0]) if me.args else None
        m2 = map_single(tk.args[0]) if tk.args else None
        if m1 is None or m2 is None:
            raise AnalysisError(f"{inst}: energy maps are not single-key immutables.Map literals")
        (k1, new), (k2, booked) = m1, m2
        old = f"{veh}.energy[{k1}]"
        want = f"{old} - {flow.dump(new)}" if kind == "down" else f"{flow.dump(new)} - {old}"
        ctx.check(k1 == k2 and flow.dump(booked) == want, "D2", "DU.booked-equals-delta",
                  f"{inst}: booked amount = {'old - new' if kind == 'down' else 'new - start'} of the stored level (same energy type)", fn, p.end,
                  why_bad=f"stores {flow.dump(new)[:80]} under {k1} but books {flow.dump(booked)[:120]} under {k2}",
                  construct=f"{inst}:booked")
        if not bounds:
            continue
        # clamp
        if kind == "down":
            ok = isinstance(new, ast.Call) and flow.dump(new.func) == "max" and len(new.args) == 2 and any(
                isinstance(a, ast.Constant) and a.value == 0 for a in new.args) and any(
                isinstance(a, ast.BinOp) and isinstance(a.op, ast.Sub) and flow.dump(a.left) == old for a in new.args)
            ctx.check(ok, "D3", "BD.clamp", f"{inst}: stored level = max(0.0, old - used)", fn, p.end,
                      why_bad=f"stored level {flow.dump(new)[:100]}", construct=f"{inst}:clamp")
        else:
            cap = ENERGY_CAP[cname]
            ok = isinstance(new, ast.Call) and flow.dump(new.func) == "min" and len(new.args) == 2 and any(flow.dump(a) == cap for a in new.args)
            ctx.check(ok, "D3", "BD.clamp", f"{inst}: stored level = min(capacity, .)", fn, p.end,
                      why_bad=f"stored level {flow.dump(new)[:100]}", construct=f"{inst}:clamp")
            # amount depends on the duration parameter and starts from the current level
            other = [a for a in new.args if flow.dump(a) != cap][0] if ok else None
            dur = fn.params[3]
            dep = other is not None and flow.mentions(other, dur) and old in flow.dump(other)
            ctx.check(dep, "D5", "BD.duration", f"{inst}: energy added depends on the step duration `{dur}` and starts from the current level", fn, p.end,
                      why_bad=f"added amount {flow.dump(other)[:120] if other is not None else '?'} ignores the duration or the current level",
                      construct=f"{inst}:duration")
        if meth in ("idle",):
            dur = fn.params[2]
            used = [a for a in new.args if isinstance(a, ast.BinOp)][0] if isinstance(new, ast.Call) and any(isinstance(a, ast.BinOp) for a in new.args) else None
            ctx.check(used is not None and flow.mentions(used.right, dur), "D5", "BD.duration", f"{inst}: idle consumption is proportional to the step duration `{dur}`", fn, p.end,
                      why_bad="idle amount ignores the duration", construct=f"{inst}:duration")
        if meth == "consume_energy":
            route = fn.params[2]
            used = [a for a in new.args if isinstance(a, ast.BinOp)][0] if isinstance(new, ast.Call) and any(isinstance(a, ast.BinOp) for a in new.args) else None
            ctx.check(used is not None and f"self.powertrain.energy_cost({route})" in flow.dump(used.right), "D5", "BD.duration",
                      f"{inst}: consumption is the powertrain's energy cost of the driven route", fn, p.end,
                      why_bad="consumed amount is not energy_cost(route)", construct=f"{inst}:route-cost")
    if n == 0:
        raise AnalysisError(f"{cname}.{meth}: no updating return path")


def empties(ctx: Ctx, fn, cname):
    ps = [p for p in flow.paths(fn.node) if p.kind == "return"]
    if len(ps) != 1:
        raise AnalysisError(f"{cname}.is_empty: unrecognised shape")
    veh = fn.params[1]
    terms = {}
    for n in ast.walk(ps[0].value):
        if isinstance(n, ast.Subscript) and flow.dump(n.value) == f"{veh}.energy":
            terms[flow.dump(n)] = "e"
    if len(terms) != 1:
        raise AnalysisError(f"{cname}.is_empty: cannot bind the energy term")
    rows = cmp.predicate_table(ps[0].value, terms, grid=range(-1, 3))
    bad = cmp.compare_table(rows, lambda g, f: g["e"] <= 0)
    ctx.check(not bad, "D4", "CMP.is-empty", f"{cname}.is_empty: true iff level <= 0", fn, why_bad=f"differs on {bad[:3]}", construct=f"{cname}.is_empty")


def vehicle_setters(ctx: Ctx):
    repo = ctx.repo
    spec = {
        "modify_energy": "replace(self, energy={0})",
        "tick_energy_expended": "replace(self, energy_expended=immutables.Map({{k: self.energy_expended[k] + {0}[k] for k in self.energy.keys()}}))",
        "tick_energy_gained": "replace(self, energy_gained=immutables.Map({{k: self.energy_gained[k] + {0}[k] for k in self.energy.keys()}}))",
    }
    for m, pat in spec.items():
        fn = repo.func(VEH, f"Vehicle.{m}")
        ps = [p for p in flow.paths(fn.node) if p.kind == "return"]
        want = pat.format(fn.params[1])
        ok = len(ps) == 1 and flow.dump(ps[0].value) == flow.dump(flow.pat(want))
        ctx.check(ok, "D2", "DU.setter", f"Vehicle.{m} = {want[:70]}", fn, why_bad=f"returns {flow.dump(ps[0].value)[:160] if ps else '?'}", construct=f"Vehicle.{m}")


def out_of_energy_helper(ctx: Ctx):
    """The helper move() hands an emptied vehicle to really takes it out of service: every path that is not an error returns
    OutOfService's enter (on the state the previous activity's exit produced, or, when that activity refuses to be left, on the state
    at hand) — never `(None, None)` and never a transition that a refusing exit can veto."""
    fn = ctx.repo.func(VO, "_go_out_of_service_on_empty")
    n = 0
    for p in flow.paths(fn.node):
        if p.kind != "return":
            continue
        k = flow.classify_result(p.value)
        if k == "error":
            continue
        n += 1
        v = flow.core(p.value)
        ok = isinstance(v, ast.Call) and isinstance(v.func, ast.Attribute) and v.func.attr == "enter" and flow.dump(v.func.value).startswith("OutOfService.build(")
        ctx.check(ok, "D3", "GD.out-of-energy", "_go_out_of_service_on_empty ends in OutOfService.enter on every path that is not an error", fn, p.end,
                  why_ok="delegates to OutOfService(...).enter",
                  why_bad=f"path [{p.cond_text()[:200]}] returns `{flow.dump(p.value)[:100]}`: an activity that refuses to be left (passengers on board) vetoes the transition, the emptied "
                          f"vehicle stays in its activity for good",
                  construct="_go_out_of_service_on_empty:" + ("refusable" if k != "ok" else "other"))
    ctx.require(n >= 1, "_go_out_of_service_on_empty: no non-error path")


def move_rule(ctx: Ctx):
    repo = ctx.repo
    fn = repo.func(VO, "move")
    sim, env, vid = fn.params[:3]
    n_commit = n_oos = 0
    for p in flow.paths(fn.node):
        if p.kind != "return":
            continue
        consumed = [e for e in p.events if e.name == "consume_energy" and not e.deferred]
        if not consumed:
            continue
        c = consumed[0].call
        empty_atom = None
        for a, pol in p.facts():
            # the tested vehicle is the consumed one or derives from it by further functional updates (same energy)
            if isinstance(a, ast.Call) and getattr(a.func, "attr", "") == "is_empty" and a.args and ast.dump(c) in states.subtree_dumps(a.args[0]):
                empty_atom = pol
        k = flow.classify_result(p.value)
        commits = [e for e in p.events if e.name == "modify_vehicle" and not e.deferred]
        if commits:
            n_commit += 1
            derived = any(ast.dump(c) in states.subtree_dumps(e.call) for e in commits)
            moves = any(flow.calls_in(e.call, "modify_position") or flow.calls_in(e.call, "tick_distance_traveled_km") for e in commits)
            if empty_atom is True and not moves and any(flow.calls_in(e.call, "_go_out_of_service_on_empty") for e in commits):
                # the emptied vehicle is committed where it stood, in the activity the out-of-service helper gave it: it
                # stops and goes out of service (whether the rest of the helper's state is kept is C17's / C09's clause)
                ctx.ok("D4", "GD.out-of-energy", "move: an empty vehicle is committed without moving, in the out-of-service helper's activity", fn, p.end)
                n_oos += 1
                continue
            ctx.check(empty_atom is False and derived, "D4", "GD.out-of-energy", "move commits the consumed vehicle only when is_empty(consumed) is false", fn, p.end,
                      why_bad=f"path [{p.cond_text()[:300]}] commits a moved vehicle " + ("without testing is_empty on the consumed vehicle" if empty_atom is not False else "that does not derive from the consumed vehicle"),
                      construct="move:commit-without-empty-test")
        elif empty_atom is True:
            n_oos += 1
            call = f"_go_out_of_service_on_empty({sim}, {env}, {vid})"
            v = p.value
            ok = isinstance(v, ast.Call) and flow.dump(v) == call
            if not ok and isinstance(v, ast.Tuple) and len(v.elts) == 2:
                # the helper's pair handed on slot by slot, or its error alone on a path that found one
                d0, d1 = flow.dump(v.elts[0]), flow.dump(v.elts[1])
                ok = d0 == f"{call}[0]" and d1 in (f"{call}[1]", "None")
            ctx.check(ok, "D4", "GD.out-of-energy", "move: an empty vehicle is sent out of service instead of moving on", fn, p.end,
                      why_bad=f"returns {flow.dump(p.value)[:120]}", construct="move:empty-branch")
    if n_commit < 1:
        ctx.soft_fail("move: no path commits the consumed vehicle")
    if n_oos < 1:
        ctx.violation("D4", "GD.out-of-energy", "move: no branch tests is_empty on the consumed vehicle and leaves through the out-of-service transition", fn,
                      why="a vehicle whose consumption empties it keeps moving", construct="move:no-empty-branch")
    g = repo.func(VO, "_go_out_of_service_on_empty")
    ok = False
    for p in flow.paths(g.node):
        if p.kind == "return" and isinstance(p.value, ast.Call) and getattr(p.value.func, "attr", "") == "enter":
            ok = flow.dump(p.value.func.value) == f"OutOfService.build({g.params[2]})"
        elif p.kind == "return" and isinstance(p.value, ast.Call) and getattr(p.value.func, "attr", getattr(p.value.func, "id", "")) == "transition_previous_to_next" \
                and len(p.value.args) >= 4:
            ok = flow.dump(p.value.args[3]) == f"OutOfService.build({g.params[2]})"  # through the generic transition: same target
    ctx.check(ok, "D4", "GD.out-of-energy", "_go_out_of_service_on_empty enters OutOfService for that vehicle", g, why_bad="target state changed", construct="_go_out_of_service_on_empty:target")


def idle_rule(ctx: Ctx):
    repo = ctx.repo
    sc = states.state_class(repo, "Idle")
    cond = repo.method(sc.cls, "_has_reached_terminal_state_condition")
    ok = False
    for p in flow.paths(cond.node):
        if p.kind == "return" and not isinstance(p.value, ast.Constant):
            d = states.ndump(p.value, {"self": "SELF", "sim": "SIM", "env": "ENV"})
            ok = "ENV.mechatronics.get(SIM.vehicles.get(SELF.vehicle_id).mechatronics_id).is_empty(SIM.vehicles.get(SELF.vehicle_id))" in d
    ctx.check(ok, "D4", "GD.out-of-energy", "Idle: terminal iff the vehicle is empty", cond, why_bad="terminal condition is not is_empty(this vehicle)", construct="Idle:terminal-cond")
    t = repo.method(sc.cls, "_default_terminal_state")
    oks = [p for p in flow.paths(t.node) if p.kind == "return" and flow.classify_result(p.value) == "ok"]
    ok = bool(oks) and all(flow.dump(p.value.elts[1]) == "OutOfService.build(self.vehicle_id)" for p in oks)
    ctx.check(ok, "D4", "GD.out-of-energy", "Idle: default terminal state is OutOfService", t, why_bad="other terminal state", construct="Idle:terminal-state")
    # idling is committed: Idle / ChargeQueueing _perform_update commit mechatronics.idle(vehicle, step duration)
    for cname in ("Idle", "ChargeQueueing"):
        sc = states.state_class(repo, cname)
        pu = repo.method(sc.cls, "_perform_update")
        ok = True
        n_succ = 0
        for p in flow.paths(pu.node):
            if p.kind == "return" and flow.classify_result(p.value) in ("delegate", "ok", "pair"):
                n_succ += 1
                d = states.ndump(p.value, {"self": "SELF", "sim": "SIM", "env": "ENV"})
                # every non-failing result contains the commit of idle(this vehicle, the state's step duration)
                ok = ok and "simulation_state_ops.modify_vehicle(SIM, " in d and ".idle(SIM.vehicles.get(SELF.vehicle_id), SIM.sim_timestep_duration_seconds)" in d
        ok = ok and n_succ >= 1
        ctx.check(ok, "D1", "DU.idle-committed", f"{cname}._perform_update commits idle(this vehicle, step duration)", pu,
                  why_bad="idle result not committed / other duration", construct=f"{cname}:idle-commit")


def quantum(ctx: Ctx):
    """D5: the powercurve integration never integrates past the step's duration."""
    fn = ctx.repo.func(PC, "TabularPowercurve.charge")
    dur = fn.params[4]
    loops = [s for s in walk_stmts(fn.node) if isinstance(s, ast.While)]
    if len(loops) != 1:
        raise AnalysisError("TabularPowercurve.charge: expected exactly one integration loop")
    loop = loops[0]
    # the loop guard: t < duration (t = the time accumulator)
    tvar = None
    for c in ast.walk(loop.test):
        if isinstance(c, ast.Compare) and len(c.ops) == 1 and isinstance(c.ops[0], (ast.Lt, ast.LtE)) and flow.dump(c.comparators[0]) == dur and isinstance(c.left, ast.Name):
            tvar = c.left.id
    lookahead = None
    for c in ast.walk(loop.test):
        if isinstance(c, ast.Compare) and len(c.ops) == 1 and isinstance(c.ops[0], ast.LtE) and flow.dump(c.comparators[0]) == dur and isinstance(c.left, ast.BinOp):
            lookahead = c.left
            for n in ast.walk(c.left):
                if isinstance(n, ast.Name):
                    tvar = tvar or n.id
    if tvar is None:
        raise AnalysisError("TabularPowercurve.charge: cannot find the time accumulator in the loop guard")
    # environment before the loop (for quanta hoisted out of the loop)
    pre = {}
    for p in flow.paths(fn.node):
        if any(c.raw is loop and c.pol == "iter" for c in p.conds):
            pass
    pre_stmts = []
    for s in fn.node.body:
        if s is loop:
            break
        pre_stmts.append(s)
    pre_env = {}
    pp = flow.paths_of_block(pre_stmts) if pre_stmts else []
    if pp:
        stored = {n.id for n in ast.walk(loop) if isinstance(n, ast.Name) and isinstance(n.ctx, ast.Store)}
        pre_env = {k: v for k, v in pp[-1].env.items() if k not in stored and not any(flow.mentions(v, x) for x in stored)}
    bps = [p for p in flow.paths_of_block(loop.body, pre_env) if p.kind == "fall"]
    ctx.require(len(bps) >= 1, "TabularPowercurve.charge: loop body has no fall-through path")
    for p in bps:
        t_new = p.env.get(tvar)
        ok_t = isinstance(t_new, ast.BinOp) and isinstance(t_new.op, ast.Add) and isinstance(t_new.left, ast.Name) and t_new.left.id == tvar
        if not ok_t:
            raise AnalysisError("TabularPowercurve.charge: time accumulator is not advanced by `t += quantum`")
        q = t_new.right
        bounded = isinstance(q, ast.Call) and flow.dump(q.func) == "min" and any(flow.dump(a) in (f"{dur} - {tvar}",) for a in q.args)
        la = lookahead is not None and flow.dump(lookahead) == f"{tvar} + {flow.dump(q)}"
        ctx.check(bounded or la, "D5", "BD.quantum", "each integration quantum is min(.., duration - t) (or the guard looks ahead by the quantum)", fn, loop,
                  why_ok=f"quantum = {flow.dump(q)[:80]}",
                  why_bad=f"quantum = {flow.dump(q)[:100]} is not bounded by the time remaining in the step: the last iteration integrates past `{dur}` "
                          f"whenever the duration is not a multiple of the quantum", construct="TabularPowercurve.charge:quantum")
        # the energy increment uses the same quantum and a power bounded by the plug
        e_new = None
        for name, val in p.env.items():
            if name != tvar and isinstance(val, ast.BinOp) and isinstance(val.op, ast.Add) and isinstance(val.left, ast.Name) and val.left.id == name:
                e_new = val
        if e_new is None:
            raise AnalysisError("TabularPowercurve.charge: cannot find the energy accumulator")
        inc = flow.dump(e_new.right)
        same_q = flow.dump(q) in inc
        plug = fn.params[3]
        pw = f"min(" in inc and plug in inc
        ctx.check(same_q, "D5", "BD.quantum", "the energy increment multiplies power by the same quantum that advances the clock", fn, loop,
                  why_bad=f"increment {inc[:160]} does not use the quantum {flow.dump(q)[:60]}", construct="TabularPowercurve.charge:increment-quantum")
        if not pw and any(isinstance(a_, ast.Assign) and any(isinstance(t_, ast.Subscript) for t_ in a_.targets) and plug in flow.dump(a_) for a_ in ast.walk(fn.node)):
            raise AnalysisError(f"TabularPowercurve.charge: the plug power `{plug}` bounds the curve through an array store, a form this rule does not evaluate")
        ctx.check(pw, "D5", "BD.quantum", f"charging power is min(curve power, plug power `{plug}`)", fn, loop,
                  why_bad=f"increment {inc[:160]}", construct="TabularPowercurve.charge:power-bound")


def durations(ctx: Ctx):
    """charge() passes the state's own step duration to add_energy; BEV hands it to the powercurve."""
    repo = ctx.repo
    fn = repo.func(VO, "charge")
    sim = fn.params[0]
    ok = False
    for p in flow.paths(fn.node):
        for e in p.calls("add_energy"):
            ok = len(e.call.args) >= 3 and flow.dump(e.call.args[2]) == f"{sim}.sim_timestep_duration_seconds"
    ctx.check(ok, "D5", "BD.duration", "charge(): add_energy receives the state's own sim_timestep_duration_seconds", fn,
              why_bad="other duration passed", construct="charge:duration")
    # the plug whose rate bounds the step is the station's OWN instance of that plug type (its rate can be throttled
    # locally), not the environment's prototype
    ok = False
    got = "?"
    sid, cid = fn.params[3:5]
    for p in flow.paths(fn.node):
        for e in p.calls("add_energy"):
            if len(e.call.args) >= 2:
                got = states.ndump(e.call.args[1])
                ok = got == f"{sim}.stations.get({sid}).get_charger_instance({cid})[1]"
    ctx.check(ok, "D5", "BD.plug-instance", "charge(): the charger given to add_energy is the station's own instance of the plug (whose rate is what the plug can deliver)", fn,
              why_bad=f"add_energy charges with {got[:100]}: a plug throttled at the station would still deliver its factory rate", construct="charge:plug-instance")
    fn = repo.func(BEV, "BEV.add_energy")
    dur = fn.params[3]
    ok = False
    for p in flow.paths(fn.node):
        for e in p.events:
            if e.name == "charge" and flow.dump(e.call.func) == "self.powercurve.charge":
                kw = {k.arg: flow.dump(k.value) for k in e.call.keywords}
                ok = kw.get("duration_seconds") == dur or (len(e.call.args) >= 4 and flow.dump(e.call.args[3]) == dur)
    ctx.check(ok, "D5", "BD.duration", "BEV.add_energy passes its duration to the powercurve", fn, why_bad="powercurve gets another duration", construct="BEV.add_energy:powercurve-duration")


def writers(ctx: Ctx):
    repo = ctx.repo
    def mech(s):
        f = s.func
        if f is not None and f.relpath in (BEV, ICE) and f.name in ("consume_energy", "idle", "add_energy"):
            return "mechatronics consume/idle/add_energy"
        return None
    for m in ("modify_energy", "tick_energy_expended", "tick_energy_gained"):
        rules.rule_callers(ctx, "D2", m, mech, f"{m} is called only by the mechatronics implementations", 2)


def selftest():
    from ..selftest import V
    return [
        V("ice-dead-store", ICE, "        updated_vehicle = updated_vehicle.tick_energy_expended(\n            immutables.Map({EnergyType.GASOLINE: vehicle_energy_gal_gas - new_energy_gal_gas})\n        )\n        return updated_vehicle\n\n    def idle",
          "        updated_vehicle = vehicle.tick_energy_expended(\n            immutables.Map({EnergyType.GASOLINE: vehicle_energy_gal_gas - new_energy_gal_gas})\n        )\n        return updated_vehicle\n\n    def idle", rule="DU.both-updates"),
        V("ice-idle-books-nominal", ICE, "            immutables.Map({EnergyType.GASOLINE: vehicle_energy_gal_gas - new_energy_gal_gas})\n        )\n\n        return updated_vehicle",
          "            immutables.Map({EnergyType.GASOLINE: idle_energy_gal_gas})\n        )\n\n        return updated_vehicle", rule="DU.booked-equals-delta"),
        V("bev-no-floor", BEV, "        new_energy_kwh = max(0.0, vehicle_energy_kwh - energy_used_kwh)", "        new_energy_kwh = vehicle_energy_kwh - energy_used_kwh", rule="BD.clamp"),
        V("bev-no-cap", BEV, "            new_energy_kwh = min(self.battery_capacity_kwh, charger_energy_kwh)\n            time_charging_seconds = time_seconds", "            new_energy_kwh = charger_energy_kwh\n            time_charging_seconds = time_seconds", rule="BD.clamp"),
        V("move-no-empty-branch", VO, "        if mechatronics.is_empty(less_energy_vehicle):", "        if mechatronics.is_empty(vehicle):", rule="GD.out-of-energy"),
        V("is-empty-strict", BEV, "        return vehicle.energy[EnergyType.ELECTRIC] <= 0", "        return vehicle.energy[EnergyType.ELECTRIC] < 0", rule="CMP.is-empty"),
        V("quantum-whole-step", PC, "            step_seconds = min(self.step_size_seconds, duration_seconds - t)", "            step_seconds = self.step_size_seconds", rule="BD.quantum"),
        V("quantum-hoisted", PC, "        t = 0\n        energy_kwh = start_soc\n", "        t = 0\n        energy_kwh = start_soc\n        step_seconds = min(self.step_size_seconds, duration_seconds)\n", rule="BD.quantum",
          more=((PC, "            step_seconds = min(self.step_size_seconds, duration_seconds - t)\n", ""),)),
        V("power-unbounded", PC, "            charge_power_kw = min(veh_kw_rate, power_kw)  # kilowatt", "            charge_power_kw = veh_kw_rate  # kilowatt", rule="BD.quantum"),
        V("charge-other-duration", VO, "            vehicle, charger, sim.sim_timestep_duration_seconds\n", "            vehicle, charger, 60\n", rule="BD.duration"),
        V("idle-terminal-never", IDLE, "        return not vehicle or mechatronics.is_empty(vehicle)", "        return not vehicle", rule="GD.out-of-energy"),
        V("twin-chain-order", BEV, "        updated_vehicle = vehicle.modify_energy(\n            immutables.Map({EnergyType.ELECTRIC: new_energy_kwh})\n        )\n        updated_vehicle = updated_vehicle.tick_energy_expended(\n            immutables.Map({EnergyType.ELECTRIC: vehicle_energy_kwh - new_energy_kwh})\n        )\n        return updated_vehicle\n\n    def idle",
          "        updated_vehicle = vehicle.tick_energy_expended(\n            immutables.Map({EnergyType.ELECTRIC: vehicle_energy_kwh - new_energy_kwh})\n        )\n        updated_vehicle = updated_vehicle.modify_energy(\n            immutables.Map({EnergyType.ELECTRIC: new_energy_kwh})\n        )\n        return updated_vehicle\n\n    def idle", kind="twin"),
        V("twin-empty-mirror", ICE, "        return vehicle.energy[EnergyType.GASOLINE] <= 0", "        return not vehicle.energy[EnergyType.GASOLINE] > 0", kind="twin"),
    ] + _auto()


def _auto():
    from ..loader import Repo
    from .. import autovariants as av
    return av.compare_variants(Repo(), [(BEV, "BEV.is_empty"), (ICE, "ICE.is_empty")])



TPT = "nrel/hive/model/vehicle/mechatronics/powertrain/tabular_powertrain.py"


def rate_range(ctx: Ctx):
    """BD.rate-range — 'driving a positive distance uses a positive amount of energy' is data-dependent (the table's values), but ONE
    structural part is not: the rate that multiplies the distance must be a value the table itself spans. np.interp holds the end
    values outside the table (trusted); a table element is in range trivially; a hand-written interpolation is in range only where
    the speed is clamped to / tested against the table's ends — otherwise it extrapolates, and an extrapolated rate is unbounded
    (zero or negative for some legal table and link speed: the level rises while driving)."""
    fn = ctx.repo.func(TPT, "TabularPowertrain.link_cost")
    n = 0
    for p in flow.paths(fn.node):
        if p.kind != "return" or p.value is None:
            continue
        factors = []

        def flat(e):
            e = flow.core(e)
            if isinstance(e, ast.BinOp) and isinstance(e.op, ast.Mult):
                flat(e.left)
                flat(e.right)
            else:
                factors.append(e)
        flat(p.value)
        rate = [f for f in factors if "consumption_energy_per_distance" in flow.dump(f)]
        if len(rate) != 1:
            raise AnalysisError(f"link_cost: cannot single out the per-distance rate in `{flow.dump(p.value)[:120]}`")
        r = rate[0]
        while isinstance(r, ast.Call) and isinstance(r.func, ast.Name) and r.func.id == "float" and len(r.args) == 1:
            r = flow.core(r.args[0])
        n += 1
        d = flow.dump(r)
        inst = "link_cost: the consumption rate is a value spanned by the powertrain's own table"
        if isinstance(r, ast.Call) and flow.dump(r.func) in ("np.interp", "numpy.interp") and len(r.args) >= 3:
            ok = flow.dump(r.args[1]) == "self.consumption_speed" and flow.dump(r.args[2]) == "self.consumption_energy_per_distance" and not any(k.arg in ("left", "right", "period") for k in r.keywords)
            ctx.check(ok, "D8", "BD.rate-range", inst, fn, p.end, why_ok="np.interp over (consumption_speed, consumption_energy_per_distance): holds the end values outside the table",
                      why_bad=f"np.interp is given other tables / end values: {d[:160]}", construct="link_cost:interp-args")
            continue
        if isinstance(r, ast.Subscript) and "consumption_energy_per_distance" in flow.dump(r.value):
            ctx.ok("D8", "BD.rate-range", inst, fn, p.end, why="an element of the table")
            continue
        arith = any(isinstance(x, ast.BinOp) for x in ast.walk(r))
        if arith:
            # the speed must be boxed in by the table's ends: either clamped by min/max or tested on this path against table elements
            names = {x.id for x in ast.walk(r) if isinstance(x, ast.Name)}
            speed_terms = [flow.dump(x) for x in ast.walk(r) if isinstance(x, (ast.Name, ast.Attribute, ast.BinOp)) and "speed_kmph" in flow.dump(x) and "consumption" not in flow.dump(x)]
            def _is_clamp(x):
                # min/max applied to the speed VALUE and a row of the speed column (a clamp of the looked-up INDEX does not bound the speed)
                if not (isinstance(x, ast.Call) and isinstance(x.func, ast.Name) and x.func.id in ("min", "max") and len(x.args) >= 2):
                    return False
                sp = [a for a in x.args if "speed_kmph" in flow.dump(a) and not any(isinstance(y, ast.Call) and flow.dump(y.func).split(".")[-1] in
                      ("bisect", "bisect_right", "bisect_left", "searchsorted", "index", "len") for y in ast.walk(a) if y is not a or not _is_clamp(a))]
                row = [a for a in x.args if isinstance(flow.core(a), ast.Subscript) and "consumption_speed" in flow.dump(flow.core(a).value)]
                return bool(sp) and bool(row)
            clamps = [x for x in ast.walk(r) if _is_clamp(x)]
            clamped = any(x.func.id == "min" for x in clamps) and any(x.func.id == "max" for x in clamps)
            lower = upper = False
            for c in p.conds:
                if not isinstance(c.pol, bool) or c.test is None:
                    continue
                for cmpn in [x for x in ast.walk(c.test) if isinstance(x, ast.Compare) and len(x.ops) == 1]:
                    l, rr = flow.dump(cmpn.left), flow.dump(cmpn.comparators[0])
                    if ("speed_kmph" in l and "consumption_speed" in rr) or ("speed_kmph" in rr and "consumption_speed" in l):
                        if "[0]" in l + rr:
                            lower = True
                        if "[-1]" in l + rr or "len(" in l + rr:
                            upper = True
            ctx.check(clamped or (lower and upper), "D8", "BD.rate-range", inst, fn, p.end,
                      why_ok="the speed is boxed in by the table's first and last row on this path",
                      why_bad=f"the rate is computed as `{d[:140]}` with no bound on the link speed against the table's first and last row: outside the table it extrapolates, "
                              f"so for a table that is still falling at its end a fast link costs zero or negative energy (the vehicle gains energy by driving)",
                      construct="link_cost:extrapolates")
            continue
        raise AnalysisError(f"link_cost: rate `{d[:120]}` is neither np.interp over the table, a table element, nor arithmetic the rule can bound")
    ctx.require(n >= 1, "TabularPowertrain.link_cost: no return path")
