"""C20 — human drivers follow their shift schedule (CMP truth tables + EV + ORD + GD)."""
from __future__ import annotations

import ast

from .. import AnalysisError, flow, states, cmp, gd, rules
from ..report import Ctx

TH = "nrel/hive/util/time_helpers.py"
TRS = "nrel/hive/model/vehicle/schedules/time_range_schedule.py"
HDS = "nrel/hive/state/driver_state/human_driver_state/human_driver_state.py"
DS = "nrel/hive/state/driver_state/driver_state.py"
SSO = "nrel/hive/state/simulation_state/update/step_simulation_ops.py"
DISP = "nrel/hive/dispatcher/instruction_generator/dispatcher.py"

EXPLANATION = (
    "time_in_range(start, end, x) is interpreted over all 64 assignments of three terms on a 0..3 grid (every weak "
    "ordering): start < end => start <= x < end; start > end => x >= start or x < end. The schedule function hands "
    "(shift start, shift end, time of day of the state's own sim_time) to it in that order. Both driver update "
    "methods are evaluated over {schedule exists, schedule says on}: the next driver class is available <=> on "
    "shift (unchanged without a schedule), and a shift event is filed exactly on the flipping paths, OFF with "
    "HumanUnavailable, ON with HumanAvailable, for this vehicle. Driver updates are the first phase of a step, run "
    "for every vehicle on the un-ticked state, and instruction generation sees their result; the dispatcher's "
    "vehicle filter requires driver_state.available. Decides these structural clauses; time-zone semantics of "
    "utcfromtimestamp are not decided."
)



def _dispatcher_filter(repo, getter: str, default_name: str):
    """The function the dispatcher hands to get_vehicles / get_requests as `filter_function` (by role, not by name): the nested
    function of that name where it still exists, else whatever callable is passed."""
    from .. import rules as _rules
    solve = repo.func(DISP, "Dispatcher.generate_instructions._solve_assignment")
    f = repo.func_opt(DISP, f"Dispatcher.generate_instructions._solve_assignment.{default_name}")
    if f is not None:
        return f
    f = _rules.callable_argument(repo, solve, getter, "filter_function")
    if f is None:
        raise AnalysisError(f"_solve_assignment: no filter_function handed to {getter}")
    return f

def run(ctx: Ctx):
    ctx.attempt(in_range, ctx)
    ctx.attempt(schedule_fn, ctx)
    ctx.attempt(updates, ctx)
    ctx.attempt(available_props, ctx)
    ctx.attempt(phases, ctx)
    ctx.attempt(driver_updates_total, ctx)
    ctx.attempt(driver_step_adopts, ctx)
    ctx.attempt(dispatcher_avail, ctx)
    ctx.floor("CMP.time-in-range", 1)
    ctx.floor("CMP.shift-flip", 2)
    ctx.not_decided += ["time-zone / utcfromtimestamp semantics", "multi-day numeric runs"]


def driver_step_adopts(ctx: Ctx):
    """The per-vehicle step of the driver phase hands on the state the driver's update produced whenever it produced one (no error,
    a state): a flipped test there discards every shift change while each update function, looked at alone, is right."""
    repo = ctx.repo
    fn = repo.func_opt(SSO, "perform_driver_state_updates._step_drivers")
    if fn is None:
        from .. import rules as _r
        outer = repo.func(SSO, "perform_driver_state_updates")
        folds = _r.recognise_folds(outer)
        ctx.require(bool(folds), "perform_driver_state_updates: the fold over the vehicles was not found")
        fn = _r.resolve_callable(repo, outer, folds[0][0])
        ctx.require(fn is not None, "perform_driver_state_updates: reducer cannot be resolved")
    acc, veh = fn.params[:2]
    upd = f"{veh}.driver_state.update({acc}, env)"
    n = 0
    for p in flow.paths(fn.node):
        if p.kind != "return":
            continue
        facts = {(flow.dump(a), pol) for a, pol in p.facts()}
        err_ruled_out = (f"{upd}[0]", False) in facts or (f"$isnone({upd}[0])", True) in facts
        state_present = (f"{upd}[1]", True) in facts or (f"$isnone({upd}[1])", False) in facts
        if err_ruled_out and state_present:
            n += 1
            ctx.check(flow.dump(p.value) == f"{upd}[1]", "D3", "DU.driver-commit", "the driver phase hands on the state a driver's update produced", fn, p.end,
                      why_bad=f"with no error and a state at hand the step returns `{flow.dump(p.value)[:80]}`: the driver's update (availability flip, shift event's state) is thrown away",
                      construct="_step_drivers:adopt")
    # the complementary paths must not claim the update's state either way; at least one adopting path has to exist
    ctx.require(n >= 1 or any(flow.dump(p.value) == f"{upd}[1]" for p in flow.paths(fn.node) if p.kind == "return"), "perform_driver_state_updates: no path adopts the driver update's state")
    if n == 0:
        ctx.violation("D3", "DU.driver-commit", "the driver phase hands on the state a driver's update produced", fn,
                      why="no path on which the update returned a state without error hands that state on", construct="_step_drivers:adopt-missing")


def in_range(ctx: Ctx):
    fn = ctx.repo.func(TH, "time_in_range")
    s, e, x = fn.params[:3]

    def label(p):
        return "other"

    rows = []
    paths = flow.paths(fn.node)
    for asg in cmp.assignments(["s", "e", "x"], range(0, 4)):
        tb = {s: asg["s"], e: asg["e"], x: asg["x"]}
        def run(ev):
            p = cmp.taken_path(paths, ev)
            if p is None or p.kind != "return":
                return "<none>"
            return ev.truth(p.value)
        for free, val in cmp.eval_with_free(run, tb):
            rows.append((asg, free, val))

    def spec(g, f):
        if g["s"] < g["e"]:
            return g["s"] <= g["x"] < g["e"]
        if g["s"] > g["e"]:
            return g["x"] >= g["s"] or g["x"] < g["e"]
        return None

    bad = cmp.compare_table(rows, spec)
    ctx.check(not bad, "D1", "CMP.time-in-range", "time_in_range: start inclusive, end exclusive, wraps past midnight", fn,
              why_ok=f"{len(rows)} assignments (all orderings of start/end/x) agree with the specified table",
              why_bad=f"{len(bad)} assignments differ, e.g. {bad[:3]}", construct="time_in_range:table", witness={"bad": [str(b) for b in bad[:8]]})
    ctx.extra["time_in_range_rows"] = len(rows)


def schedule_fn(ctx: Ctx):
    repo = ctx.repo
    outer = repo.func(TRS, "read_time_range_row")
    inner = repo.func(TRS, "read_time_range_row._schedule_fn")
    env0 = flow.closure_env(outer.node, "_schedule_fn")
    row = outer.params[1]
    ps = [p for p in flow.paths(inner.node, env0) if p.kind == "return"]
    sim = inner.params[0]
    want = (f"time_in_range(read_time_string({row}.get('start_time')), read_time_string({row}.get('end_time')), "
            f"datetime.utcfromtimestamp({sim}.sim_time).time())")
    ok = flow.values_match(ps, want)
    ctx.check(ok, "D1", "DU.schedule-args", "the schedule function tests (shift start, shift end, time of day of the state's sim_time) in that order", inner,
              why_bad=f"returns {flow.dump(ps[0].value)[:220] if ps else '?'}", construct="_schedule_fn:args")
    # stored under the row's schedule id
    ok = False
    for p in flow.paths(outer.node):
        if p.kind == "return":
            ok = flow.dump(p.value) == f"{outer.params[0]}.set({row}.get('schedule_id'), _schedule_fn)"
    ctx.check(ok, "D1", "DU.schedule-args", "the schedule function is stored under the row's schedule id", outer, why_bad="shape changed", construct="read_time_range_row:set")


def updates(ctx: Ctx):
    repo = ctx.repo
    for cname, want_flip, ev_type, next_cls in (("HumanAvailable", lambda has, on: has and not on, "ScheduleEventType.OFF", "HumanUnavailable"),
                                                 ("HumanUnavailable", lambda has, on: has and on, "ScheduleEventType.ON", "HumanAvailable")):
        fn = repo.func(HDS, f"{cname}.update")
        sim, env = fn.params[1:3]
        sched = f"{env}.schedules.get(self.attributes.schedule_id)"
        on = f"{sched}({sim}, self.attributes.vehicle_id)"
        veh = f"{sim}.vehicles.get(self.attributes.vehicle_id)"

        def label(p, sim=sim, env=env, veh=veh, ev_type=ev_type, next_cls=next_cls):
            if p.kind != "return":
                return p.kind
            k = flow.classify_result(p.value)
            reports = [e for e in p.events if e.name == "file_report" and not e.deferred]
            if k == "ok" and flow.dump(p.value.elts[1]) == sim:
                return "stay" if not reports else "stay+event"
            if k == "error":
                return "error" if not reports else "error+event"
            if k == "delegate":
                v = p.value
                good = (isinstance(v, ast.Call) and flow.dump(v.func).endswith("apply_new_driver_state") and len(v.args) == 3 and flow.dump(v.args[0]) == sim
                        and flow.dump(v.args[1]) == "self.attributes.vehicle_id" and isinstance(v.args[2], ast.Call) and flow.dump(v.args[2].func) == next_cls
                        and flow.dump(v.args[2].args[0]) == "self.attributes")
                rep_ok = len(reports) == 1 and flow.dump(reports[0].call.args[0]) == f"driver_schedule_event({sim}, {env}, {veh}, {ev_type})"
                if good and rep_ok:
                    return "flip"
                return "flip-bad:" + ("state " if not good else "") + ("event" if not rep_ok else "")
            return "other"

        paths = flow.paths(fn.node)
        import itertools
        extras: list = []  # branch conditions outside (schedule exists, on shift, vehicle exists): free, both values tried
        while True:
            rows = []
            again = False
            for has, o, vok in itertools.product((False, True), repeat=3):
                for xv in itertools.product((False, True), repeat=len(extras)):
                    free = {sched: has, on: o, veh: vok}
                    free.update(dict(zip(extras, xv)))
                    evl = cmp.Evaluator({}, free)
                    try:
                        p = cmp.taken_path(paths, evl)
                    except cmp.Unknown as u:
                        d = flow.dump(u.node)
                        if d in extras or len(extras) >= 3:
                            raise AnalysisError(f"{cname}.update: branch condition cannot be evaluated: {d[:80]}")
                        extras.append(d)
                        again = True
                        break
                    rows.append(((has, o, vok) + tuple(xv), label(p) if p is not None else "<none>"))
                if again:
                    break
            if not again:
                break
        bad = []
        for (has, o, vok, *_xv), lab in rows:
            flip = want_flip(has, o)
            if flip and vok:
                want = "flip"
            elif flip and not vok:
                want = "error"
            else:
                want = ("stay", "error") if not vok else ("stay",)
            if (lab != want) if isinstance(want, str) else (lab not in want):
                bad.append(((has, o, vok) + tuple(_xv), lab, want))
        ctx.check(not bad, "D2", "CMP.shift-flip", f"{cname}.update: class flips to {next_cls} with one {ev_type} event exactly when the schedule says so", fn,
                  why_ok="8 valuations of (schedule exists, on shift, vehicle exists) agree",
                  why_bad=f"(has_schedule, on_shift, vehicle{''.join(', ' + x[:50] for x in extras)}) -> got vs want: {bad[:4]}", construct=f"{cname}.update:table", witness={"rows": [str(r) for r in rows]})
    # apply_new_driver_state commits the new driver state on that vehicle
    fn = repo.func(DS, "DriverState.apply_new_driver_state")
    sim, vid, st = fn.params[1:4]
    ok = False
    for p in flow.paths(fn.node):
        if p.kind == "return" and flow.classify_result(p.value) == "delegate":
            ok = flow.dump(p.value) == f"simulation_state_ops.modify_vehicle({sim}, {sim}.vehicles.get({vid}).modify_driver_state({st}))"
    ctx.check(ok, "D2", "DU.driver-commit", "apply_new_driver_state stores the new driver state on that vehicle and commits it", fn, why_bad="shape changed", construct="apply_new_driver_state")
    rules.rule_callers(ctx, "D2", "apply_new_driver_state", lambda s: "human driver update" if s.func is not None and s.func.relpath == HDS and s.func.name == "update" else None,
                       "driver classes change only in the two human update methods", 2)
    rules.rule_callers(ctx, "D2", "modify_driver_state", lambda s: "apply_new_driver_state" if s.func is not None and s.func.qualname == "DriverState.apply_new_driver_state" else None,
                       "modify_driver_state is called only by apply_new_driver_state", 1)


def driver_updates_total(ctx: Ctx):
    """perform_driver_state_updates falls back to the state from BEFORE the driver phase when one driver's update yields an
    error or no state (tabled fold exception, rules.FOLD_EXCEPTIONS). That is harmless only while no driver update can yield
    'no state': every `update` of every DriverState class returns a state on each non-error path."""
    repo = ctx.repo
    n = 0
    for c in repo.subclasses("DriverState"):
        fn = repo.method(c, "update")
        if fn is None or fn.cls is None or fn.cls.name != c.name:
            continue
        for p in flow.paths(fn.node):
            if p.kind != "return":
                continue
            k = flow.classify_result(p.value)
            n += 1
            ctx.check(k in ("ok", "error", "delegate", "pair"), "D3", "DU.driver-update-total", f"{c.name}.update yields a state on every non-error path", fn, p.end,
                      why_bad=f"path [{p.cond_text()[:200]}] returns {flow.dump(p.value)[:60]}: perform_driver_state_updates then restarts from the state before the driver phase, "
                              f"throwing away the shift flips of every driver processed earlier in the step (their on/off events were already filed)",
                      construct=f"{c.name}.update:no-state")
    ctx.require(n >= 6, f"driver update paths: only {n} found")


def available_props(ctx: Ctx):
    repo = ctx.repo
    for cname, want in (("HumanAvailable", True), ("HumanUnavailable", False)):
        fn = repo.func(HDS, f"{cname}.available")
        ps = [p for p in flow.paths(fn.node) if p.kind == "return"]
        ok = len(ps) == 1 and isinstance(ps[0].value, ast.Constant) and ps[0].value.value is want
        ctx.check(ok, "D2", "CMP.available", f"{cname}.available is {want}", fn, why_bad="changed", construct=f"{cname}.available")


def phases(ctx: Ctx):
    repo = ctx.repo
    from .c09 import step_phases
    step_phases(ctx, generators_must_see_driver_updates=True)
    outer = repo.func(SSO, "perform_driver_state_updates")
    inner = repo.func(SSO, "perform_driver_state_updates._step_drivers")
    s0 = outer.params[0]
    rets = [p for p in flow.paths(outer.node) if p.kind == "return"]
    bad_p = [p for p in rets if flow.dump(p.value) != f"ft.reduce(_step_drivers, {s0}.get_vehicles(), {s0})"]
    ctx.check(bool(rets) and not bad_p, "D3", "ORD.driver-phase", "on EVERY path the driver phase folds the update over every vehicle of the state, starting from that state", outer,
              bad_p[0].end if bad_p else None,
              why_bad=(f"path [{bad_p[0].cond_text()[:160]}] returns `{flow.dump(bad_p[0].value)[:80]}` without stepping the drivers: on those steps nobody goes on or off shift and no "
                       f"shift event is filed, whatever the schedule says") if bad_p else "no return",
              construct="perform_driver_state_updates:fold")
    acc, v = inner.params[:2]
    ok = False
    for p in flow.paths(inner.node):
        if p.kind == "return" and flow.dump(p.value) == f"{v}.driver_state.update({acc}, env)[1]":
            ok = True
    ctx.check(ok, "D3", "ORD.driver-phase", "each driver's update runs on the accumulated state and its result is adopted", inner, why_bad="shape changed", construct="_step_drivers:adopt")
    rules.rule_fold_threading(ctx, "D3", outer, 1)
    # tick happens after: sim_time read by the schedule is the un-ticked one (checked by ORD.phases shape: tick is outermost)


def dispatcher_avail(ctx: Ctx):
    fn = _dispatcher_filter(ctx.repo, "get_vehicles", "_is_valid_for_dispatch")
    v = fn.params[0]
    acc = gd.accepting_paths(fn)
    ctx.require(len(acc) >= 1, "_is_valid_for_dispatch has no accepting path")
    for p, atoms in acc:
        ok = gd.has_atom(atoms, gd.truthy(f"{v}.driver_state.available"))
        ctx.check(ok, "D4", "GD.AVAIL", "_is_valid_for_dispatch accepts only vehicles whose driver is available", fn, p.end,
                  why_bad=f"accepting path [{p.cond_text()[:200]}] does not require driver_state.available", construct="_is_valid_for_dispatch:AVAIL")


def selftest():
    from ..selftest import V
    return [
        V("end-inclusive", TH, "        return start <= x < end", "        return start <= x <= end", rule="CMP.time-in-range"),
        V("wrap-and", TH, "        return start <= x or x < end", "        return start <= x and x < end", rule="CMP.time-in-range"),
        V("wrap-gap-inclusive", TH, "        return start <= x or x < end", "        return not (end < x < start)", rule="CMP.time-in-range"),
        V("flip-without-event", HDS, "            report = driver_schedule_event(sim, env, vehicle, ScheduleEventType.OFF)\n            env.reporter.file_report(report)\n", "", rule="CMP.shift-flip"),
        V("event-wrong-type", HDS, "            report = driver_schedule_event(sim, env, vehicle, ScheduleEventType.ON)", "            report = driver_schedule_event(sim, env, vehicle, ScheduleEventType.OFF)", rule="CMP.shift-flip"),
        V("stay-on-when-off", HDS, "        if not schedule_function or schedule_function(sim, self.attributes.vehicle_id):\n            # stay available", "        if not schedule_function or not schedule_function(sim, self.attributes.vehicle_id):\n            # stay available", rule="CMP.shift-flip"),
        V("schedule-args-swapped", TRS, "        within_scheduled_time = time_in_range(start_time, end_time, sim_time)", "        within_scheduled_time = time_in_range(end_time, start_time, sim_time)", rule="DU.schedule-args"),
        V("generators-before-drivers", "nrel/hive/state/simulation_state/update/step_simulation.py", "            self.ordered_instruction_generators, sim_with_drivers_updated, env", "            self.ordered_instruction_generators, simulation_state, env", rule="ORD.phases"),
        V("dispatcher-ignores-available", DISP, "                elif not vehicle.driver_state.available:\n                    return False\n", "", rule="GD.AVAIL"),
        V("unavailable-is-available", HDS, "    @property\n    def available(cls):\n        return False", "    @property\n    def available(cls):\n        return True", rule="CMP.available"),
        V("twin-chained", TH, "        return start <= x < end", "        return start <= x and x < end", kind="twin"),
        V("twin-wrap-mirror", TH, "        return start <= x or x < end", "        return x >= start or not (x >= end)", kind="twin"),
    ] + _auto()


def _auto():
    from ..loader import Repo
    from .. import autovariants as av
    # `start <= end` vs `start < end` differ only for start == end, which the property leaves unconstrained (equivalent)
    return av.compare_variants(Repo(), [(TH, "time_in_range")], skip=("time_in_range:9:",))

