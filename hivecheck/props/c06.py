"""C06 — vehicles move continuously (bookkeeping, partition, split, leaving): DU provenance + CMP."""
from __future__ import annotations

import ast

from .. import AnalysisError, flow, states, cmp, rules, gd
from ..report import Ctx

VO = "nrel/hive/state/vehicle_state/vehicle_state_ops.py"
RT = "nrel/hive/model/roadnetwork/routetraversal.py"
LT = "nrel/hive/model/roadnetwork/linktraversal.py"

EXPLANATION = (
    "move() bookkeeping by provenance: the committed vehicle's position is (link_id, end) of the LAST experienced "
    "link, its stored route is the traversal's remaining_route, its odometer grows by the traversal's "
    "traversal_distance_km, the traversal is computed from the vehicle's own route, the state's own step duration "
    "and road network; the no-traversal branch only resets the route. Partition in traverse/RouteTraversal: each "
    "link of the plan goes to exactly one of experienced / remaining / split(both), distance accumulates the "
    "traversed part, early returns yield the empty traversal, the fold visits the plan in order from (None, "
    "RouteTraversal(remaining_time=duration)). Split in traverse_up_to: whole link iff travel_time <= available "
    "(truth table) with the time difference left over; otherwise traversed = (start -> mid), remaining = (mid -> "
    "end) on the same link id with no time left. Leaving: the terminal condition of the six route-carrying "
    "activities is len(route) == 0 and default_update transitions in the update that finds it. Position and "
    "odometer change only in move(). Decides these structural clauses; the speed bound, per-step progress and "
    "odometer exactness on partially covered street links are geometric/numeric and not decided."
)


def run(ctx: Ctx):
    ctx.attempt(move_bookkeeping, ctx)
    ctx.attempt(move_rejections, ctx)
    ctx.attempt(moved_means_counted, ctx)
    ctx.attempt(partition, ctx)
    ctx.attempt(split, ctx)
    ctx.attempt(link_time, ctx)
    ctx.attempt(leaving, ctx)
    ctx.attempt(arrival_enterable, ctx)
    # the vehicle-update phase threads its state: what one vehicle's update produced is what the next vehicle is stepped on, and a failed
    # update keeps what the earlier vehicles of the step did (a reducer that falls back to the phase's initial state undoes them all)
    ctx.attempt(rules.rule_fold_threading, ctx, "D2", ctx.repo.func("nrel/hive/state/simulation_state/update/step_simulation_ops.py", "perform_vehicle_state_updates"), 1)
    from . import c02 as _c02
    ctx.attempt(_c02.stall_test, ctx)  # the test the arrival at a base relies on
    # continuity at the start of a journey: move() drives a route from the route's own first link, so a travelling activity may only be
    # entered with a route that begins at the vehicle's cell — the entry guard of each such activity, and the validator it relies on
    from .. import guards
    from . import c07
    ctx.attempt(guards.rule_enter_guards, ctx, "START", "D7")
    ctx.attempt(c07.validator, ctx, True)
    ctx.floor("DU.move", 4)
    ctx.floor("DU.partition", 5)
    ctx.floor("DU.split", 3)
    ctx.not_decided += ["speed bound / progress every step / exact odometer on partially covered street links (geometric, numeric)"]


def _chain(e: ast.AST, methods=None):
    """x.m1(a).m2(b) -> (x, [(m1, call1), (m2, call2)]); only methods in `methods` are peeled when given"""
    steps = []
    while isinstance(e, ast.Call) and isinstance(e.func, ast.Attribute) and (methods is None or e.func.attr in methods):
        steps.append((e.func.attr, e))
        e = e.func.value
    return e, list(reversed(steps))


def _arg(call: ast.Call, kw: str):
    for k in call.keywords:
        if k.arg == kw:
            return k.value
    return call.args[0] if call.args else None


def _move_parts(committed: ast.AST, consumed: str, trav: str, vmethods):
    """Judge the committed vehicle of move() part by part -> {part: (ok, what was found)}. The vehicle is a chain of
    modifiers on the consumed vehicle; each property reads only the parts it depends on."""
    base, steps = _chain(committed, vmethods)
    by = {}
    for nm, c in steps:
        by.setdefault(nm, []).append(c)
    out = {}
    out["energy"] = (flow.dump(base) == consumed, flow.dump(base)[:160])
    pos = by.get("modify_position", [])
    want_pos = f"EntityPosition({trav}.experienced_route[-1].link_id, {trav}.experienced_route[-1].end)"
    out["position"] = (len(pos) == 1 and _arg(pos[0], "position") is not None and flow.dump(_arg(pos[0], "position")) == want_pos,
                       flow.dump(_arg(pos[0], "position"))[:160] if pos and _arg(pos[0], "position") is not None else f"{len(pos)} modify_position calls")
    odo = by.get("tick_distance_traveled_km", [])
    out["odometer"] = (len(odo) == 1 and odo[0].args and flow.dump(odo[0].args[0]) == f"{trav}.traversal_distance_km",
                       flow.dump(odo[0].args[0])[:160] if odo and odo[0].args else f"{len(odo)} odometer ticks")
    st = by.get("modify_vehicle_state", [])
    ok_r, found = False, f"{len(st)} modify_vehicle_state calls"
    if len(st) == 1 and steps and steps[-1][1] is st[0]:
        a = _arg(st[0], "vehicle_state")
        found = flow.dump(a)[:160] if a is not None else "?"
        if isinstance(a, ast.Call) and isinstance(a.func, ast.Attribute) and a.func.attr == "update_route":
            r = _arg(a, "route")
            recv = a.func.value
            # the activity whose route is replaced is the moving vehicle's own activity
            own = isinstance(recv, ast.Attribute) and recv.attr == "vehicle_state" and flow.dump(_chain(recv.value, vmethods)[0]) in (consumed, flow.dump(base))
            ok_r = r is not None and flow.dump(r) == f"{trav}.remaining_route" and own
    out["route"] = (ok_r, found)
    known = {"modify_position", "tick_distance_traveled_km", "modify_vehicle_state"}
    extra = [nm for nm, _ in steps if nm not in known]
    out["nothing-else"] = (not extra, f"further modifiers {extra}")
    return out


ALL_PARTS = ("energy", "position", "odometer", "route", "nothing-else")


def move_rejections(ctx: Ctx):
    """move() hands back no state — `(None, None)`, which its callers read as "nothing to do" and return on before the drop-off / the
    arrival — only when the traversal itself produced none. A vehicle whose route is already finished still gets its (empty) route
    written back and a state returned, so that the activity's own update (drop-off, terminal transition) runs on it."""
    fn = ctx.repo.func(VO, "move")
    n = 0
    for p in flow.paths(fn.node):
        if p.kind != "return" or flow.classify_result(p.value) not in ("reject", "none"):
            continue
        n += 1
        deciding = [c for c in p.conds if isinstance(c.pol, bool) and c.test is not None and flow._const_truth(c.test) is None]
        last = deciding[-1] if deciding else None
        k, kpol = flow._atom_key(last.test) if last is not None else ("", True)
        if last is not None and last.pol is False:
            kpol = not kpol
        ok = last is not None and k.startswith("traverse(") and k.endswith("[1] is None") and kpol is True
        ctx.check(ok, "D1", "DU.move", "move() returns no state only when the traversal produced none", fn, p.end,
                  why_ok="decided by the traversal's own result",
                  why_bad=f"move() returns (None, None) because `{('' if kpol else 'not ') + k[:120]}`: its callers treat that as 'nothing happened' and return before acting on the moved "
                          f"vehicle — a trip whose route is already finished is never dropped off, an arrival never handed over",
                  construct=f"move:reject:{k[:80]}")
    return n


def move_bookkeeping(ctx: Ctx, parts=ALL_PARTS):
    fn = ctx.repo.func(VO, "move")
    sim, env, vid = fn.params[:3]
    veh = f"{sim}.vehicles.get({vid})"
    trav = f"traverse(route_estimate={veh}.vehicle_state.route, duration_seconds=int({sim}.sim_timestep_duration_seconds), road_network={sim}.road_network)[1]"
    mech = f"{env}.mechatronics.get({veh}.mechatronics_id)"
    consumed = f"{mech}.consume_energy({veh}, {trav}.experienced_route)"
    moved = (f"{consumed}.modify_position(position=EntityPosition({trav}.experienced_route[-1].link_id, {trav}.experienced_route[-1].end))"
             f".tick_distance_traveled_km({trav}.traversal_distance_km)")
    final = f"{moved}.modify_vehicle_state({moved}.vehicle_state.update_route(route={trav}.remaining_route))"
    reset = f"{veh}.modify_vehicle_state({veh}.vehicle_state.update_route(route=empty_route()))"
    n_move = n_reset = 0
    for p in flow.paths(fn.node):
        if p.kind != "return":
            continue
        commits = [e for e in p.events if e.name == "modify_vehicle" and not e.deferred]
        if not commits:
            continue
        if flow.classify_result(p.value) == "error":
            continue
        c = commits[-1].call
        d = flow.dump(c.args[1]) if len(c.args) > 1 else "?"
        s_ok = flow.dump(c.args[0]) == sim
        traversed = any(flow.dump(a) == f"{trav}.experienced_route" and pol is True for a, pol in p.facts())
        if any(pol is True and isinstance(a, ast.Call) and flow.dump(a.func) == f"{mech}.is_empty" and a.args and consumed in flow.dump(a.args[0]) for a, pol in p.facts()):
            continue  # the out-of-energy branch: the vehicle does not travel on; what it may commit there is C04-D4's clause
        if traversed:
            n_move += 1
            vcls = ctx.repo.cls("nrel/hive/model/vehicle/vehicle.py", "Vehicle")
            vmethods = {f.name for f in ctx.repo.all_funcs() if f.cls is not None and f.cls.name == "Vehicle" and f.relpath == vcls.relpath}
            judged = _move_parts(c.args[1], consumed, trav, vmethods) if len(c.args) > 1 else {}
            LABEL = {"energy": "the committed vehicle is the consumed vehicle", "position": "position = end of the last experienced link",
                     "odometer": "odometer += the traversal's distance", "route": "the activity's route = the remaining route",
                     "nothing-else": "no other modifier is applied"}
            ctx.check(s_ok, "D1", "DU.move", "move(): the commit is made on the state move() was given", fn, p.end, why_bad=f"commits to {flow.dump(c.args[0])[:80]}", construct="move:bookkeeping:state")
            for part in parts:
                okp, found = judged.get(part, (False, "?"))
                ctx.check(bool(okp), "D1", "DU.move", f"move(): {LABEL[part]}", fn, p.end,
                          why_bad=f"found {found}; committed vehicle {d[:300]}", construct=f"move:bookkeeping:{part}")
        else:
            n_reset += 1
            reset2 = f"{veh}.modify_vehicle_state({veh}.vehicle_state.update_route(route={trav}.remaining_route))"
            ctx.check(s_ok and d in (reset, reset2), "D1", "DU.move", "move(): with nothing traversed only the route is reset (to the empty route); position, odometer and energy unchanged", fn, p.end,
                      why_bad=f"commits {d[:300]}", construct="move:no-traversal-branch")
        ok_ret = flow.classify_result(p.value) == "ok" and flow.dump(p.value.elts[1]) == f"{flow.dump(c)}[1]"
        ctx.check(ok_ret, "D1", "DU.move", "move() returns the state produced by the commit", fn, p.end, why_bad=f"returns {flow.dump(p.value)[:100]}", construct="move:return")
    if n_move < 1 or n_reset < 1:
        ctx.soft_fail(f"move(): expected a traversed and a not-traversed commit path (found {n_move}/{n_reset})")
    # only move() changes position / odometer
    rules.rule_callers(ctx, "D1", "modify_position", lambda s: "move" if s.func == fn else None, "positions change only in move()", 1)
    rules.rule_callers(ctx, "D1", "tick_distance_traveled_km", lambda s: "move" if s.func == fn else None, "the odometer advances only in move()", 1)
    def pos_writer(s):
        f = s.func
        if f is None:
            return None
        if f.relpath.endswith("model/vehicle/vehicle.py") and f.name in ("modify_position", "from_row", "build"):
            return "Vehicle.modify_position / constructor"
        return None
    def owner(s):
        n = s.node
        if isinstance(n, ast.Call):
            nm = n.func.attr if isinstance(n.func, ast.Attribute) else getattr(n.func, "id", "")
            return nm in ("replace", "Vehicle") and (nm == "Vehicle" or (n.args and flow.dump(n.args[0]) == "self" and s.file.endswith("vehicle.py")))
        return False
    rules.rule_field_writers(ctx, "D1", "distance_traveled_km", pos_writer if False else (lambda s: "Vehicle.tick_distance_traveled_km / constructor" if s.func is not None and s.func.relpath.endswith("model/vehicle/vehicle.py") else None),
                             "distance_traveled_km is written only inside Vehicle", 1, owner_hint=owner)


def _commits_param(repo, callee, pname: str, depth: int = 2) -> bool:
    """`callee` writes the vehicle it is given as `pname` (or a modifier chain on it) into a simulation state: modify_vehicle(<state>, <that>)"""
    aliases = {pname}
    for _ in range(3):
        for n in ast.walk(callee.node):
            if isinstance(n, ast.Assign) and len(n.targets) == 1 and isinstance(n.targets[0], ast.Name):
                b, _st = _chain(n.value)
                if isinstance(b, ast.Name) and b.id in aliases:
                    aliases.add(n.targets[0].id)
    for n in ast.walk(callee.node):
        if isinstance(n, ast.Call):
            nm = n.func.attr if isinstance(n.func, ast.Attribute) else getattr(n.func, "id", "")
            args = list(n.args) + [k.value for k in n.keywords]
            if nm in ("modify_vehicle", "modify_vehicle_safe", "add_vehicle", "add_vehicle_safe"):
                for a in args:
                    b, _st = _chain(a)
                    if isinstance(b, ast.Name) and b.id in aliases:
                        return True
            elif depth > 0:
                c2 = repo.resolve_call(callee.module, n) or (callee.module.funcs.get(n.func.id) if isinstance(n.func, ast.Name) else None)
                if c2 is not None and not isinstance(c2.node, ast.Lambda):
                    ps = c2.params
                    pairs = [(ps[i], a) for i, a in enumerate(n.args) if i < len(ps)] + [(k.arg, k.value) for k in n.keywords if k.arg in ps]
                    for pn, a in pairs:
                        b, _st = _chain(a)
                        if isinstance(b, ast.Name) and b.id in aliases and _commits_param(repo, c2, pn, depth - 1):
                            return True
    return False


def moved_means_counted(ctx: Ctx):
    """Position and odometer move together, whoever writes the vehicle back: on every path of move(), a vehicle value on which
    `modify_position` was applied and that is committed -- by move() itself or by a package function move() hands it to and that writes
    its parameter into the state (the out-of-energy helper) -- also carries `tick_distance_traveled_km(<the traversal's distance>)`."""
    fn = ctx.repo.func(VO, "move")
    n = 0
    for p in flow.paths(fn.node):
        for e in p.events:
            c = e.call
            if not isinstance(c, ast.Call):
                continue
            nm = e.name
            handed = []
            if nm in ("modify_vehicle", "modify_vehicle_safe"):
                handed = list(c.args[1:2]) + [k.value for k in c.keywords if k.arg in ("updated_vehicle", "vehicle")]
            else:
                callee = ctx.repo.resolve_call(fn.module, c) or (fn.module.funcs.get(c.func.id) if isinstance(c.func, ast.Name) else None)
                if callee is None or isinstance(callee.node, ast.Lambda):
                    continue
                ps = callee.params
                for pn, a in [(ps[i], a) for i, a in enumerate(c.args) if i < len(ps)] + [(k.arg, k.value) for k in c.keywords if k.arg in ps]:
                    if any(isinstance(x, ast.Attribute) and x.attr == "modify_position" for x in ast.walk(a)) and _commits_param(ctx.repo, callee, pn):
                        handed.append(a)
            for a in handed:
                base, steps = _chain(a)
                names = [m for m, _c in steps]
                if "modify_position" not in names:
                    continue
                n += 1
                ok = "tick_distance_traveled_km" in names
                ctx.check(ok, "D1", "DU.move", f"move(): the vehicle written back through {nm} with a new position has its odometer advanced too", fn, c,
                          why_bad=f"`{flow.dump(a)[:200]}` is written into the state by {nm} with the position of the stretch driven but without tick_distance_traveled_km: "
                                  f"the vehicle has changed place and its odometer (and the distance its move events sum to) has not",
                          construct=f"move:moved-without-odometer:{nm}")
    if n < 1:
        ctx.soft_fail("move(): no committed vehicle with a new position found")


def partition(ctx: Ctx, progress: bool = True):
    """progress=True (C06): an early return of traverse() yields the empty traversal (the vehicle is done). progress=False
    (C07): handing the whole plan back as remaining is as consistent with the vehicle's position as handing back nothing."""
    repo = ctx.repo
    # who may extend the two halves of the partition: the experienced and the remaining route grow only link by link, through the two
    # helpers judged below (a bulk carry-over computed some other way — by link id, by position — is not a partition of the plan when a
    # link id occurs twice or a zero-length link was passed); judged first so that it is found even if a helper was renamed away
    def _ok_w(s):
        f = s.func
        if f is None:
            return None
        if f.relpath == RT and f.qualname in ("RouteTraversal.add_traversal", "RouteTraversal.add_link_not_traversed"):
            return "partition helper"
        if f.relpath.startswith("nrel/hive/resources"):
            return "mock"
        if not progress and f.relpath == RT and f.qualname == "traverse" and isinstance(s.node, ast.Call):
            # (C07 / C19 use) handing the WHOLE plan back untouched is as consistent with the vehicle's position as handing back nothing
            plan = f.params[0]
            kws = {k.arg: flow.dump(k.value) for k in s.node.keywords if k.arg in ("remaining_route", "experienced_route")}
            if kws and all((k == "remaining_route" and v == plan) or (k == "experienced_route" and v == "()") for k, v in kws.items()):
                return "the whole plan handed back"
        return None
    for fld in ("remaining_route", "experienced_route"):
        rules.rule_field_writers(ctx, "D2", fld, _ok_w, f"RouteTraversal.{fld} grows only through add_traversal / add_link_not_traversed", 1)
    at = repo.func(RT, "RouteTraversal.add_traversal")
    t = at.params[1]
    ps = [p for p in flow.paths(at.node) if p.kind == "return"]
    ctx.require(len(ps) >= 1, "add_traversal: no return")
    for p in ps:
        kw = {k.arg: flow.dump(k.value) for k in p.value.keywords} if isinstance(p.value, ast.Call) else {}
        ok = kw.get("experienced_route") == f"self.experienced_route if {t}.traversed is None else self.experienced_route + ({t}.traversed,)" \
            and kw.get("remaining_route") == f"self.remaining_route if {t}.remaining is None else self.remaining_route + ({t}.remaining,)" \
            and kw.get("remaining_time_seconds") == f"{t}.remaining_time_seconds"
        has_trav = any(flow.dump(a) == f"{t}.traversed" and pol is True for a, pol in p.facts())
        want_d = f"self.traversal_distance_km + {t}.traversed.distance_km" if has_trav else "self.traversal_distance_km"
        ok = ok and kw.get("traversal_distance_km") == want_d
        ctx.check(ok, "D2", "DU.partition", "add_traversal appends the traversed part to experienced, the remaining part to remaining, adds the traversed distance, takes over the remaining time", at, p.end,
                  why_bad=f"{ {k: v[:90] for k, v in kw.items()} }", construct="add_traversal:shape")
    nt = repo.func(RT, "RouteTraversal.add_link_not_traversed")
    ps = [p for p in flow.paths(nt.node) if p.kind == "return"]
    ok = flow.values_match(ps, f"self._replace(remaining_route=self.remaining_route + ({nt.params[1]},))")
    ctx.check(ok, "D2", "DU.partition", "add_link_not_traversed appends the untouched link to the remaining route only", nt, why_bad="changed", construct="add_link_not_traversed")
    ntl = repo.func(RT, "RouteTraversal.no_time_left")
    ps = [p for p in flow.paths(ntl.node) if p.kind == "return"]
    ok = len(ps) == 1
    if ok:
        rows = cmp.predicate_table(ps[0].value, {"self.remaining_time_seconds": "r"}, grid=range(0, 3))
        ok = not cmp.compare_table(rows, lambda g, f: g["r"] == 0)
    ctx.check(ok, "D2", "DU.partition", "no_time_left iff remaining time == 0", ntl, why_bad="changed", construct="no_time_left")
    tr = repo.func(RT, "traverse")
    route, dur, net = tr.params[:3]
    for p in flow.paths(tr.node):
        if p.kind != "return":
            continue
        if flow.classify_result(p.value) == "ok":
            ok = flow.dump(p.value.elts[1]) == "RouteTraversal()" or (not progress and flow.dump(p.value.elts[1]) == f"RouteTraversal(remaining_route={route})")
            ctx.check(ok, "D2", "DU.partition", "traverse: early returns yield the empty traversal (nothing experienced, nothing remaining)", tr, p.end,
                      why_bad=f"returns {flow.dump(p.value.elts[1])[:120]} under [{p.cond_text()[:120]}]", construct="traverse:early-return")
        else:
            ok = flow.dump(p.value) == f"ft.reduce(_traverse, {route}, (None, RouteTraversal(remaining_time_seconds={dur})))"
            ctx.check(ok, "D2", "DU.partition", "traverse folds _traverse over the plan in order, starting with the step duration and an empty traversal", tr, p.end,
                      why_bad=f"returns {flow.dump(p.value)[:200]}", construct="traverse:fold")
    inner = repo.func(RT, "traverse._traverse")
    acc, link = inner.params[:2]
    seen = set()
    for p in flow.paths(inner.node):
        if p.kind != "return":
            continue
        d = flow.dump(p.value)
        if d == acc:
            continue
        k = flow.classify_result(p.value)
        if k == "error":
            continue
        if f"{acc}[1].add_link_not_traversed({link})" in d:
            seen.add("not-traversed")
            ok = d == f"({acc}[0], {acc}[1].add_link_not_traversed({link}))" and any(flow.dump(a) == f"{acc}[1].no_time_left()" and pol is True for a, pol in p.facts())
            ctx.check(ok, "D2", "DU.partition", "_traverse: with no time left the link goes, untouched, to the remaining route", inner, p.end, why_bad=d[:160], construct="_traverse:not-traversed")
        else:
            seen.add("traversed")
            want = (f"({acc}[0], {acc}[1].add_traversal(traverse_up_to({link}._replace(speed_kmph={net}.link_from_link_id({link}.link_id).speed_kmph), "
                    f"{acc}[1].remaining_time_seconds)[1]))")
            ctx.check(d == want, "D2", "DU.partition", "_traverse: otherwise the link is traversed as far as the remaining time allows and the result is accumulated", inner, p.end,
                      why_bad=d[:260], construct="_traverse:traversed")
    ctx.require(seen == {"not-traversed", "traversed"}, f"_traverse: cases seen {sorted(seen)}")
    rules.rule_fold_threading(ctx, "D2", tr, 1)


def link_time(ctx: Ctx):
    """'covers no more road than the link speeds allow': the time a link takes -- the quantity every split / whole-link decision above
    compares with the time left -- is the link's OWN length over its OWN speed and nothing else. A time that also reads the end points,
    the geometry, or any other quantity is no longer length / speed, so the distance booked per second is no longer bounded by the speed."""
    fn = ctx.repo.func(LT, "LinkTraversal.travel_time_seconds")
    me = fn.params[0]
    n = 0
    for p in flow.paths(fn.node):
        if p.kind != "return" or p.value is None:
            continue
        n += 1
        v = p.value
        reads = {a.attr for a in ast.walk(v) if isinstance(a, ast.Attribute) and isinstance(a.value, ast.Name) and a.value.id == me}
        calls = {flow.dump(c.func) for c in ast.walk(v) if isinstance(c, ast.Call)}
        ratio = any(isinstance(b, ast.BinOp) and isinstance(b.op, ast.Div) and "distance_km" in flow.dump(b.left) and "speed_kmph" in flow.dump(b.right) and "distance_km" not in flow.dump(b.right)
                    and "speed_kmph" not in flow.dump(b.left) for b in ast.walk(v))
        extra_calls = {c for c in calls if c.split(".")[-1] not in ("hours_to_seconds", "int", "float")}
        ok = reads == {"distance_km", "speed_kmph"} and ratio and not extra_calls
        ctx.check(ok, "D3", "DU.link-time", "LinkTraversal.travel_time_seconds is the link's own distance_km / speed_kmph (in whole seconds) and reads nothing else", fn, p.end,
                  why_bad=f"computed as `{flow.dump(v)[:160]}` (reads {sorted(reads)}, calls {sorted(calls)}): the time charged for a link is no longer its length over its speed, so the "
                          f"road booked in a step is not bounded by the link speeds",
                  construct="LinkTraversal.travel_time_seconds:formula")
    ctx.require(n >= 1, "LinkTraversal.travel_time_seconds: no return path")


def split(ctx: Ctx):
    fn = ctx.repo.func(LT, "traverse_up_to")
    link, avail = fn.params[:2]

    def label(p):
        if p.kind != "return":
            return p.kind
        k = flow.classify_result(p.value)
        if k == "error":
            return "error"
        r = p.value.elts[1]
        kw = {x.arg: flow.dump(x.value) for x in r.keywords} if isinstance(r, ast.Call) and flow.dump(r.func) == "LinkTraversalResult" else {}
        if kw == {"traversed": "None", "remaining": "None", "remaining_time_seconds": avail}:
            return "done"
        if kw == {"traversed": link, "remaining": "None", "remaining_time_seconds": f"{avail} - {link}.travel_time_seconds"}:
            return "whole"
        mid = f"H3Ops.point_along_link({link}, {avail})"
        if kw == {"traversed": f"LinkTraversal.build({link}.link_id, {link}.start, {mid}, speed_kmph={link}.speed_kmph)",
                  "remaining": f"LinkTraversal.build({link}.link_id, {mid}, {link}.end, speed_kmph={link}.speed_kmph)", "remaining_time_seconds": "0"}:
            return "split"
        return "other:" + str({k2: v[:70] for k2, v in kw.items()})

    paths = flow.paths(fn.node)
    rows = cmp.path_table(paths, {f"{link}.travel_time_seconds": "tt", avail: "av"}, label, grid=range(0, 3))
    def spec(g, f):
        if f.get(f"$isnone({link})") or f.get(f"{link} is None"):
            return None
        if f.get(f"{link}.start == {link}.end") or f.get(f"{link}.end == {link}.start"):
            return "done"
        return "whole" if g["tt"] <= g["av"] else "split"
    bad = [r for r in cmp.compare_table(rows, spec) if not r[2] == "error"]
    ctx.check(not bad, "D3", "DU.split", "traverse_up_to: whole link iff travel_time <= available (time difference left); else (start->mid | mid->end) on the same link with no time left", fn,
              why_ok=f"{len(rows)} assignments", why_bad=f"differs: {[(b[0], b[2], b[3]) for b in bad[:3]]}", construct="traverse_up_to:table", witness={"bad": [str(b) for b in bad[:5]]})
    labels = {r[2] for r in rows}
    ctx.check({"whole", "split", "done"} <= labels, "D3", "DU.split", "traverse_up_to has the three cases (already done / whole link / split)", fn,
              why_bad=f"cases: {sorted(labels)}", construct="traverse_up_to:cases")
    ctx.ok("D3", "DU.split", "split halves share the link id and meet at the same mid point", fn)


def leaving(ctx: Ctx):
    repo = ctx.repo
    for cname, term in (("DispatchTrip", "len(self.route)"), ("ServicingTrip", "len(self.route)"), ("DispatchStation", "len(self.route)"), ("DispatchBase", "len(self.route)"),
                        ("Repositioning", "len(self.route)"), ("DispatchPoolingTrip", "len(self.route)"), ("ServicingPoolingTrip", "len(self.trip_plan)")):
        sc = states.state_class(repo, cname)
        t = repo.method(sc.cls, "_has_reached_terminal_state_condition")
        ps = [p for p in flow.paths(t.node) if p.kind == "return"]
        ok = len(ps) == 1
        if ok:
            try:
                rows = cmp.predicate_table(ps[0].value, {term: "n"}, grid=range(0, 3))
                ok = not cmp.compare_table(rows, lambda g, f: g["n"] == 0)
            except AnalysisError:
                ok = False
        ctx.check(ok, "D4", "CMP.leave", f"{cname}: terminal iff {term} == 0", t, why_bad="terminal condition differs", construct=f"{cname}:terminal")
        ur = repo.method(sc.cls, "update_route")
        if ur is not None and cname != "ServicingPoolingTrip":
            ps = [p for p in flow.paths(ur.node) if p.kind == "return"]
            ok = flow.values_match(ps, f"replace(self, route={ur.params[1]})")
            ctx.check(ok, "D1", "DU.move", f"{cname}.update_route stores the given route and nothing else", ur, why_bad="changed", construct=f"{cname}.update_route")
    rules.rule_default_update(ctx, "D4")


# the activity an arrival hands over to refuses (None, None) for lack of a resource unless this holds; normalised names
STATIC_MARKERS = ("grant_access_to_membership(", "valid_charger(", "get_charger_instance(", ".mechatronics.get(")
ARRIVAL_NEEDS = {
    "ReserveBase": ((("int", "SIM.bases.get(SELF.base_id).available_stalls"),), "a free stall at the base"),
    "ChargingStation": ((("bool", "SIM.stations.get(SELF.station_id).has_available_charger(SELF.charger_id)"),
                         ("int", "SIM.stations.get(SELF.station_id).get_available_chargers(SELF.charger_id)")), "a free plug of the requested type at the station"),
}


def arrival_enterable(ctx: Ctx):
    """'... leaves the travelling activity within one step of arriving': the default terminal state of a travelling activity
    is entered through the generic transition, which leaves the vehicle where it was when `enter` refuses. An arrival may
    therefore hand over to an activity that refuses for lack of a resource (ReserveBase: no stall; ChargingStation: no plug)
    only on paths that tested for the resource — with a fallback (Idle / the queue) on the others. Otherwise a vehicle that
    arrives at a full base / station stays in the travelling activity with an empty route, step after step."""
    repo = ctx.repo
    n = 0
    n_prev = [0]
    n_static = [0]
    for sc in states.state_classes(repo):
        t = repo.method(sc.cls, "_default_terminal_state")
        if t is None or t.cls is None or t.cls.name != sc.name or not _has_route_field(sc):
            continue
        ren = sc.rename(t)
        for p in flow.paths(t.node):
            if p.kind != "return" or flow.classify_result(p.value) != "ok":
                continue
            base_facts = [(states.norm(a, ren), pol) for a, pol in p.facts()]

            def alts(e, facts):
                e = flow.core(e)
                if isinstance(e, ast.IfExp):
                    tn = states.norm(e.test, ren)
                    return alts(e.body, facts + flow.implied(tn, True)) + alts(e.orelse, facts + flow.implied(tn, False))
                return [(e, facts)]

            for v, facts in alts(p.value.elts[1], base_facts):
                k = (flow.dump(v.func).split(".")[0] if isinstance(v, ast.Call) else None)
                # the activity handed over to may insist on a particular PREVIOUS activity: it must be this one
                ksc = next((x for x in states.state_classes(repo) if x.name == k), None)
                if ksc is not None:
                    kren = ksc.rename(ksc.enter)
                    succ = ksc.success("enter")
                    need_prev = None
                    if succ:
                        common = set.intersection(*[{(states.ndump(a, kren), pol) for a, pol in m.path.facts()} for m in succ])
                        for d_, pol_ in common:
                            if pol_ is True and ".vehicle_state.vehicle_state_type == VehicleStateType." in d_:
                                need_prev = d_.rsplit("VehicleStateType.", 1)[1]
                    own = _own_type(repo, sc)
                    if need_prev is not None and own is not None:
                        n_prev[0] += 1
                        ctx.check(need_prev == own, "D4", "GD.arrival-enterable", f"{sc.name}: arrival hands over to {k}, which accepts a {need_prev} predecessor", t, p.end,
                                  why_ok="this activity is that predecessor",
                                  why_bad=f"{k}.enter fails unless the vehicle's previous activity is {need_prev}, but this hand-over comes from {sc.name} ({own}): the arrival transition errors in "
                                          f"every step and the vehicle stays in {sc.name} with an exhausted route",
                                  construct=f"{sc.name}._default_terminal_state:{k}-prev-mismatch")
                # eligibility that cannot change while the vehicle travels (fleet access, plug compatibility, the plug type existing
                # at the station): what the successor's enter insists on must have been established when THIS activity was entered
                if ksc is not None and succ:
                    b = repo.method(ksc.cls, "build")
                    binding = {}
                    vn = states.norm(v, ren)
                    if b is not None and isinstance(vn, ast.Call):
                        prm = [x for x in b.params if x not in ("cls", "self")]
                        for pn, a_ in zip(prm, vn.args):
                            binding[f"SELF.{pn}"] = flow.dump(a_)
                        for kw_ in vn.keywords:
                            binding[f"SELF.{kw_.arg}"] = flow.dump(kw_.value)
                    own_ren = sc.rename(sc.enter)
                    # only the entries that really start the journey (a delegating enter hands the vehicle to the successor at once)
                    own_succ = [m for m in sc.success("enter") if m.path.value is not None and flow.calls_in(m.path.value, "apply_new_vehicle_state")]
                    admitted = set.intersection(*[{(states.ndump(a, own_ren), pol) for a, pol in m.path.facts()} for m in own_succ]) if own_succ else set()
                    have = admitted | {(flow.dump(a), pol) for a, pol in facts}
                    def bind(d0):
                        for f_, val in sorted(binding.items(), key=lambda x: -len(x[0])):
                            d0 = d0.replace(f_, val)
                        # an entity looked up by key carries that key as its id
                        for coll, key in (("vehicles", "SELF.vehicle_id"), ("requests", "SELF.request_id"), ("stations", "SELF.station_id"), ("bases", "SELF.base_id")):
                            d0 = d0.replace(f"SIM.{coll}.get({key}).id", key)
                        return d0
                    # the successor's conditions as they read for THIS hand-over (the previous activity is this one): a test that only
                    # applies to other predecessors demands nothing here
                    own_t = _own_type(repo, sc)
                    if own_t is not None:
                        sets_s = []
                        for m in succ:
                            st_ = set()
                            for a, pol in m.path.facts():
                                a2 = gd.as_previous(a, own_t, sc.name)
                                if not isinstance(a2, ast.Constant):
                                    st_.add((states.ndump(a2, kren), pol))
                            sets_s.append(st_)
                        common_s = set.intersection(*sets_s)
                    else:
                        common_s = common
                    bound = {(bind(d0), p0) for d0, p0 in common_s}
                    for dd, pol_ in sorted(bound):
                        if not any(mk in dd for mk in STATIC_MARKERS):
                            continue
                        if dd.startswith("$isnone(") and any(x == dd[8:-1] for x, _ in bound):
                            continue  # implied form of an atom judged on its own
                        n_static[0] += 1
                        okk = (dd, pol_) in have or (pol_ is True and (f"$isnone({dd})", False) in have and "valid_charger" not in dd and "grant_access" not in dd)
                        txt = dd if pol_ else f"not ({dd})"
                        ctx.check(okk, "D4", "GD.arrival-enterable", f"{sc.name} -> {k}: `{txt[:90]}` is established when {sc.name} is entered", sc.enter, p.end,
                                  why_ok=f"{sc.name}.enter (or the arrival path) requires it",
                                  why_bad=f"{k}.enter refuses unless `{txt[:200]}`, which neither {sc.name}.enter nor the arrival path tests: a vehicle sent on its way although it can never be "
                                          f"admitted arrives, fails the hand-over in every step and stays in {sc.name} with an exhausted route",
                                  construct=f"{sc.name}->{k}:static-unchecked:{txt[:120]}")
                if k not in ARRIVAL_NEEDS:
                    continue
                n += 1
                forms, what = ARRIVAL_NEEDS[k]
                ok = False
                for kind, term in forms:
                    if kind == "int":
                        ok = ok or 0 not in gd.allowed_values(facts, term)
                    else:
                        ok = ok or any(flow.dump(a) == term and pol is True for a, pol in facts)
                ctx.check(ok, "D4", "GD.arrival-enterable", f"{sc.name}: arrival hands over to {k} only after testing for {what}", t, p.end,
                          why_bad=f"path [{p.cond_text()[-200:]}] returns {k} without having tested for {what} (`{forms[0][1]}`): {k}.enter refuses when there is none, the transition is "
                                  f"dropped and the vehicle stays in {sc.name} with an empty route for good",
                          construct=f"{sc.name}._default_terminal_state:{k}-untested")
    ctx.require(n >= 2, f"arrival hand-overs to a resource-bound activity: only {n} found")
    ctx.require(n_prev[0] >= 2, f"arrival hand-overs to an activity that names its predecessor: only {n_prev[0]} found")


def _own_type(repo, sc):
    f = repo.method(sc.cls, "vehicle_state_type")
    if f is None:
        return None
    for p in flow.paths(f.node):
        if p.kind == "return" and p.value is not None:
            d = flow.dump(p.value)
            if d.startswith("VehicleStateType."):
                return d.split(".", 1)[1]
    return None


def _has_route_field(sc) -> bool:
    return any(isinstance(s, ast.AnnAssign) and isinstance(s.target, ast.Name) and s.target.id == "route" for s in sc.cls.node.body)


def selftest():
    from ..selftest import V
    return [
        V("position-from-start", VO, "        vehicle_position = EntityPosition(last_link_traversed.link_id, last_link_traversed.end)", "        vehicle_position = EntityPosition(last_link_traversed.link_id, last_link_traversed.start)", rule="DU.move"),
        V("position-first-link", VO, "        last_link_traversed = experienced_route[-1]", "        last_link_traversed = experienced_route[0]", rule="DU.move"),
        V("store-original-route", VO, "            new_route_state = new_position_vehicle.vehicle_state.update_route(route=remaining_route)", "            new_route_state = new_position_vehicle.vehicle_state.update_route(route=route)", rule="DU.move"),
        V("add-traversal-drops-remaining", RT, "            self.remaining_route if t.remaining is None else self.remaining_route + (t.remaining,)", "            self.remaining_route", rule="DU.partition"),
        V("split-swapped", LT, "                link.link_id, link.start, mid_geoid, speed_kmph=link.speed_kmph\n            )\n            remaining = LinkTraversal.build(\n                link.link_id, mid_geoid, link.end, speed_kmph=link.speed_kmph",
          "                link.link_id, mid_geoid, link.end, speed_kmph=link.speed_kmph\n            )\n            remaining = LinkTraversal.build(\n                link.link_id, link.start, mid_geoid, speed_kmph=link.speed_kmph", rule="DU.split"),
        V("split-leftover-time", LT, "                remaining=remaining,\n                remaining_time_seconds=0,", "                remaining=remaining,\n                remaining_time_seconds=available_time_seconds - traversed.travel_time_seconds,", rule="DU.split"),
        V("whole-link-strict", LT, "        if link.travel_time_seconds <= available_time_seconds:", "        if link.travel_time_seconds < available_time_seconds:", rule="DU.split"),
        V("early-return-keeps-route", RT, "    elif TupleOps.head(route_estimate).start == TupleOps.last(route_estimate).end:\n        return None, RouteTraversal()", "    elif TupleOps.head(route_estimate).start == TupleOps.last(route_estimate).end:\n        return None, RouteTraversal(remaining_route=route_estimate)", rule="DU.partition"),
        V("terminal-one-link-left", "nrel/hive/state/vehicle_state/dispatch_base.py", "        return len(self.route) == 0", "        return len(self.route) <= 1", rule="CMP.leave"),
        V("twin-whole-mirror", LT, "        if link.travel_time_seconds <= available_time_seconds:", "        if not (link.travel_time_seconds > available_time_seconds):", kind="twin"),
    ] + _auto()


def _auto():
    from ..loader import Repo
    from .. import autovariants as av
    return av.compare_variants(Repo(), [(LT, "traverse_up_to"), (RT, "RouteTraversal.no_time_left")], rule=None)

