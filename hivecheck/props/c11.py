"""C11 — timed inputs take effect exactly once, at the right step (CMP + path rules + KP + WMC)."""
from __future__ import annotations

import ast

from .. import AnalysisError, flow, states, cmp, rules
from ..index import enclosing_func
from ..loader import parent, dotted
from ..report import Ctx

IT = "nrel/hive/util/iterators.py"
URF = "nrel/hive/state/simulation_state/update/update_requests_from_file.py"
URS = "nrel/hive/state/simulation_state/update/update_requests_sampling.py"
CPU = "nrel/hive/state/simulation_state/update/charging_price_update.py"
CAN = "nrel/hive/state/simulation_state/update/cancel_requests.py"
ST = "nrel/hive/model/station/station.py"
CS = "nrel/hive/model/station/charger_state.py"

EXPLANATION = (
    "Truth tables over every ordering of (value, now): both file readers and the sampling reader admit a row iff "
    "value < sim_time of the state being updated; a row whose departure + timeout <= now is never added; "
    "cancellation removes iff now >= departure + timeout; all three use the same timeout term. Row iterators "
    "(DictReaderIterator / ObjectIterator, cross-checked as siblings): on every path a row taken from the "
    "underlying reader is returned or stored in `history`, `history` is cleared only on the path that returns it, "
    "the predicate tested is the current one, and read_until_stop_condition installs the caller's predicate on "
    "the iterator it returns. Rows reach the stepper in file order (only order-preserving wrappers). Each admitted "
    "row is added once and the folds thread their accumulator. Prices: later rows override earlier ones per "
    "(station|region, plug) key, price_per_kwh is written only through Station.update_prices, region keys are "
    "lifted/expanded at the search resolution, and no Map subscript in the price update can raise KeyError (key "
    "provenance). Decides these structural clauses; geometric containment of stations in finer regions is not "
    "tested by the code and not decided."
)

TIMEOUT = "env.config.sim.request_cancel_time_seconds"


def run(ctx: Ctx):
    ctx.attempt(row_refusals, ctx)
    ctx.attempt(admission, ctx)
    ctx.attempt(expiry, ctx)
    ctx.attempt(cancel, ctx)
    ctx.attempt(iterators, ctx)
    ctx.attempt(file_order, ctx)
    ctx.attempt(adds_once, ctx)
    ctx.attempt(rows_reach_fold, ctx)
    ctx.attempt(price_entries_applied, ctx)
    ctx.attempt(prices, ctx)
    ctx.attempt(key_provenance, ctx)
    ctx.attempt(h3_guard, ctx)
    ctx.attempt(iterator_state, ctx)
    ctx.floor("CMP.admit", 3)
    ctx.floor("PATH.row-conservation", 8)
    ctx.floor("KP", 4)
    ctx.not_decided += ["'exactly the stations inside the named region' for region keys finer than the search resolution "
                        "(geometric containment is not tested by the code)"]


def admission(ctx: Ctx):
    repo = ctx.repo
    for file, outer_qn in ((URF, "UpdateRequestsFromFile.update"), (CPU, "ChargingPriceUpdate.update"), (URS, "UpdateRequestsSampling.update")):
        outer = repo.func(file, outer_qn)
        # the predicate handed to the reader in this update, however it is spelled (nested function, lambda)
        inner = repo.func_opt(file, outer_qn + ".stop_condition") or rules.callable_argument(repo, outer, "read_until_stop_condition", "stop_condition", 0) \
            or rules.callable_argument(repo, outer, "update_stop_condition", "stop_condition", 0)
        ctx.require(inner is not None, f"{outer_qn}: the predicate handed to read_until_stop_condition cannot be resolved to a function")
        env0 = flow.closure_env(outer.node, "stop_condition") if not isinstance(inner.node, ast.Lambda) else {k: v for p_ in flow.paths(outer.node)[:1] for k, v in p_.env.items()}
        simp = outer.params[1]
        ps = [p for p in flow.paths(inner.node, env0) if p.kind == "return"]
        ctx.require(len(ps) == 1, f"{outer_qn}.stop_condition: unrecognised shape")
        v = inner.params[0]
        rows = cmp.predicate_table(ps[0].value, {v: "value", f"{simp}.sim_time": "now"}, grid=range(0, 3))
        bad = cmp.compare_table(rows, lambda g, f: g["value"] < g["now"])
        ctx.check(not bad, "D1", "CMP.admit", f"{outer_qn}: a row is admitted iff its time < sim_time of the state being updated", inner,
                  why_ok="9 orderings agree", why_bad=f"differs on {bad[:3]}", construct=f"{outer_qn}:stop_condition")
        # the predicate is installed on the reader used in this update
        installed = False
        for p in flow.paths(outer.node):
            for e in p.events:
                if e.name in ("read_until_stop_condition", "update_stop_condition") and e.raw.args and (
                        flow.dump(e.raw.args[0]) == "stop_condition" or (isinstance(inner.node, ast.Lambda) and e.raw.args[0] is inner.node)):
                    installed = True
        ctx.check(installed, "D1", "CMP.admit", f"{outer_qn}: this step's predicate is installed on the reader before rows are consumed", outer,
                  why_bad="stop_condition not passed to the reader", construct=f"{outer_qn}:installed")


def expiry(ctx: Ctx):
    repo = ctx.repo
    fn = repo.func(URF, "update_requests_from_iterator._update")
    sim, row = fn.params[:2]
    req = f"Request.from_row({row}, env, {sim}.road_network)[1]"
    T = f"{req}.departure_time + {TIMEOUT}"

    def label(p):
        if p.kind != "return":
            return p.kind
        added = any(e.name == "add_request_safe" and not e.deferred for e in p.events)
        if isinstance(p.value, ast.Name) and p.value.id == sim:
            return "skip"
        return "add" if added else "other"

    terms = {f"{sim}.sim_time": "now", T: "T", f"{T} if {req} else None": "T"}
    rows = cmp.path_table(flow.paths(fn.node), terms, label, grid=range(0, 3))
    bad = [r for r in rows if r[0]["T"] <= r[0]["now"] and r[2] != "skip"]
    some_add = any(r[2] == "add" for r in rows if r[0]["T"] > r[0]["now"])
    early_skip = [r for r in rows if r[0]["T"] > r[0]["now"] and r[2] == "skip" and not any(r[1].values())
                  and all(("fleet_ids" not in k and "memberships" not in k) for k in r[1])]
    ctx.check(not bad and some_add, "D1", "CMP.expiry", "a row whose departure + timeout <= now is not added (and later rows can be)", fn,
              why_ok=f"{len(rows)} assignments", why_bad=f"{'expired row added: ' + str(bad[:2]) if bad else 'no ordering lets a row in'}", construct="_update:expiry-table")
    # a row that is not expired and has no other defect is added: T > now with all error atoms false -> add
    def clean(free):
        return all((not v) or ("is None" in k and False) for k, v in free.items())
    strict = [r for r in rows if r[0]["T"] > r[0]["now"] and r[2] == "skip" and _only_benign_false(r[1], req)]
    ctx.check(not strict, "D1", "CMP.expiry", "a well-formed row with departure + timeout > now is added", fn,
              why_bad=f"skipped although not expired: {strict[:2]}", construct="_update:skips-live-row")


def _only_benign_false(free: dict, req: str) -> bool:
    """True when every free atom has the value a well-formed, admissible row gives it."""
    for k, v in free.items():
        if k.endswith("[0]"):  # parse error slot
            if v:
                return False
        elif k == req:
            if not v:
                return False
        elif "fleet_ids" in k or "memberships" in k:
            return False  # fleet/membership configuration atoms: not constrained by the property
        elif "isinstance" in k:
            if v:
                return False
        elif "requests.get(" in k:
            if not v:
                return False
        else:
            return False
    return True


def cancel(ctx: Ctx):
    from .c03 import cancellation
    cancellation(ctx)
    # same timeout term in expiry and cancel
    src1 = ctx.repo.module(URF).source
    src2 = ctx.repo.module(CAN).source
    ctx.check(TIMEOUT in src1 and TIMEOUT in src2, "D1", "CMP.timeout-term", "expiry-on-arrival and cancellation use the same configured timeout", ctx.repo.func(CAN, "CancelRequests.update"),
              why_bad="different timeout terms", construct="timeout-term")


def iterators(ctx: Ctx):
    repo = ctx.repo
    sig = {}
    for cname, source, getval in (("DictReaderIterator", "next(self.reader)", None), ("ObjectIterator", "next(self._iterator)", None)):
        fn = repo.func(IT, f"{cname}.__next__")
        shapes = []
        for p in flow.paths(fn.node):
            took = [e for e in p.events if flow.dump(e.call) == source and not e.deferred]
            stores = [s for s in p.stores if flow.dump(s.raw) == "self.history"]
            hist_truthy = any(flow.dump(a) == "self.history" and pol is True for a, pol in p.facts())
            tested = [flow.dump(a) for a, pol in p.facts() if isinstance(a, ast.Call) and flow.dump(a.func) == "self.stop_condition"]
            pol_of = {flow.dump(a): pol for a, pol in p.facts() if isinstance(a, ast.Call) and flow.dump(a.func) == "self.stop_condition"}
            kind = p.kind
            exc = flow.dump(p.value) if p.kind == "raise" else None
            inst = f"{cname}.__next__ path ending line {p.lineno}"
            if took:
                row = flow.dump(took[0].call)
                if kind == "return":
                    ok = flow.dump(p.value) == row and not stores and any(pol_of.values())
                    ctx.check(ok, "D2", "PATH.row-conservation", f"{inst}: a fresh row within range is returned as is", fn, p.end,
                              why_bad=f"returns {flow.dump(p.value)[:60]}, stores {[flow.dump(s.value)[:40] if s.value is not None else None for s in stores]}", construct=f"{cname}:fresh-return")
                    shapes.append("fresh-return")
                elif exc == "StopIteration":
                    kept = any(s.value is not None and flow.dump(s.value) == row for s in stores)
                    ctx.check(kept, "D2", "PATH.row-conservation", f"{inst}: a fresh row out of range is stored in history before StopIteration", fn, p.end,
                              why_bad="the row read from the underlying reader is neither returned nor stored: it is lost", construct=f"{cname}:fresh-stop-loses-row")
                    shapes.append("fresh-stop")
                else:
                    shapes.append("fresh-raise")  # parse error: the run stops with that exception
                    ctx.ok("D2", "PATH.row-conservation", f"{inst}: parse error is raised (not swallowed)", fn, p.end)
            elif hist_truthy:
                if kind == "return":
                    cleared = any(s.value is not None and flow.is_none(s.value) for s in stores)
                    ok = flow.dump(p.value) == "self.history" and cleared and any(pol_of.values())
                    ctx.check(ok, "D2", "PATH.row-conservation", f"{inst}: the stored row is returned and history cleared, only when it is within range", fn, p.end,
                              why_bad=f"returns {flow.dump(p.value)[:60]} cleared={cleared}: the row would be " + ("duplicated" if not cleared else "replaced"), construct=f"{cname}:history-return")
                    shapes.append("history-return")
                elif exc == "StopIteration":
                    ctx.check(not stores, "D2", "PATH.row-conservation", f"{inst}: an out-of-range stored row stays in history", fn, p.end,
                              why_bad="history overwritten/cleared on a path that does not return it: the row is lost", construct=f"{cname}:history-stop-clears")
                    shapes.append("history-stop")
                else:
                    shapes.append("history-raise")
                    ctx.ok("D2", "PATH.row-conservation", f"{inst}: parse error is raised", fn, p.end)
            else:
                if kind == "raise" and exc == "StopIteration" and not took:
                    ctx.violation("D2", "PATH.row-conservation", f"{inst}: stops without consulting the reader or history", fn, p.end, why="rows can never be read", construct=f"{cname}:dead-stop")
        sig[cname] = sorted(set(s for s in shapes if not s.endswith("raise")))
        # tested predicate is the attribute updated by update_stop_condition
        up = repo.func(IT, f"{cname}.update_stop_condition")
        ok = any(flow.dump(s.raw) == "self.stop_condition" and flow.dump(s.value) == up.params[1] for p in flow.paths(up.node) for s in p.stores)
        ctx.check(ok, "D2", "PATH.predicate", f"{cname}.update_stop_condition installs the new predicate", up, why_bad="predicate not stored", construct=f"{cname}:update_stop_condition")
    ctx.check(sig["DictReaderIterator"] == sig["ObjectIterator"] == ["fresh-return", "fresh-stop", "history-return", "history-stop"], "D2", "PATH.siblings",
              "the two row iterators have the same four cases", repo.func(IT, "ObjectIterator.__next__"), why_bad=f"{sig}", construct="iterators:siblings")
    fn = repo.func(IT, "DictReaderStepper.read_until_stop_condition")
    ok = False
    for p in flow.paths(fn.node):
        if p.kind == "return":
            ev = [e for e in p.events if e.name == "update_stop_condition" and flow.dump(e.call) == f"self._iterator.update_stop_condition({fn.params[1]})"]
            ok = bool(ev) and flow.dump(p.value) == "self._iterator"
    ctx.check(ok, "D2", "PATH.predicate", "read_until_stop_condition installs the caller's predicate on the iterator it returns", fn, why_bad="shape changed", construct="read_until_stop_condition")


def file_order(ctx: Ctx):
    """Rows reach the stepper in file order: between csv.DictReader and the stepper only order-preserving wrappers."""
    repo = ctx.repo
    ORDER_OK = {"iter", "tuple", "list", "DictReader", "csv.DictReader"}
    n = 0
    for file, qn in ((URF, "UpdateRequestsFromFile.build"), (CPU, "ChargingPriceUpdate.build")):
        fn = repo.func(file, qn)
        for p in flow.paths(fn.node):
            for e in p.events:
                if e.name in ("from_iterator", "cls", "DictReaderStepper") and e.call.args:  # `cls(...)`: a new constructor classmethod, spliced in
                    data = e.call.args[0]
                    if "DictReader" not in flow.dump(data):
                        continue
                    n += 1
                    bad = []
                    node = data
                    while isinstance(node, ast.Call) and flow.dump(node.func) not in ("DictReader", "csv.DictReader"):
                        if flow.dump(node.func) not in ORDER_OK or not node.args:
                            bad.append(flow.dump(node.func))
                            break
                        node = node.args[0]
                    ctx.check(not bad, "D2", "PATH.file-order", f"{qn}: rows are handed to the stepper in file order", fn, e.raw,
                              why_bad=f"rows pass through {bad} (re-ordering a sorted file can put an earlier row behind a later one: admitted late or never)",
                              construct=f"{qn}:reordered")
                    break
    ctx.require(n >= 2, "file-order rule: DictReader -> from_iterator hand-off not found")


def price_entries_applied(ctx: Ctx):
    """'Each charging-price entry takes effect in the first step that begins after its timestamp': what the step's rows were folded into
    (`reduce(_add_row_to_this_update, <rows read>, <empty>)`) is, whole, what is resolved to stations and applied. A path that has read
    rows ends without applying them only when that fold is empty; nothing stands between the fold and `_map_to_station_ids`."""
    fn = ctx.repo.func(CPU, "ChargingPriceUpdate.update")
    n = 0
    for p in flow.paths(fn.node):
        if p.kind != "return":
            continue
        folds = [e for e in p.events if e.name == "reduce" and e.call.args and flow.dump(e.call.args[0]).endswith("_add_row_to_this_update")]
        if not folds:
            continue
        R = flow.dump(folds[0].call)
        maps = [e for e in p.events if e.name == "_map_to_station_ids"]
        applies = [e for e in p.events if e.name == "reduce" and e.call.args and "_update_station_prices" in flow.dump(e.call.args[0])]
        n += 1
        if maps:
            a = maps[0].call.args[0] if maps[0].call.args else None
            ok = a is not None and flow.dump(a) == R
            ctx.check(ok, "D4", "PATH.entries-applied", "ChargingPriceUpdate.update: the whole of this step's price entries is resolved to stations", fn, maps[0].raw,
                      why_bad=f"`_map_to_station_ids` is given `{flow.dump(a)[:160] if a is not None else '?'}`, not the fold of the rows read in this step: an entry left out here "
                              f"never takes effect (its row is consumed)", construct="ChargingPriceUpdate.update:partial-update")
        if not applies:
            empty = any(pol is True and flow.dump(a_) in (f"len({R}) == 0", f"not {R}") for a_, pol in p.facts()) or \
                any(pol is False and flow.dump(a_) in (R, f"len({R})", f"len({R}) > 0", f"len({R}) != 0") for a_, pol in p.facts())
            ctx.check(empty, "D4", "PATH.entries-applied", "ChargingPriceUpdate.update: a step that read price rows ends without applying any only when they folded to nothing", fn, p.end,
                      why_bad=f"path [{p.cond_text()[:240]}] returns without a fold over `_update_station_prices` although the step's entries are not known to be empty: "
                              f"the rows are consumed and their prices never take effect", construct="ChargingPriceUpdate.update:entries-dropped")
    ctx.require(n >= 3, f"ChargingPriceUpdate.update: only {n} paths fold the rows read (expected the empty, the default-table and the per-station path)")


def adds_once(ctx: Ctx):
    repo = ctx.repo
    fn = repo.func(URF, "update_requests_from_iterator._update")
    for p in flow.paths(fn.node):
        if p.kind != "return":
            continue
        adds = [e for e in p.events if e.name == "add_request_safe" and not e.deferred]
        if not adds:
            continue
        reports = [e for e in p.events if e.name == "file_report" and not e.deferred]
        returned_new = not (isinstance(p.value, ast.Name) and p.value.id == fn.params[0])
        if returned_new:
            ok = len(adds) == 1 and len(reports) == 1 and flow.dump(p.value) == f"{flow.dump(adds[0].call)}.unwrap()"
            ctx.check(ok, "D3", "DU.adds-once", "an admitted row is added once, reported once, and the state with the request is returned", fn, p.end,
                      why_bad=f"adds x{len(adds)}, reports x{len(reports)}, returns {flow.dump(p.value)[:80]}", construct="_update:add-once")
    outer = repo.func(URF, "update_requests_from_iterator")
    rules.rule_fold_threading(ctx, "D3", outer, 1)
    rules.rule_fold_threading(ctx, "D3", repo.func(URS, "UpdateRequestsSampling.update"), 1)
    rules.rule_fold_threading(ctx, "D4", repo.func(CPU, "ChargingPriceUpdate.update"), 2)
    # the fold consumes exactly the iterator returned by the reader
    ok = False
    for p in flow.paths(outer.node):
        if p.kind == "return":
            for c in flow.calls_in(p.value, "reduce"):
                ok = len(c.args) >= 3 and flow.dump(c.args[1]) == outer.params[0] and flow.dump(c.args[2]) == outer.params[1]
    ctx.check(ok, "D3", "DU.adds-once", "update_requests_from_iterator folds over the given iterator starting from the given state", outer, why_bad="fold shape changed", construct="update_requests_from_iterator:fold")


def rows_reach_fold(ctx: Ctx):
    """'Each request in the input enters exactly once / each price entry takes effect': whatever an update takes out of its reader in a
    step is handed to the fold that admits it. The reader only moves forward, so rows read on a path that does not fold them (counted,
    skipped, peeked at) are gone for the rest of the run."""
    n = 0
    for file, qn, consumers in ((URF, "UpdateRequestsFromFile.update", ("update_requests_from_iterator", "reduce")), (CPU, "ChargingPriceUpdate.update", ("reduce",))):
        fn = ctx.repo.func(file, qn)
        for p in flow.paths(fn.node):
            if p.kind == "raise":
                continue
            reads = [e for e in p.events if e.name == "read_until_stop_condition"]
            if not reads:
                continue
            fed = set()
            for e in p.events:
                if e.name in consumers:
                    for a in list(e.call.args) + [k.value for k in e.call.keywords]:
                        if _row_stream(a):
                            fed |= {flow.dump(c) for c in flow.calls_in(a, "read_until_stop_condition")}
            for r in reads:
                n += 1
                ok = flow.dump(r.call) in fed
                ctx.check(ok, "D3", "PATH.row-conservation", f"{qn}: the rows taken from the reader in a step are the rows the step folds into the state", fn, r.raw,
                          why_bad=f"on path [{p.cond_text()[:160]}] rows are read by `{flow.dump(r.call)[:100]}` and never reach {' / '.join(consumers)}: the reader only moves forward, so those "
                                  f"entries never take effect (no add event, no cancellation, no price change)",
                          construct=f"{qn}:rows-read-not-folded")
    ctx.require(n >= 2, f"rows_reach_fold: only {n} reads of the step's rows seen")


def row_refusals(ctx: Ctx):
    """'Each request in the input enters the simulation exactly once': a row is turned away by Request.from_row only because a field is
    missing or does not parse — never because of what its (well-formed) values say. Every error / raise path is decided by a missing
    key, a failed conversion (an except handler) or the time parser's own error."""
    fn = ctx.repo.func("nrel/hive/model/request/request.py", "Request.from_row")
    row = fn.params[1]
    n = 0
    for p in flow.paths(fn.node):
        is_err = p.kind == "raise" or (p.kind == "return" and flow.classify_result(p.value) in ("error", "reject"))
        if not is_err:
            continue
        n += 1
        if p.has_marker("except"):
            ctx.ok("D1", "CMP.admit", "Request.from_row: refusal after a failed conversion", fn, p.end)
            continue
        deciding = [c for c in p.conds if isinstance(c.pol, bool) and c.test is not None and flow._const_truth(c.test) is None]
        last = deciding[-1] if deciding else None
        d = flow.dump(last.test) if last is not None else ""
        ok = last is not None and ((d.endswith(f" not in {row}") and last.pol is True) or (d.endswith(f" in {row}") and last.pol is False) or d.startswith(f"{row}.get("))
        ctx.check(ok, "D1", "CMP.admit", "Request.from_row refuses a row only for a missing field or a value that does not parse", fn, p.end,
                  why_ok=f"decided by `{d[:60]}`",
                  why_bad=f"a row whose fields are present and parse is refused because `{('' if last is None or last.pol else 'not ') + d[:140]}`: that request never enters the simulation "
                          f"(no add event, never waiting, never cancelled)",
                  construct=f"Request.from_row:refuses:{d[:80]}")
    ctx.require(n >= 7, f"Request.from_row: only {n} refusing paths seen")


def _row_stream(e: ast.AST) -> bool:
    """Is `e` the stream of rows the reader hands out for this step, possibly regrouped / wrapped (tuple, list, groupby, a
    comprehension over it)? Values merely computed FROM the folded rows (the station ids of the finished update) are not."""
    e = flow.core(e)
    if isinstance(e, ast.Call):
        d = flow.dump(e.func)
        if d.endswith("read_until_stop_condition"):
            return True
        if d.split(".")[-1] in ("tuple", "list", "iter", "groupby", "filter", "map", "sorted", "reversed", "enumerate", "chain", "islice"):
            return any(_row_stream(a) for a in e.args)
        return False
    if isinstance(e, (ast.GeneratorExp, ast.ListComp)):
        return any(_row_stream(g.iter) for g in e.generators)
    return False


def prices(ctx: Ctx):
    repo = ctx.repo
    # later rows override earlier ones
    fn = repo.func(CPU, "_add_row_to_this_update")
    acc, row = fn.params[:2]
    n = 0
    for p in flow.paths(fn.node):
        if p.kind != "return" or p.has_marker("except"):
            continue
        if isinstance(p.value, ast.Name) and p.value.id == acc:
            continue
        n += 1
        key = None
        for k in ("station_id", "geoid"):
            if (f"'{k}' in {row}", True) in [(flow.dump(a), pol) for a, pol in p.facts()]:
                key = k
        want = None
        if key:
            kk = f"{row}['{key}']"
            want = f"DictOps.add_to_dict({acc}, {kk}, ({acc}[{kk}] if {acc}.get({kk}) else immutables.Map()).set({row}['charger_id'], float({row}['price_kwh'])))"
        alt = want.replace(f"if {acc}.get({kk}) else", f"if {kk} in {acc} else") if want else None  # `k in acc` for the truthiness of `acc.get(k)` (an empty inner map gives the same result)
        ctx.check(want is not None and flow.dump(p.value) in (want, alt), "D4", "DU.latest-wins", "a price row overrides the earlier entry of its (station|region, plug) and keeps the others", fn, p.end,
                  why_bad=f"returns {flow.dump(p.value)[:220]}", construct="_add_row_to_this_update:shape")
    ctx.require(n >= 2, "_add_row_to_this_update: station/geoid branches not found")
    # the rows of one step reach that per-row merge one by one, each on top of everything the earlier rows of the step produced:
    # any other way of combining them (per-timestamp blocks laid over each other with a key-level merge, a dict update) replaces
    # a station's whole entry and loses the plug types only an earlier row named
    upd = repo.func(CPU, "ChargingPriceUpdate.update")
    n_row_folds = 0
    for F, XS, INIT in rules.recognise_folds(upd):
        if not _row_stream(XS):
            continue
        n_row_folds += 1
        step = rules.reducer_expr(repo, upd, F)
        d = flow.dump(step)
        direct = d == "_add_row_to_this_update(ACC, X)"
        nested = False
        if not direct:
            for c in flow.calls_in(step, "reduce"):
                if len(c.args) >= 3 and flow.dump(rules.reducer_expr(repo, upd, c.args[0])) == "_add_row_to_this_update(ACC, X)" and flow.dump(c.args[2]) == "ACC":
                    nested = True
        ctx.check(direct or nested, "D4", "DU.latest-wins", "the price rows read in a step are merged row by row into one accumulator by _add_row_to_this_update", upd, F,
                  why_bad=f"the rows are combined by `{d[:120]}`: a later entry for a station / region replaces the whole earlier entry of that key, so plug types named only by an earlier "
                          f"row of the same step are never applied",
                  construct="ChargingPriceUpdate.update:row-fold")
        init = flow.dump(flow.core(INIT))
        ctx.check(init in ("immutables.Map()", "Map()") or init.startswith("immutables.Map["), "D4", "DU.latest-wins", "the step's price accumulator starts empty", upd, INIT,
                  why_bad=f"starts from {init[:80]}", construct="ChargingPriceUpdate.update:row-fold-init")
    ctx.require(n_row_folds >= 1, "ChargingPriceUpdate.update: the fold over the rows read in this step was not found")
    # price writers
    def ok_w(s):
        f = s.func
        if f is None:
            return None
        if f.relpath == ST and f.qualname.startswith("Station.update_prices"):
            return "Station.update_prices"
        if f.relpath == CS and f.qualname == "ChargerState.build":
            return "ChargerState.build (initial 0.0)"
        return None
    rules.rule_field_writers(ctx, "D4", "price_per_kwh", ok_w, "price_per_kwh is written only through Station.update_prices", 1)
    rules.rule_callers(ctx, "D4", "update_prices", lambda s: "_update_station_prices" if s.func is not None and s.func.qualname == "_update_station_prices" else None,
                       "Station.update_prices is called only by _update_station_prices", 1)
    fn = repo.func(ST, "Station.update_prices")
    ok = False
    for p in flow.paths(fn.node):
        if p.kind == "return":
            ok = flow.dump(p.value) == f"station_state_updates(station=self, it={fn.params[1]}.items(), op=_update)"
    inner = repo.func(ST, "Station.update_prices._update")
    ips = [p for p in flow.paths(inner.node) if p.kind == "return"]
    # the plug type named gets the given price (what else the record carries — its counters — is C02's business, not this property's)
    def _sets_price(v) -> bool:
        if not (isinstance(v, ast.Tuple) and len(v.elts) == 2 and flow.dump(v.elts[0]) == "None"):
            return False
        c = flow.core(v.elts[1])
        if not isinstance(c, ast.Call):
            return False
        kw = {k.arg: flow.dump(k.value) for k in c.keywords if k.arg}
        price = inner.params[1]
        fn_d = flow.dump(c.func)
        if fn_d == f"{inner.params[0]}._replace":
            return kw.get("price_per_kwh") == price
        if fn_d in ("ChargerState", "ChargerState.build"):
            return kw.get("price_per_kwh") == price or (fn_d == "ChargerState.build" and len(c.args) >= 3 and flow.dump(c.args[2]) == price)
        return False
    ok2 = len(ips) >= 1 and all(_sets_price(p.value) for p in ips)
    ctx.check(ok and ok2, "D4", "DU.price-setter", "update_prices sets price_per_kwh of exactly the plug types named in the update", fn, why_bad="shape changed", construct="Station.update_prices")
    # _update_station_prices: unknown station / failures keep the state
    fn = repo.func(CPU, "_update_station_prices")
    sim, sid, upd = fn.params[:3]
    good = True
    succ = 0
    for p in flow.paths(fn.node):
        if p.kind != "return":
            good = False
            continue
        d = flow.dump(p.value)
        if d == sim:
            continue
        succ += 1
        good = good and d == f"simulation_state_ops.modify_station({sim}, {sim}.stations.get({sid}).update_prices({upd})[1])[1]"
    ctx.check(good and succ == 1, "D4", "DU.price-setter", "_update_station_prices commits update_prices of the named station, or leaves the state unchanged; it never raises", fn,
              why_bad="shape changed", construct="_update_station_prices")
    # region keys: lifted / expanded at the search resolution
    fn = repo.func(CPU, "_map_to_station_ids")
    sim = fn.params[1]
    n = 0
    for c in ast.walk(fn.node):
        if isinstance(c, ast.Call) and flow.dump(c.func) in ("h3.h3_to_parent", "h3.h3_to_children"):
            n += 1
            ok = len(c.args) == 2 and flow.dump(c.args[1]) == f"{sim}.sim_h3_search_resolution"
            ctx.check(ok, "D4", "IX.search-resolution", f"_map_to_station_ids: {flow.dump(c.func)} maps the region key to the search resolution", fn, c,
                      why_bad=f"`{flow.dump(c)}`: without the search resolution the lookup in s_search misses (the entry is silently dropped)", construct=f"_map_to_station_ids:{flow.dump(c.func)}")
    ctx.require(n >= 2, "_map_to_station_ids: h3 parent/children calls not found")


def _guarded_by(node: ast.AST, recv: str, key: str, fn_node) -> str:
    """Why `recv[key]` cannot raise KeyError at `node` (empty string = no reason found)."""
    p = parent(node)
    child = node
    while p is not None and p is not fn_node:
        # for k in recv / recv.keys() / sorted(recv.keys())
        if isinstance(p, (ast.For, ast.comprehension)):
            tgt = p.target
            it = flow.dump(p.iter)
            if flow.dump(tgt) == key and it in (recv, f"{recv}.keys()", f"sorted({recv}.keys())", f"sorted({recv})"):
                return f"key ranges over {it}"
        if isinstance(p, (ast.ListComp, ast.SetComp, ast.GeneratorExp, ast.DictComp)):
            for g in p.generators:
                if flow.dump(g.target) == key and flow.dump(g.iter) in (recv, f"{recv}.keys()", f"sorted({recv}.keys())"):
                    return f"key ranges over {flow.dump(g.iter)}"
                for i in g.ifs:
                    if flow.dump(i) in (f"{recv}.get({key})", f"{key} in {recv}"):
                        return f"guarded by `{flow.dump(i)}`"
        if isinstance(p, ast.IfExp) and child is p.body and flow.dump(p.test) in (f"{recv}.get({key})", f"{key} in {recv}"):
            return f"guarded by `{flow.dump(p.test)}`"
        if isinstance(p, ast.If) and child in p.body and flow.dump(p.test) in (f"{recv}.get({key})", f"{key} in {recv}"):
            return f"guarded by `{flow.dump(p.test)}`"
        if isinstance(p, ast.Lambda):
            # lambda sim, k: f(sim, k, recv[k]) used as a reducer over sorted(recv.keys())
            gp = parent(p)
            if isinstance(gp, ast.Call) and flow.dump(gp.func) in ("ft.reduce", "functools.reduce") and len(gp.args) >= 2:
                params = [a.arg for a in p.args.args]
                if len(params) >= 2 and params[1] == key and flow.dump(gp.args[1]) in (f"sorted({recv}.keys())", f"{recv}.keys()", recv, f"sorted({recv})"):
                    return f"key ranges over {flow.dump(gp.args[1])}"
        if isinstance(p, ast.Try) and child in p.body and any(h.type is None or flow.dump(h.type) in ("Exception", "KeyError", "BaseException") for h in p.handlers):
            return "inside try/except Exception"
        child = p
        p = parent(p)
    return ""


KP_TABLE = {
    ("ChargingPriceUpdate.update", "charger_update", "'default'"):
        "under use_defaults every row was created by build() with station_id 'default'; a non-empty accumulator has that key",
}


def key_provenance(ctx: Ctx):
    repo = ctx.repo
    n = 0
    for qn in ("ChargingPriceUpdate.update", "_update_station_prices", "_map_to_station_ids", "_add_row_to_this_update"):
        fn = repo.func(CPU, qn)
        for node in ast.walk(fn.node):
            if not (isinstance(node, ast.Subscript) and isinstance(node.ctx, ast.Load)):
                continue
            if isinstance(parent(node), (ast.AnnAssign,)) and parent(node).annotation is node:
                continue
            # skip type annotations
            anc = parent(node)
            in_ann = False
            while anc is not None and anc is not fn.node:
                if isinstance(anc, ast.AnnAssign) and _within(node, anc.annotation):
                    in_ann = True
                if isinstance(anc, ast.arg):
                    in_ann = True
                anc = parent(anc)
            if in_ann or _within(node, fn.node.returns) or any(_within(node, a.annotation) for a in fn.node.args.args if a.annotation is not None):
                continue
            recv, key = flow.dump(node.value), flow.dump(node.slice)
            n += 1
            why = _guarded_by(node, recv, key, fn.node)
            inst = f"{qn}: {recv}[{key}]"
            if why:
                ctx.ok("D4", "KP.subscript", inst, fn, node, why=why)
            elif (qn, recv, key) in KP_TABLE:
                ctx.ok("D4", "KP.subscript", inst + " [tabled]", fn, node, why=KP_TABLE[(qn, recv, key)])
            else:
                ctx.violation("D4", "KP.subscript", inst, fn, node,
                              why=f"nothing on the way to `{recv}[{key}]` shows that the key is present: a price table that does not mention it raises KeyError and stops the run",
                              construct=f"{qn}:unguarded:{recv}[{key}]")
    ctx.require(n >= 4, "key-provenance rule matched too few subscripts")


def _within(node, root) -> bool:
    if root is None:
        return False
    return any(n is node for n in ast.walk(root))


BROAD = {"ValueError", "Exception", "BaseException"}


def h3_guard(ctx: Ctx):
    """'... and never stopping the run': a key of the price table that is neither a station of the scenario nor a usable
    region is skipped. The h3 library signals a bad key with ValueError (int(k, 16) for a key that is not hex) or its own
    subclass H3ValueError, so every h3 call made on a table key sits inside a try whose handler catches ValueError or
    broader; a handler narrowed to the subclass lets the plain ValueError escape and end the run."""
    from ..loader import fq_dotted
    fn = ctx.repo.func(CPU, "_map_to_station_ids")
    n = 0
    for c in ast.walk(fn.node):
        if not (isinstance(c, ast.Call) and (fq_dotted(fn.module, c.func) or "").startswith("h3.")):
            continue
        n += 1
        t = parent(c)
        guard = None
        while t is not None and t is not fn.node:
            par = parent(t)
            if isinstance(par, ast.Try) and t in par.body:
                guard = par
                break
            t = par
        ok = False
        caught = []
        if guard is not None:
            for h in guard.handlers:
                if h.type is None:
                    ok = True
                    caught.append("<bare>")
                else:
                    names = [(dotted(x) or "").split(".")[-1] for x in (h.type.elts if isinstance(h.type, ast.Tuple) else [h.type])]
                    caught += names
                    if BROAD & set(names):
                        ok = True
        ctx.check(ok, "D5", "EX.h3-guard", f"_map_to_station_ids: {flow.dump(c.func)}(...) on a table key is guarded against ValueError", fn, c,
                  why_bad=f"enclosing handler catches {caught or 'nothing'}: h3 raises a plain ValueError for a key that is not hexadecimal (an unknown station id such as 'depot_9'), "
                          f"which now escapes ChargingPriceUpdate.update and stops the run",
                  construct=f"_map_to_station_ids:h3-unguarded:{flow.dump(c.func)}")
    ctx.require(n >= 2, f"_map_to_station_ids: only {n} h3 calls found")


ITER_STATE = {  # the attributes through which DictReaderIterator / DictReaderStepper carry state between calls (PATH rules model these)
    "DictReaderIterator": {"reader", "history", "step_column_name", "stop_condition", "parser"},
}


def iterator_state(ctx: Ctx):
    """The path rule on DictReaderIterator.__next__ (every row is returned or kept in `history`, compared by ITS OWN step value)
    models the iterator's state as the attributes listed above. An attribute the model does not know is state the rule cannot
    account for: a value cached next to `history` that outlives the row it was parsed from releases later rows at the wrong
    time. The held-over row's step value must be parsed from that row on the path that compares it."""
    repo = ctx.repo
    for cname, known in ITER_STATE.items():
        c = repo.cls(IT, cname)
        seen = set()
        for f in c.methods.values():
            for n in ast.walk(f.node):
                if isinstance(n, ast.Attribute) and isinstance(n.ctx, ast.Store) and isinstance(n.value, ast.Name) and n.value.id == "self":
                    seen.add(n.attr)
                    if n.attr not in known:
                        ctx.violation("D2", "PATH.iterator-state", f"{cname}.{f.name} keeps state in self.{n.attr}", f, n,
                                      why=f"`{n.attr}` is carried between calls next to the held-over row but is not one of {sorted(known)}: nothing ties its lifetime to the row it was "
                                          f"computed from, so a later held-over row can be compared with an earlier row's value and enter the simulation before its time",
                                      construct=f"{cname}:extra-state:{n.attr}")
        ctx.check(known & seen == known & seen, "D2", "PATH.iterator-state", f"{cname}: state attributes are {sorted(seen)}", c.methods.get("__next__") or c.methods.get("__init__"))
    nx = repo.func(IT, "DictReaderIterator.__next__")
    n = 0
    for p in flow.paths(nx.node):
        for e in p.events:
            if e.name == "stop_condition" and not e.deferred and e.call.args:
                n += 1
                arg = flow.dump(e.call.args[0])
                ok = arg in ("self.parser(self.history[self.step_column_name])", "self.parser(next(self.reader)[self.step_column_name])") or arg.startswith("self.parser(")
                ctx.check(ok, "D2", "PATH.iterator-state", "the stop condition is evaluated on the step value parsed from the row at hand", nx, e.raw,
                          why_bad=f"compares {arg[:100]}", construct="DictReaderIterator.__next__:stale-step-value")
    ctx.require(n >= 2, f"DictReaderIterator.__next__: only {n} stop_condition evaluations found")


def selftest():
    from ..selftest import V
    return [
        V("admit-le", URF, "            stop = value < current_sim_time\n            return stop\n\n        result", "            stop = value <= current_sim_time\n            return stop\n\n        result", rule="CMP.admit"),
        V("price-admit-le", CPU, "            return value < current_sim_time", "            return value <= current_sim_time", rule="CMP.admit"),
        V("expiry-strict", URF, "        elif this_req_cancel_time <= sim.sim_time:", "        elif this_req_cancel_time < sim.sim_time:", rule="CMP.expiry"),
        V("history-not-stored", IT, "                # set aside row for the future, end iteration\n                self.history = row\n                raise StopIteration", "                # set aside row for the future, end iteration\n                raise StopIteration", rule="PATH.row-conservation"),
        V("history-not-cleared", IT, "                tmp = self.history\n                self.history = None\n                return tmp\n            else:\n                # stored value is not in range\n                raise StopIteration\n        else:\n            row = next(self.reader)",
          "                tmp = self.history\n                return tmp\n            else:\n                # stored value is not in range\n                raise StopIteration\n        else:\n            row = next(self.reader)", rule="PATH.row-conservation"),
        V("history-cleared-on-stop", IT, "            else:\n                # stored value is not in range\n                raise StopIteration\n        else:\n            item = next(self._iterator)", "            else:\n                # stored value is not in range\n                self.history = None\n                raise StopIteration\n        else:\n            item = next(self._iterator)", rule="PATH.row-conservation"),
        V("rows-sorted-by-string", URF, "                reader_iter = iter(tuple(DictReader(f)))", "                reader_iter = iter(sorted(DictReader(f), key=lambda row: row[\"departure_time\"]))", rule="PATH.file-order"),
        V("superset-subscript", CPU, "                sorted(as_station_updates.keys()),", "                sorted(set(sim_state.get_station_ids()).union(as_station_updates.keys())),", rule="KP.subscript"),
        V("parent-one-level", CPU, "search_geoids = (h3.h3_to_parent(k, sim.sim_h3_search_resolution),)", "search_geoids = (h3.h3_to_parent(k),)", rule="IX.search-resolution"),
        V("first-row-wins", CPU, "            this_entry = rows[station_id] if rows.get(station_id) else immutables.Map()\n            updated = DictOps.add_to_dict(rows, station_id, this_entry.set(charger_id, price))",
          "            this_entry = rows[station_id] if rows.get(station_id) else immutables.Map()\n            updated = DictOps.add_to_dict(rows, station_id, this_entry if charger_id in this_entry else this_entry.set(charger_id, price))", rule="DU.latest-wins"),
        V("twin-admit-mirror", URF, "            stop = value < current_sim_time\n            return stop\n\n        result", "            stop = not (value >= current_sim_time)\n            return stop\n\n        result", kind="twin"),
        V("twin-expiry-mirror", URF, "        elif this_req_cancel_time <= sim.sim_time:", "        elif sim.sim_time >= this_req_cancel_time:", kind="twin"),
    ] + _auto()


def _auto():
    from ..loader import Repo
    from .. import autovariants as av
    return av.compare_variants(Repo(), [(URF, "UpdateRequestsFromFile.update.stop_condition"), (CPU, "ChargingPriceUpdate.update.stop_condition"),
                                        (URS, "UpdateRequestsSampling.update.stop_condition"), (CAN, "CancelRequests.update._remove_from_sim")])

