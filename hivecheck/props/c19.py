"""C19 — the event log accounts for every state change (EV event/state co-occurrence + formulas + tables)."""
from __future__ import annotations

import ast

from .. import AnalysisError, flow, states, rules
from ..loader import parent
from ..report import Ctx

VO = "nrel/hive/state/vehicle_state/vehicle_state_ops.py"
SOPS = "nrel/hive/state/vehicle_state/servicing_ops.py"
CAN = "nrel/hive/state/simulation_state/update/cancel_requests.py"
URF = "nrel/hive/state/simulation_state/update/update_requests_from_file.py"
URS = "nrel/hive/state/simulation_state/update/update_requests_sampling.py"
VEO = "nrel/hive/reporting/vehicle_event_ops.py"
REP = "nrel/hive/reporting/reporter.py"
RT = "nrel/hive/reporting/report_type.py"
SH = "nrel/hive/reporting/handler/stats_handler.py"
EH = "nrel/hive/reporting/handler/eventful_handler.py"
VCH = "nrel/hive/reporting/handler/vehicle_charge_events_handler.py"

EXPLANATION = (
    "Event/state co-occurrence on every path of the state-changing operations: a path of move() that commits a "
    "vehicle whose odometer was advanced files exactly one VEHICLE_MOVE_EVENT built from the previous vehicle and "
    "the very vehicle value that is committed; charge() files exactly one VEHICLE_CHARGE_EVENT built from the "
    "previous vehicle, the committed vehicle and the committed station; pickup, drop-off, cancellation and request "
    "addition file exactly one event on their success path; no path that abandons the change files an event "
    "(only the commit's own failure branch may follow a report). Field formulas of the numeric events "
    "(distance_km = odometer difference; energy = level difference for the plug's energy type; price = energy x "
    "station price; ids). Derivations: station load = per-station sum of this step's charge-event energies (fold "
    "structure), summary counts = number of ADD/CANCEL events of the flushed list, vkt = sum of distance_km of move "
    "events. Tables: ReportType.from_string covers every member and round-trips with as_json's name.lower(); file "
    "handlers write json.dumps(report.as_json()). Collectors: no shallow copy of a container of mutable values that "
    "is later mutated; Reporter.flush hands the collected list to every handler and starts a new one. Decides these "
    "structural clauses; numeric sums and the pickup waiting-time bound are not decided."
)


def run(ctx: Ctx):
    from . import c15 as _c15
    ctx.attempt(_c15.pending_reports, ctx)  # "reported exactly once": a filed report stays pending until a flush takes it
    # "the energies of its charge events sum to the energy it gained": what add_energy books as gained is the difference of the level it stores
    from . import c04 as _c04
    for file_, cname_ in ((_c04.BEV, "BEV"), (_c04.ICE, "ICE")):
        ctx.attempt(_c04.mechatronics_method, ctx, ctx.repo.func(file_, f"{cname_}.add_energy"), cname_, "add_energy", "tick_energy_gained", "up")
    ctx.attempt(move_events, ctx)
    ctx.attempt(charge_events, ctx)
    ctx.attempt(simple_events, ctx)
    ctx.attempt(formulas, ctx)
    ctx.attempt(station_load, ctx)
    ctx.attempt(stats, ctx)
    ctx.attempt(tables, ctx)
    ctx.attempt(collectors, ctx)
    ctx.attempt(discarded_steps, ctx)
    # "every ... drop-off ... that changes the state is reported exactly once": the drop-off record is filed by drop_off_trip, so a trip
    # that ends without calling it (the vehicle simply goes Idle with an empty route) leaves a pickup without a drop-off in the log
    from . import c03 as _c03
    ctx.attempt(_c03.dropoff, ctx, True)
    ctx.floor("EV", 8)
    ctx.not_decided += ["numeric sums of event fields vs state fields", "the pickup waiting-time bound (time-of-day arithmetic)"]


def discarded_steps(ctx: Ctx):
    """Events are filed when they happen and are not taken back: an event must not be followed by the loss of the state
    change it reports. (a) The cancel fold threads its accumulator (a removal applied to a stale state is reported but
    lost, and reported again later). (b) A vehicle step that has filed a pickup is discarded if the new activity's first
    update yields no state; move() yields none only when traverse() hands back no traversal, so traverse() must hand back a
    traversal on every non-error path."""
    from . import c03, c06
    c03.cancellation(ctx, timing=False)
    c06.partition(ctx, False)


def _reports(p):
    return [e for e in p.events if e.name == "file_report" and not e.deferred]


def _commits(p, names=("modify_vehicle", "modify_station", "remove_request", "add_request_safe")):
    return [e for e in p.events if e.name in names and not e.deferred]


def move_events(ctx: Ctx):
    fn = ctx.repo.func(VO, "move")
    sim, env, vid = fn.params[:3]
    prev = f"{sim}.vehicles.get({vid})"
    n = 0
    for p in flow.paths(fn.node):
        if p.kind != "return":
            continue
        reps = _reports(p)
        moved_commits = [e for e in p.events if e.name == "modify_vehicle" and not e.deferred and len(e.call.args) >= 2 and flow.calls_in(e.call.args[1], "tick_distance_traveled_km")]
        committed = moved_commits[0].call.args[1] if moved_commits else None
        if not moved_commits:
            # the advanced vehicle handed to a package function that writes its parameter into the state (the out-of-energy helper)
            from .c06 import _commits_param
            for e in p.events:
                c = e.call
                if e.deferred or not isinstance(c, ast.Call) or e.name == "modify_vehicle":
                    continue
                callee = ctx.repo.resolve_call(fn.module, c) or (fn.module.funcs.get(c.func.id) if isinstance(c.func, ast.Name) else None)
                if callee is None or isinstance(callee.node, ast.Lambda):
                    continue
                ps = callee.params
                for pn, a in [(ps[i], a) for i, a in enumerate(c.args) if i < len(ps)] + [(k.arg, k.value) for k in c.keywords if k.arg in ps]:
                    if flow.calls_in(a, "tick_distance_traveled_km") and _commits_param(ctx.repo, callee, pn):
                        moved_commits, committed = [e], a
                        break
                if moved_commits:
                    break
        if moved_commits:
            n += 1
            ok = len(reps) == 1
            why = f"{len(reps)} reports filed"
            if ok:
                r = reps[0].call.args[0]
                ok = isinstance(r, ast.Call) and flow.dump(r.func).endswith("vehicle_move_event") and len(r.args) >= 3 and flow.dump(r.args[0]) == sim \
                    and flow.dump(r.args[1]) == prev and flow.same(r.args[2], committed)
                why = f"report built from {flow.dump(r)[:200]}"
            ctx.check(ok, "D1", "EV.move", "move(): a committed odometer/position change is reported exactly once, from the previous vehicle and the committed vehicle", fn, p.end,
                      why_bad=f"path [{p.cond_text()[:200]}] commits a vehicle whose odometer advanced, but {why}", construct="move:commit-without-event")
        else:
            # no odometer change committed: no event, unless the later commit itself failed
            if reps:
                later_commit = any(e.name == "modify_vehicle" and e.lineno >= reps[0].lineno for e in p.events)
                ctx.check(later_commit and flow.classify_result(p.value) == "error", "D1", "EV.move", "move(): no event on a path that does not commit a move", fn, p.end,
                          why_bad=f"path [{p.cond_text()[:200]}] files a move event without committing the move", construct="move:event-without-commit")
    if n == 0:
        ctx.soft_fail("move(): no path commits an advanced odometer")
    # odometer / position advance only in move
    mv = fn
    rules.rule_callers(ctx, "D1", "tick_distance_traveled_km", lambda s: "move" if s.func == mv else None, "the odometer advances only in move()", 1)
    rules.rule_callers(ctx, "D1", "modify_position", lambda s: "move" if s.func == mv else None, "positions change only in move()", 1)


def charge_events(ctx: Ctx):
    fn = ctx.repo.func(VO, "charge")
    sim, env, vid, sid, cid = fn.params[:5]
    n = 0
    for p in flow.paths(fn.node):
        if p.kind != "return":
            continue
        reps = _reports(p)
        adds = [e for e in p.events if e.name == "add_energy" and not e.deferred]
        vc = [e for e in p.events if e.name == "modify_vehicle" and not e.deferred]
        sc = [e for e in p.events if e.name == "modify_station" and not e.deferred]
        if adds and vc and sc:
            n += 1
            ok = len(reps) == 1
            why = f"{len(reps)} reports"
            if ok:
                r = reps[0].call.args[0]
                ok = (isinstance(r, ast.Call) and flow.dump(r.func).endswith("vehicle_charge_event") and len(r.args) >= 4
                      and flow.dump(r.args[0]) == f"{sim}.vehicles.get({vid})" and flow.same(r.args[1], vc[0].call.args[1])
                      and flow.same(r.args[3], sc[0].call.args[1]) and flow.dump(r.args[2]) == f"{flow.dump(vc[0].call)}[1]")
                why = f"report {flow.dump(r)[:160]}"
            ctx.check(ok, "D1", "EV.charge", "charge(): a committed charging step is reported exactly once, from the previous vehicle, the committed vehicle and the committed station", fn, p.end,
                      why_bad=why, construct="charge:event")
        elif reps:
            ctx.violation("D1", "EV.charge", "charge(): no event on a path that abandons the change", fn, p.end, why=f"path [{p.cond_text()[:160]}]", construct="charge:event-without-commit")
    if n == 0:
        ctx.soft_fail("charge(): no committing path")


def simple_events(ctx: Ctx):
    repo = ctx.repo
    # pickup
    fn = repo.func(SOPS, "pick_up_trip")
    sim, env, vid, rid = fn.params[:4]
    for p in flow.paths(fn.node):
        if p.kind != "return" or p.has_marker("except"):
            continue
        reps = _reports(p)
        removed = [e for e in p.events if e.name == "remove_request" and not e.deferred]
        if removed:
            vc = [e for e in p.events if e.name == "modify_vehicle" and not e.deferred]
            ok = len(reps) == 1 and bool(vc)
            if ok:
                r = reps[0].call.args[0]
                ok = isinstance(r, ast.Call) and flow.dump(r.func).endswith("report_pickup_request") and flow.same(r.args[0], vc[0].call.args[1]) \
                    and flow.dump(r.args[1]) == f"{sim}.requests.get({rid})"
            ctx.check(ok, "D1", "EV.pickup", "pick_up_trip: one pickup event for the paid vehicle and the removed request", fn, p.end,
                      why_bad=f"{len(reps)} reports: {[flow.dump(e.call)[:100] for e in reps]}", construct="pick_up_trip:event")
        elif reps:
            ctx.violation("D1", "EV.pickup", "pick_up_trip: no event without the pickup", fn, p.end, why="report on a non-removing path", construct="pick_up_trip:event-without-removal")
    # the except path of that try continues silently: nothing the report constructor does may raise on admitted input
    rules.rule_swallowed_regions(ctx, "D1")
    # dropoff
    fn = repo.func(SOPS, "drop_off_trip")
    sim, env, vid, req = fn.params[:4]
    for p in flow.paths(fn.node):
        if p.kind != "return":
            continue
        reps = _reports(p)
        k = flow.classify_result(p.value)
        if k == "ok":
            ok = len(reps) == 1 and flow.dump(reps[0].call.args[0]) == f"report_dropoff_request({sim}.vehicles.get({vid}), {sim}, {req})"
            ctx.check(ok, "D1", "EV.dropoff", "drop_off_trip: exactly one drop-off event on success", fn, p.end, why_bad=f"{len(reps)} reports", construct="drop_off_trip:event")
        else:
            ctx.check(not reps, "D1", "EV.dropoff", "drop_off_trip: no event when the drop-off is refused", fn, p.end, why_bad="event on a failing path", construct="drop_off_trip:event-on-failure")
    # cancel
    fn = repo.func(CAN, "CancelRequests.update._remove_from_sim")
    sim, rid = fn.params[:2]
    for p in flow.paths(fn.node):
        if p.kind != "return":
            continue
        reps = _reports(p)
        removed = not (isinstance(p.value, ast.Name) and p.value.id == sim)
        if removed:
            ok = len(reps) == 1 and flow.dump(reps[0].call.args[0]) == f"_gen_report({rid}, {sim})"
            ctx.check(ok, "D1", "EV.cancel", "cancellation: exactly one cancel event for the removed request", fn, p.end, why_bad=f"{len(reps)} reports", construct="_remove_from_sim:event")
        else:
            ctx.check(not reps, "D1", "EV.cancel", "no cancel event when nothing was removed", fn, p.end, why_bad="event without removal", construct="_remove_from_sim:event-without-removal")
    g = repo.func(CAN, "_gen_report")
    ok = any(p.kind == "return" and flow.dump(p.value).startswith("Report(ReportType.CANCEL_REQUEST_EVENT, ") for p in flow.paths(g.node))
    ctx.check(ok, "D1", "EV.cancel", "_gen_report builds a CANCEL_REQUEST_EVENT", g, why_bad="other type", construct="_gen_report:type")
    # add (file + sampling)
    for file, qn in ((URF, "update_requests_from_iterator._update"), (URS, "UpdateRequestsSampling.update._add_request")):
        fn = repo.func(file, qn)
        acc = fn.params[0]
        for p in flow.paths(fn.node):
            if p.kind != "return":
                continue
            reps = _reports(p)
            changed = not (isinstance(p.value, ast.Name) and p.value.id == acc)
            if changed:
                ok = len(reps) == 1 and flow.dump(reps[0].call.args[0]).startswith("Report(ReportType.ADD_REQUEST_EVENT, ")
                ctx.check(ok, "D1", "EV.add", f"{qn}: exactly one add event when a request was added", fn, p.end, why_bad=f"{len(reps)} reports", construct=f"{qn}:event")
            else:
                ctx.check(not reps, "D1", "EV.add", f"{qn}: no add event when nothing was added", fn, p.end, why_bad="event without addition", construct=f"{qn}:event-without-add")


def _report_dict(fn, rtype: str):
    for p in flow.paths(fn.node):
        if p.kind == "return" and isinstance(p.value, ast.Call) and flow.dump(p.value.func) == "Report":
            a = p.value.args
            kw = {k.arg: k.value for k in p.value.keywords}
            t = kw.get("report_type", a[0] if a else None)
            d = kw.get("report", a[1] if len(a) > 1 else None)
            if t is not None and flow.dump(t) == f"ReportType.{rtype}" and isinstance(d, ast.Dict):
                return {k.value: v for k, v in zip(d.keys, d.values) if isinstance(k, ast.Constant)}
    return None


def formulas(ctx: Ctx):
    repo = ctx.repo
    fn = repo.func(VEO, "vehicle_move_event")
    sim, prev, nxt = fn.params[:3]
    d = _report_dict(fn, "VEHICLE_MOVE_EVENT")
    ctx.require(d is not None, "vehicle_move_event: report dict not found")
    want = {"distance_km": f"{nxt}.distance_traveled_km - {prev}.distance_traveled_km", "vehicle_id": f"{nxt}.id",
            "vehicle_state": f"{prev}.vehicle_state.__class__.__name__"}
    for k, w in want.items():
        ctx.check(k in d and flow.dump(d[k]) == w, "D5", "EV.formula", f"move event: {k} = {w}", fn, why_bad=f"{k} = {flow.dump(d[k])[:120] if k in d else '<missing>'}", construct=f"vehicle_move_event:{k}")
    fn = repo.func(VEO, "vehicle_charge_event")
    prev, nxt, nsim, st, ch = fn.params[:5]
    d = _report_dict(fn, "VEHICLE_CHARGE_EVENT")
    ctx.require(d is not None, "vehicle_charge_event: report dict not found")
    en = f"{nxt}.energy[{ch}.energy_type] - {prev}.energy[{ch}.energy_type]"
    pr = f"{st}.get_price({ch}.id)"
    want = {"energy": en, "station_id": f"{st}.id", "vehicle_id": f"{nxt}.id", "energy_units": f"{ch}.energy_type.units",
            "price": f"({en}) * {pr} if {pr} is not None else 0.0", "charger_id": f"{ch}.id"}
    for k, w in want.items():
        got = flow.dump(d[k]) if k in d else "<missing>"
        ok = got == w or got == w.replace(f"({en})", en)
        ctx.check(ok, "D5", "EV.formula", f"charge event: {k} = {w[:80]}", fn, why_bad=f"{k} = {got[:160]}", construct=f"vehicle_charge_event:{k}")


def station_load(ctx: Ctx):
    repo = ctx.repo
    outer = repo.func(VEO, "construct_station_load_events")
    add = repo.func(VEO, "construct_station_load_events._add")
    acc, rep = add.params[:2]
    n = 0
    for p in flow.paths(add.node):
        if p.kind != "return":
            continue
        facts = [(flow.dump(a), pol) for a, pol in p.facts()]
        if (f"{rep}.report_type != ReportType.VEHICLE_CHARGE_EVENT", True) in facts or (f"{rep}.report_type == ReportType.VEHICLE_CHARGE_EVENT", False) in facts:
            ctx.check(flow.dump(p.value) == acc, "D2", "EV.station-load", "other event types leave the accumulator unchanged", add, p.end, why_bad="changed", construct="_add:other-type")
            continue
        n += 1
        sid = f"{rep}.report['station_id']"
        want = f"{acc}.update({{{sid}: ({acc}.get({sid}, (0.0, ''))[0] + float({rep}.report['energy']), {rep}.report['energy_units'])}})"
        # the same sum written as a case split on `sid in acc`: the running total where the station is known, 0.0 where it is not
        known = (f"{sid} in {acc}", True) in facts
        unknown = (f"{sid} in {acc}", False) in facts
        alt = None
        if known:
            alt = f"{acc}.update({{{sid}: ({acc}[{sid}][0] + float({rep}.report['energy']), {rep}.report['energy_units'])}})"
        elif unknown:
            alt = f"{acc}.update({{{sid}: (0.0 + float({rep}.report['energy']), {rep}.report['energy_units'])}})"
        ctx.check(flow.dump(p.value) in (want, alt), "D2", "EV.station-load", "station load = running per-station sum of this step's charge-event energies", add, p.end,
                  why_bad=f"accumulator update is {flow.dump(p.value)[:260]}", construct="_add:sum")
    ctx.require(n >= 1, "construct_station_load_events._add: summing path not found")
    reps = outer.params[0]
    ok = any(flow.dump(c) == f"ft.reduce(_add, {reps}, immutables.Map())" for c in ast.walk(outer.node) if isinstance(c, ast.Call))
    ctx.check(ok, "D2", "EV.station-load", "the sum ranges over exactly the reports handed in (this step's events)", outer, why_bad="fold changed", construct="construct_station_load_events:fold")
    cast = repo.func(VEO, "construct_station_load_events._to_reports._cast_as_report")
    d = _report_dict(cast, "STATION_LOAD_EVENT")
    ok = d is not None and flow.dump(d.get("energy", ast.Constant(value=None))) == f"str(acc[{cast.params[0]}][0])" and flow.dump(d.get("station_id", ast.Constant(value=None))) == cast.params[0]
    ctx.check(ok, "D2", "EV.station-load", "the load record carries the accumulated energy of its station", cast, why_bad="fields changed", construct="_cast_as_report")
    # the handler passes this flush's reports
    h = repo.func(EH, "EventfulHandler.handle")
    rs = h.params[1]
    ok = any(e.name == "construct_station_load_events" and flow.cdump(e.call.args[0]) == flow.cdump(f"tuple(filter(lambda r: r.report_type != ReportType.INSTRUCTION, {rs}))") for p in flow.paths(h.node) for e in p.events)
    ctx.check(ok, "D2", "EV.station-load", "EventfulHandler derives station load from the reports of the current flush", h, why_bad="other source", construct="EventfulHandler.handle:load-source")


def stats(ctx: Ctx):
    h = ctx.repo.func(SH, "StatsHandler.handle")
    rs = h.params[1]
    cnt = f"Counter(map(lambda r: r.report_type, {rs}))"
    n = 0
    all_ok = True
    why = ""
    for p in flow.paths(h.node):
        if p.kind == "raise":
            continue
        n += 1
        got = {}
        for s in p.stores:
            got[flow.dump(s.raw)] = flow.cdump(s.value) if s.value is not None else None
        ok = got.get("self.stats.requests") == flow.cdump(f"{cnt}[ReportType.ADD_REQUEST_EVENT]") and got.get("self.stats.cancelled_requests") == flow.cdump(f"{cnt}[ReportType.CANCEL_REQUEST_EVENT]")
        if not ok:
            all_ok = False
            why = f"path [{p.cond_text()[:160]}] ends with requests += {got.get('self.stats.requests')}, cancelled += {got.get('self.stats.cancelled_requests')}"
    ctx.check(all_ok and n >= 1, "D2", "EV.stats", "on EVERY path of StatsHandler.handle the summary request/cancel counts grow by the number of ADD/CANCEL events in the flushed list", h,
              why_bad=why + ": add / cancel events flushed on that path are missing from the summary", construct="StatsHandler.handle:counts")
    got = {}
    for p in flow.paths(h.node):
        for s in p.stores:
            got[flow.dump(s.raw)] = flow.dump(s.value) if s.value is not None else None
    vk = [v for k, v in got.items() if k.startswith("self.stats.vkt[")]
    ok = bool(vk) and all("report['distance_km']" in v and "ReportType.VEHICLE_MOVE_EVENT" in v for v in vk)
    ctx.check(ok, "D2", "EV.stats", "vkt += distance_km of the move events", h, why_bad=f"{vk}", construct="StatsHandler.handle:vkt")
    wait_time(ctx)


def wait_time(ctx: Ctx):
    """The pickup record's waiting time: time_diff(request time of day, pickup time of day), where time_diff adds a day
    to a negative difference (a wait across midnight), and nothing else."""
    repo = ctx.repo
    TH = "nrel/hive/util/time_helpers.py"
    fn = repo.func(TH, "time_diff")
    a, b = fn.params[:2]
    dur = f"datetime.combine(date.min, {b}) - datetime.combine(date.min, {a})"
    seen = set()
    good = True
    for p in flow.paths(fn.node):
        if p.kind != "return":
            continue
        d = flow.dump(p.value)
        facts = [(flow.dump(x), pol) for x, pol in p.facts()]
        if (f"{a} == {b}", True) in facts:
            good = good and d == "timedelta()"
            seen.add("eq")
        elif (f"({dur}).days == -1", True) in facts:
            good = good and d == f"{dur} + timedelta(days=1)"
            seen.add("neg")
        elif (f"({dur}).days == -1", False) in facts:
            good = good and d == dur
            seen.add("pos")
        else:
            good = False
    ctx.check(good and seen == {"eq", "neg", "pos"}, "D5", "EV.formula", "time_diff: end - start on the clock, plus one day exactly when the difference is negative (wrap over midnight)", fn,
              why_bad="a wait that spans midnight is no longer reported as the (short) real wait", construct="time_diff:wrap")
    fn = repo.func(VEO, "report_pickup_request")
    veh, req, nsim = fn.params[:3]
    d = _report_dict(fn, "PICKUP_REQUEST_EVENT")
    ev = f"{nsim}.sim_time - {nsim}.sim_timestep_duration_seconds"
    ok = d is not None and flow.dump(d.get("wait_time_seconds", ast.Constant(value=None))) == f"time_diff({req}.departure_time.as_datetime_time(), ({ev}).as_datetime_time())" \
        and flow.dump(d.get("request_id", ast.Constant(value=None))) == f"{req}.id" and flow.dump(d.get("vehicle_id", ast.Constant(value=None))) == f"{veh}.id"
    ctx.check(ok, "D5", "EV.formula", "pickup event: wait = time_diff(request time of day, pickup time of day); ids of the picked request and picking vehicle", fn,
              why_bad=f"wait_time_seconds = {flow.dump(d.get('wait_time_seconds', ast.Constant(value=None)))[:160] if d else '?'}", construct="report_pickup_request:fields")


def tables(ctx: Ctx):
    repo = ctx.repo
    m = repo.module(RT)
    cls = m.classes.get("ReportType")
    ctx.require(cls is not None, "ReportType vanished")
    members = [s.targets[0].id for s in cls.node.body if isinstance(s, ast.Assign) and isinstance(s.targets[0], ast.Name)]
    fs = repo.func(RT, "ReportType.from_string")
    table = None
    for n in ast.walk(fs.node):
        if isinstance(n, ast.Dict) and len(n.keys) >= 5:
            table = {k.value: flow.dump(v) for k, v in zip(n.keys, n.values) if isinstance(k, ast.Constant)}
    ctx.require(table is not None, "ReportType.from_string: table not found")
    missing = [mm for mm in members if table.get(mm.lower()) != f"cls.{mm}"]
    ctx.check(not missing, "D3", "EV.tables", f"ReportType.from_string maps name.lower() -> member for all {len(members)} members", fs,
              why_bad=f"not round-tripping: {missing}", construct="ReportType.from_string:" + ",".join(missing))
    aj = repo.func(REP, "Report.as_json")
    ok = any(flow.dump(s.raw) == "out['report_type']" and flow.dump(s.value) == "self.report_type.name.lower()" for p in flow.paths(aj.node) for s in p.stores)
    ok2 = any(p.kind == "return" and flow.dump(p.value) == "{str(k): str(v) for k, v in self.report.items()}" for p in flow.paths(aj.node))
    ctx.check(ok and ok2, "D3", "EV.tables", "Report.as_json writes every field as a string and report_type = name.lower()", aj, why_bad="changed", construct="Report.as_json")
    h = repo.func(EH, "EventfulHandler.handle")
    writes = [e for p in flow.paths(h.node) for e in p.events if e.name == "write" and not e.deferred]
    ok = bool(writes) and all("json.dumps($elem(" in flow.dump(e.call) and ".as_json(), default=str)" in flow.dump(e.call) for e in writes)
    ctx.check(ok, "D3", "EV.tables", "the event log lines are json.dumps(report.as_json(), default=str)", h, why_bad=f"{[flow.dump(e.call)[:100] for e in writes[:2]]}", construct="EventfulHandler.handle:lines")
    # a record reaches the log exactly when its type is configured: every path that writes a report's line has tested
    # `<its type> in log_sim_config` true, and every path that tested it true writes (station load likewise, by its own type);
    # the line is the entry plus a newline
    cfg = "self.global_config.log_sim_config"
    n_w = 0
    for p in flow.paths(h.node):
        ws = [e for e in p.events if e.name == "write" and not e.deferred]
        facts = [(flow.dump(a), pol) for a, pol in p.facts()]
        tested_true = [d for d, pol in facts if d.endswith(f" in {cfg}") and pol is True] + [d.replace(" not in ", " in ") for d, pol in facts if d.endswith(f" not in {cfg}") and pol is False]
        tested_false = [d for d, pol in facts if d.endswith(f" in {cfg}") and pol is False] + [d.replace(" not in ", " in ") for d, pol in facts if d.endswith(f" not in {cfg}") and pol is True]
        for e in ws:
            n_w += 1
            d = flow.dump(e.call)
            per_report = "$elem(" in d and "construct_station_load_events" not in d
            need = (f"$elem(" if per_report else "ReportType.STATION_LOAD_EVENT")
            ok_w = any((t.startswith("$elem(") and ".report_type in " in t) if per_report else t.startswith("ReportType.STATION_LOAD_EVENT in ") for t in tested_true)
            ctx.check(ok_w, "D3", "EV.tables", "a line is written only for a record whose type is configured for the log", h, e.raw,
                      why_bad=f"`{d[:80]}` is written on a path [{p.cond_text()[:160]}] that has not found the record's type in log_sim_config (or found it absent): configured events are "
                              f"missing from the log, others appear",
                      construct="EventfulHandler.handle:filter:" + ("report" if per_report else "station-load"))
            ctx.check(d.endswith(" + '\\n')") or d.endswith(' + "\\n")'), "D3", "EV.tables", "each record is one line (entry + newline)", h, e.raw, why_bad=f"`{d[-40:]}`",
                      construct="EventfulHandler.handle:newline")
        # the other direction: the type was found configured inside the per-report loop, yet nothing is written on this path
        if not ws and any(t.startswith("$elem(") and ".report_type in " in t for t in tested_true) and p.kind in ("return", "fall"):
            ctx.violation("D3", "EV.tables", "a record whose type is configured is written", h, p.end,
                          why=f"path [{p.cond_text()[:160]}] found the record's type in log_sim_config and writes nothing", construct="EventfulHandler.handle:configured-not-written")
    ctx.require(n_w >= 2, "EventfulHandler.handle: the two write sites were not found")
    # reporter
    fr = repo.func(REP, "Reporter.file_report")
    ok = any(e.name == "append" and flow.dump(e.call) == f"self.reports.append({fr.params[1]})" for p in flow.paths(fr.node) for e in p.events)
    ctx.check(ok, "D3", "EV.tables", "Reporter.file_report appends the report to the pending list", fr, why_bad="changed", construct="Reporter.file_report")
    fl = repo.func(REP, "Reporter.flush")
    ok = False
    for p in flow.paths(fl.node):
        hs = [e for e in p.events if e.name == "handle"]
        st = [s for s in p.stores if flow.dump(s.raw) == "self.reports"]
        if p.has_marker("iter"):
            ok = len(hs) == 1 and flow.dump(hs[0].call) == f"$elem(self.handlers).handle(self.reports, {fl.params[1]})" and len(st) == 1 and flow.dump(st[0].value) == "[]"
    ctx.check(ok, "D3", "EV.tables", "Reporter.flush hands the pending list to every handler, then starts a new list", fl, why_bad="changed", construct="Reporter.flush")


def collectors(ctx: Ctx):
    """D4: a 'fresh' container obtained by a shallow copy of a container of mutable values aliases them."""
    repo = ctx.repo
    n = 0
    for rel, m in repo.modules.items():
        if not rel.startswith("nrel/hive/reporting"):
            continue
        for cname, c in m.classes.items():
            # attributes initialised with a container literal whose values are containers
            nested = set()
            for f in c.methods.values():
                for node in ast.walk(f.node):
                    if isinstance(node, (ast.Assign, ast.AnnAssign)):
                        tgt = node.targets[0] if isinstance(node, ast.Assign) else node.target
                        val = node.value
                        if isinstance(tgt, ast.Attribute) and isinstance(tgt.value, ast.Name) and tgt.value.id == "self" and isinstance(val, ast.Dict):
                            if any(isinstance(v, (ast.List, ast.Dict, ast.Set)) for v in val.values):
                                nested.add(tgt.attr)
            for f in c.methods.values():
                for node in ast.walk(f.node):
                    if isinstance(node, ast.Call):
                        src = None
                        d = flow.dump(node.func)
                        if isinstance(node.func, ast.Attribute) and node.func.attr == "copy" and isinstance(node.func.value, ast.Attribute) and flow.dump(node.func.value.value) == "self":
                            src = node.func.value.attr
                        elif d in ("dict", "copy.copy") and node.args and isinstance(node.args[0], ast.Attribute) and flow.dump(node.args[0].value) == "self":
                            src = node.args[0].attr
                        if src is not None and src in nested:
                            n += 1
                            ctx.violation("D4", "EV.alias", f"{cname}.{f.name}: shallow copy of self.{src}", f, node,
                                          why=f"self.{src} holds mutable containers: the copy shares them, so later appends go into (and survive in) the original — earlier events are reported again",
                                          construct=f"{cname}.{f.name}:shallow-copy:{src}")
            if nested:
                ctx.ok("D4", "EV.alias", f"{cname}: containers of containers {sorted(nested)} are never shallow-copied", file=rel, line=c.node.lineno, function=cname)
    h = repo.func(VCH, "VehicleChargeEventsHandler.clear")
    ok = any(flow.dump(s.raw) == "self.events" and isinstance(s.value, (ast.DictComp, ast.Dict)) for p in flow.paths(h.node) for s in p.stores)
    ctx.check(ok, "D4", "EV.alias", "VehicleChargeEventsHandler.clear() installs freshly built containers", h, why_bad="not a fresh dict of fresh lists", construct="VehicleChargeEventsHandler.clear")


def selftest():
    from ..selftest import V
    return [
        V("report-pre-final-vehicle", VO, "            report = vehicle_move_event(sim, vehicle, updated_vehicle, traverse_result, env)", "            report = vehicle_move_event(sim, vehicle, new_position_vehicle, traverse_result, env)", rule="EV.move"),
        V("move-no-report", VO, "            report = vehicle_move_event(sim, vehicle, updated_vehicle, traverse_result, env)\n            env.reporter.file_report(report)\n", "", rule="EV.move"),
        V("stranded-move-unreported", VO, "        if not hasattr(new_position_vehicle.vehicle_state, \"update_route\"):",
          "        if mechatronics.is_full(new_position_vehicle):\n            return simulation_state_ops.modify_vehicle(sim, new_position_vehicle)\n        if not hasattr(new_position_vehicle.vehicle_state, \"update_route\"):", rule="EV.move"),
        V("charge-no-report", VO, "            env.reporter.file_report(report)\n\n            return simulation_state_ops.modify_station(sim_with_vehicle, updated_station)", "            return simulation_state_ops.modify_station(sim_with_vehicle, updated_station)", rule="EV.charge"),
        V("dropoff-report-on-reject", SOPS, "                return SimulationStateError(message), None\n\n        report = report_dropoff_request(vehicle, sim, request)", "                env.reporter.file_report(report_dropoff_request(vehicle, sim, request))\n                return SimulationStateError(message), None\n\n        report = report_dropoff_request(vehicle, sim, request)", rule="EV.dropoff"),
        V("load-last-not-sum", VEO, "            updated_acc = acc.update({station_id: (updated_energy, energy_units)})", "            updated_acc = acc.update({station_id: (energy, energy_units)})", rule="EV.station-load"),
        V("shallow-copy-alias", VCH, "        self.events = {key: [] for key in self.prototype}\n\n    def close", "        self.events = self.prototype.copy()\n\n    def close", rule="EV.alias"),
        V("from-string-missing", RT, "            \"driver_schedule_event\": cls.DRIVER_SCHEDULE_EVENT,\n", "", rule="EV.tables"),
        V("distance-formula", VEO, "    delta_distance: float = next_vehicle.distance_traveled_km - prev_vehicle.distance_traveled_km", "    delta_distance: float = route_traversal.traversal_distance_km", rule="EV.formula"),
        V("cancel-counts-adds", SH, "        self.stats.cancelled_requests += c[ReportType.CANCEL_REQUEST_EVENT]", "        self.stats.cancelled_requests += c[ReportType.ADD_REQUEST_EVENT]", rule="EV.stats"),
        V("twin-report-after-commit", VO, "            env.reporter.file_report(report)\n\n            return simulation_state_ops.modify_station(sim_with_vehicle, updated_station)",
          "            result = simulation_state_ops.modify_station(sim_with_vehicle, updated_station)\n            env.reporter.file_report(report)\n            return result", kind="twin"),
    ]
