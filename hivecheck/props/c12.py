"""C12 — the trip dispatcher returns a valid minimum-cost matching (GD eligibility + matrix hand-off)."""
from __future__ import annotations

import ast

from .. import AnalysisError, flow, gd, cmp
from ..loader import walk_stmts
from ..report import Ctx
from ..canon import alpha_text
from . import c10, c17

DISP = "nrel/hive/dispatcher/instruction_generator/dispatcher.py"
AO = "nrel/hive/dispatcher/instruction_generator/assignment_ops.py"

EXPLANATION = (
    "Eligibility by guard dominance: every accepting path of the vehicle filter implies activity in "
    "valid_dispatch_states, driver available, fleet test, and remaining range > matching threshold; the request "
    "filter implies no dispatched vehicle and fleet access; both are the filters of the (id-sorted / (-value,id)-"
    "sorted) collections handed to find_assignment. Matrix hand-off: table[i][j] = cost_fn(assignees[i], targets[j]) "
    "over the full double range with consistent index roles, only infinite entries are replaced (by max finite + "
    "1), linear_sum_assignment is called on that table without `maximize`, pairs are (assignees[rows[k]].id, "
    "targets[cols[k]].id) for every k, the dispatcher passes h3_distance_cost and builds one instruction per pair "
    "with (vehicle id, request id) in that order. Trusted: SciPy's rectangular assignment solver (distinct rows / "
    "columns, min(n, m) pairs, minimum total cost). The 'member of the fleet' atom uses the vehicle as receiver: "
    "listed known finding (same construct as C10). Optimality as a numeric fact is delegated to the solver."
)



def _dispatcher_filter(repo, getter: str, default_name: str):
    """The function the dispatcher hands to get_vehicles / get_requests as `filter_function` (by role, not by name): the nested
    function of that name where it still exists, else whatever callable is passed."""
    from .. import rules as _rules
    solve = repo.func(DISP, "Dispatcher.generate_instructions._solve_assignment")
    f = repo.func_opt(DISP, f"Dispatcher.generate_instructions._solve_assignment.{default_name}")
    if f is not None:
        return f
    f = _rules.callable_argument(repo, solve, getter, "filter_function")
    if f is None:
        raise AnalysisError(f"_solve_assignment: no filter_function handed to {getter}")
    return f

def run(ctx: Ctx):
    ctx.attempt(eligibility, ctx)
    ctx.attempt(rejections, ctx)
    ctx.attempt(config_agreement, ctx)
    ctx.attempt(c17.dispatcher_filter, ctx, True)
    ctx.attempt(c10.dispatcher, ctx)
    ctx.attempt(receiver_role, ctx)
    ctx.attempt(matrix, ctx)
    ctx.attempt(wiring, ctx)
    ctx.floor("GD.eligible", 3)
    ctx.floor("DU.matrix", 5)
    ctx.not_decided += ["minimality of the total as a numeric fact (trusted solver)",
                        "across fleets a vehicle in two fleets can be paired twice (the property is stated per fleet)"]
    ctx.assumptions += ["scipy.optimize.linear_sum_assignment returns a minimum-cost assignment with distinct rows/cols and min(n, m) pairs"]


def eligibility(ctx: Ctx):
    fn = _dispatcher_filter(ctx.repo, "get_vehicles", "_is_valid_for_dispatch")
    v = fn.params[0]
    acc = gd.accepting_paths(fn)
    ctx.require(len(acc) >= 1, "_is_valid_for_dispatch has no accepting path")
    rng = f"environment.mechatronics.get({v}.mechatronics_id).range_remaining_km({v})"
    for p, atoms in acc:
        ds = [(flow.dump(gd._strip_bool(a)), pol) for a, pol in atoms]
        st = (f"{v}.vehicle_state.__class__.__name__.lower() not in environment.config.dispatcher.valid_dispatch_states", False) in ds or \
             (f"{v}.vehicle_state.__class__.__name__.lower() in environment.config.dispatcher.valid_dispatch_states", True) in ds
        av = (f"{v}.driver_state.available", True) in ds
        rg = any(pol is True and d in (f"{rng} > environment.config.dispatcher.matching_range_km_threshold",) for d, pol in ds) or \
            any(pol is False and d in (f"{rng} <= environment.config.dispatcher.matching_range_km_threshold",) for d, pol in ds)
        for ok, what, key in ((st, "its activity is one of the configured dispatchable activities", "STATE"), (av, "its driver is available", "AVAIL"),
                              (rg, "its remaining range exceeds the matching threshold", "RANGE")):
            ctx.check(ok, "D1", "GD.eligible", f"_is_valid_for_dispatch accepts a vehicle only if {what}", fn, p.end,
                      why_bad=f"accepting path [{p.cond_text()[:260]}] returning {flow.dump(p.value)[:80]} does not imply it", construct=f"_is_valid_for_dispatch:{key}")
        # base charging: additionally range >= base threshold
        base = [d for d, pol in ds if "isinstance(" in d and "ChargingBase" in d]
    # range test is strict '>' on the right operands (CMP)
    for p in flow.paths(fn.node):
        if p.kind == "return" and not isinstance(p.value, ast.Constant):
            val = gd._strip_bool(p.value)
            try:
                rows = cmp.predicate_table(val, {rng: "r", "environment.config.dispatcher.matching_range_km_threshold": "t"}, grid=range(0, 3))
                bad = cmp.compare_table(rows, lambda g, f: g["r"] > g["t"])
                ctx.check(not bad, "D1", "GD.eligible", "final eligibility test: remaining range > matching threshold (truth table)", fn, p.end,
                          why_bad=f"differs on {bad[:3]}", construct="_is_valid_for_dispatch:range-table")
            except AnalysisError:
                ctx.violation("D1", "GD.eligible", "final eligibility test: remaining range > matching threshold", fn, p.end,
                              why=f"an accepting return `{flow.dump(val)[:120]}` is not the comparison of remaining range with the matching threshold", construct="_is_valid_for_dispatch:range-return")


def config_agreement(ctx: Ctx):
    """Writer and reader of `valid_dispatch_states` agree. The dispatcher tests `<activity class name>.lower() in valid_dispatch_states`;
    the configuration loader is the only writer of that tuple. Whatever the loader does to a configured name must leave a lower-cased
    class name unchanged and fold the case: a chain of `lower()` (required), `strip()` and removals of separators (`replace("_", "")`).
    A loader that rewrites names any other way (a lookup table, a helper) maps some configured activity to a string the dispatcher never
    produces -- vehicles in that activity silently stop being eligible and fewer than min(vehicles, requests) pairs come back."""
    DC = "nrel/hive/config/dispatcher_config.py"
    fn = ctx.repo.func(DC, "DispatcherConfig.from_dict")
    found = 0
    for n in ast.walk(fn.node):
        val = None
        if isinstance(n, ast.Assign) and len(n.targets) == 1 and isinstance(n.targets[0], ast.Subscript) and isinstance(n.targets[0].slice, ast.Constant) \
                and n.targets[0].slice.value == "valid_dispatch_states":
            val = n.value
        elif isinstance(n, ast.keyword) and n.arg == "valid_dispatch_states":
            val = n.value
        if val is None:
            continue
        found += 1
        inner = val
        while isinstance(inner, ast.Call) and flow.dump(inner.func) in ("tuple", "list", "sorted", "frozenset", "set") and inner.args:
            inner = inner.args[0]
        elt, var = None, None
        if isinstance(inner, (ast.GeneratorExp, ast.ListComp, ast.SetComp)) and len(inner.generators) == 1 and isinstance(inner.generators[0].target, ast.Name) and not inner.generators[0].ifs:
            elt, var = inner.elt, inner.generators[0].target.id
        elif isinstance(inner, ast.Call) and flow.dump(inner.func) == "map" and len(inner.args) == 2:
            f = inner.args[0]
            if isinstance(f, ast.Lambda) and len(f.args.args) == 1:
                elt, var = f.body, f.args.args[0].arg
            elif flow.dump(f) == "str.lower":
                elt, var = ast.parse("x.lower()", mode="eval").body, "x"
        if elt is None:
            raise AnalysisError(f"DispatcherConfig.from_dict: valid_dispatch_states built in an unrecognised way: {flow.dump(val)[:120]}")
        chain = []
        e = elt
        bad = None
        while not (isinstance(e, ast.Name) and e.id == var):
            if isinstance(e, ast.Call) and isinstance(e.func, ast.Attribute):
                m, a = e.func.attr, e.args
                if m in ("lower", "casefold") and not a and not e.keywords:
                    chain.append("lower")
                elif m in ("strip", "lstrip", "rstrip") and not a:
                    chain.append(m)
                elif m == "replace" and len(a) == 2 and isinstance(a[0], ast.Constant) and a[0].value in ("_", " ", "-") and isinstance(a[1], ast.Constant) and a[1].value == "":
                    chain.append("replace")
                else:
                    bad = flow.dump(e)[:120]
                    break
                e = e.func.value
            else:
                bad = flow.dump(e)[:120]
                break
        ok = bad is None and "lower" in chain
        ctx.check(ok, "D1", "GD.eligible", "DispatcherConfig.from_dict folds the configured activity names the way the dispatcher folds the class name (lower case; separators aside)", fn, n,
                  why_bad=(f"a configured name goes through `{bad}`" if bad else f"a configured name goes through {chain or 'nothing'} (no case folding)") +
                          ": the dispatcher compares `vehicle_state.__class__.__name__.lower()` with these entries, so a name rewritten any other way is never matched and the vehicles "
                          "in that activity are never eligible", construct="DispatcherConfig.from_dict:valid_dispatch_states")
    ctx.require(found >= 1, "DispatcherConfig.from_dict: no statement builds valid_dispatch_states")


def rejections(ctx: Ctx):
    """The other direction of eligibility ('the number of pairs equals the smaller of the two counts' counts EVERY eligible vehicle):
    _is_valid_for_dispatch turns a vehicle away only for one of the stated reasons — activity not dispatchable, driver off shift,
    not of the fleet being solved, no powertrain record, charging at a base with less than the base threshold of range — and the
    last one exactly: at a base AND below the threshold (truth table)."""
    fn = _dispatcher_filter(ctx.repo, "get_vehicles", "_is_valid_for_dispatch")
    v = fn.params[0]
    rng = f"environment.mechatronics.get({v}.mechatronics_id).range_remaining_km({v})"
    bthr = "environment.config.dispatcher.base_charging_range_km_threshold"
    n = 0
    for p in flow.paths(fn.node):
        if p.kind != "return" or not (isinstance(p.value, ast.Constant) and p.value.value is False):
            continue
        deciding = [c for c in p.conds if isinstance(c.pol, bool) and c.test is not None and flow._const_truth(c.test) is None]
        if not deciding:
            continue
        last = deciding[-1]
        d = flow.dump(gd._strip_bool(last.test))
        n += 1
        reason = None
        if "valid_dispatch_states" in d:
            reason = "activity"
        elif d in (f"{v}.driver_state.available", f"not {v}.driver_state.available"):
            reason = "driver"
        elif "grant_access_to_membership" in d:
            reason = "fleet"
        elif d.replace("$isnone(", "").startswith(f"environment.mechatronics.get({v}.mechatronics_id)") and "range_remaining_km" not in d:
            reason = "powertrain"
        elif "ChargingBase" in d:
            try:
                rows = cmp.predicate_table(last.test, {rng: "r", bthr: "b"}, grid=range(0, 3))
                atom = f"isinstance({v}.vehicle_state, ChargingBase)"
                if not all(atom in f or not f for g, f, val in rows):
                    bad = [("free atoms", [f for _, f, _ in rows][:1], None)]
                else:
                    # which side the threshold itself falls on is not stated by the property ('enough remaining range'): either is accepted
                    bad1 = [(g, f, val) for g, f, val in rows if (val == last.pol) != (bool(f.get(atom, False)) and g["r"] < g["b"])]
                    bad2 = [(g, f, val) for g, f, val in rows if (val == last.pol) != (bool(f.get(atom, False)) and g["r"] <= g["b"])]
                    bad = bad1 if (bad1 and bad2) else []
                ctx.check(not bad, "D1", "GD.eligible", "a vehicle charging at a base is turned away exactly when its range is below the base threshold (at a base AND below it)", fn, p.end,
                          why_ok="truth table over (at base, range vs threshold)",
                          why_bad=f"`{d[:140]}` differs from `at a base and range < base threshold`, e.g. {bad[:2]}: vehicles that are eligible are left out of the matching",
                          construct="_is_valid_for_dispatch:base-guard")
                continue
            except (cmp.Unknown, AnalysisError) as e:
                raise AnalysisError(f"_is_valid_for_dispatch: base-charging guard `{d[:100]}` not understood ({e})")
        ctx.check(reason is not None, "D1", "GD.eligible", f"_is_valid_for_dispatch turns a vehicle away only for a stated reason ({reason or '?'})", fn, p.end,
                  why_bad=f"a vehicle is rejected because `{('' if last.pol else 'not ') + d[:160]}`: that is none of the stated reasons, so an eligible vehicle is left out and the matching is "
                          f"smaller (or costlier) than the best one",
                  construct=f"_is_valid_for_dispatch:rejects:{d[:100]}")
    ctx.require(n >= 4, f"_is_valid_for_dispatch: only {n} rejecting paths seen")


def receiver_role(ctx: Ctx):
    fn = _dispatcher_filter(ctx.repo, "get_vehicles", "_is_valid_for_dispatch")
    v = fn.params[0]
    for node in ast.walk(fn.node):
        if isinstance(node, ast.Call) and isinstance(node.func, ast.Attribute) and node.func.attr.startswith("grant_access"):
            recv = node.func.value
            if isinstance(recv, ast.Attribute) and recv.attr == "membership" and flow.dump(recv.value) == v:
                ctx.violation("D1", "GD.receiver-role", f"{fn.qualname}: {flow.dump(node)[:100]}", fn, node,
                              why="'member of the fleet' is tested with the vehicle's own membership as receiver: a vehicle without membership is granted every fleet",
                              construct=f"receiver-role:Vehicle:{node.func.attr}")
            else:
                ctx.ok("D1", "GD.receiver-role", f"{fn.qualname}: {flow.dump(node)[:100]}", fn, node)


def matrix(ctx: Ctx):
    fn = ctx.repo.func(AO, "find_assignment")
    A, T, cost = fn.params[:3]
    # early return only when one side is empty
    for p in flow.paths(fn.node):
        if p.kind == "return" and flow.dump(p.value) == "AssignmentSolution()":
            rows = None
            conds = [c for c in p.conds if isinstance(c.pol, bool)]
            ok = len(conds) == 1
            if ok:
                rows = cmp.predicate_table(conds[0].test, {f"len({A})": "n", f"len({T})": "m"}, grid=range(0, 3))
                ok = not cmp.compare_table(rows, lambda g, f: (g["n"] == 0 or g["m"] == 0) == conds[0].pol)
            ctx.check(ok, "D2", "DU.matrix", "the empty solution is returned only when there are no vehicles or no requests", fn, p.end,
                      why_bad="early return under another condition", construct="find_assignment:early-return")
    # the filling loops
    loops = [s for s in walk_stmts(fn.node) if isinstance(s, ast.For)]
    fill = None
    for lo in loops:
        inner = [s for s in lo.body if isinstance(s, ast.For)]
        if inner:
            fill = (lo, inner[0])
    if fill is None:
        raise AnalysisError("find_assignment: nested filling loops not found")
    lo, li = fill
    i, j = flow.dump(lo.target), flow.dump(li.target)
    ok_ranges = flow.dump(lo.iter) == f"range(len({A}))" and flow.dump(li.iter) == f"range(len({T}))"
    ok_ranges_swapped = flow.dump(lo.iter) == f"range(len({T}))" and flow.dump(li.iter) == f"range(len({A}))"
    if ok_ranges_swapped:
        i, j = j, i
        ok_ranges = True
    ctx.check(ok_ranges, "D2", "DU.matrix", "the cost table is filled over the full double range (every vehicle x every request)", fn, lo,
              why_bad=f"loops over {flow.dump(lo.iter)} / {flow.dump(li.iter)}", construct="find_assignment:ranges")
    stores = []
    # locals of the outer loop body that the inner loop reads (`assignee = assignees[i]`) are expanded
    pre_env = {}
    for st_ in lo.body:
        if st_ is li:
            break
        if isinstance(st_, ast.Assign) and len(st_.targets) == 1 and isinstance(st_.targets[0], ast.Name):
            pre_env[st_.targets[0].id] = flow.subst(st_.value, pre_env)
    for p in flow.paths_of_block(li.body, pre_env or None):
        for s in p.stores:
            if flow.dump(s.raw).startswith("table["):
                stores.append(s)
    ok = bool(stores) and all(flow.dump(s.raw) == f"table[{i}][{j}]" and flow.dump(s.value) == f"{cost}({A}[{i}], {T}[{j}])" for s in stores)
    ctx.check(ok, "D2", "DU.matrix", "table[i][j] = cost_fn(assignees[i], targets[j]) (rows = vehicles, columns = requests)", fn, li,
              why_bad=f"stores {[(flow.dump(s.raw), flow.dump(s.value)[:60]) for s in stores[:2]]}", construct="find_assignment:fill")
    # table shape and inf replacement, solver call, pairs
    src_calls = {flow.dump(c): c for c in ast.walk(fn.node) if isinstance(c, ast.Call)}
    ok = any(d.startswith(f"np.full((len({A}), len({T})), ") for d in src_calls)
    ctx.check(ok, "D2", "DU.matrix", "the table has one row per vehicle and one column per request", fn, why_bad="shape changed", construct="find_assignment:shape")
    solver = [c for d, c in src_calls.items() if d.startswith("linear_sum_assignment(")]
    ok = len(solver) == 1 and flow.dump(solver[0]) == "linear_sum_assignment(table)"
    ctx.check(ok, "D2", "DU.matrix", "linear_sum_assignment(table) is called on the cost table, minimising (no `maximize`)", fn, solver[0] if solver else None,
              why_bad=f"{[flow.dump(c) for c in solver]}", construct="find_assignment:solver-call")
    repl = [s for s in walk_stmts(fn.node) if isinstance(s, ast.Assign) and isinstance(s.targets[0], ast.Subscript) and flow.dump(s.targets[0].value) == "table" and not isinstance(s.targets[0].slice, ast.Name)
            and ("table ==" in flow.dump(s.targets[0].slice) or "(table)" in flow.dump(s.targets[0].slice))]
    INF_MASKS = ("table == float('inf')", "float('inf') == table", "np.isposinf(table)", "numpy.isposinf(table)", "table == np.inf", "table == math.inf")
    ok = len(repl) == 1 and flow.dump(repl[0].targets[0].slice) in INF_MASKS and flow.dump(repl[0].value) == "upper_bound"
    ctx.check(ok, "D2", "DU.matrix", "only infinite entries are replaced, by the upper bound", fn, repl[0] if repl else None,
              why_bad=f"{[flow.dump(r)[:80] for r in repl]}", construct="find_assignment:inf-replacement")
    # upper bound = max finite cost + 1
    ub_ok = any(isinstance(s, ast.AugAssign) and flow.dump(s.target) == "upper_bound" and isinstance(s.op, ast.Add) and flow.dump(s.value) == "1" for s in walk_stmts(fn.node))
    # the update inside the fill loop, as a function of (this cost, bound so far): the larger of the two for a finite cost, unchanged for an infinite one
    ub_upd = False
    inner_loops = [l for l in ast.walk(fn.node) if isinstance(l, ast.For) and any(isinstance(x, ast.Name) and x.id == "upper_bound" and isinstance(x.ctx, ast.Store) for x in ast.walk(l))]
    if inner_loops:
        body = min(inner_loops, key=lambda l: sum(1 for _ in ast.walk(l))).body
        try:
            bps = flow.paths_of_block(body)
            import math
            good = True
            cost_keys = {"cost"} | {flow.dump(q.env["cost"]) for q in bps if "cost" in q.env}
            for c_ in (0, 1, 2, math.inf):
                for ub in (-math.inf, 0, 1, 2):
                    ev = cmp.Evaluator({**{k: c_ for k in cost_keys}, "upper_bound": ub}, {})
                    p_ = cmp.taken_path(bps, ev)
                    if p_ is None:
                        good = False
                        continue
                    got = ev.num(p_.env["upper_bound"]) if "upper_bound" in p_.env else ub
                    want = ub if c_ == math.inf else max(ub, c_)
                    good = good and got == want
            ub_upd = good
        except (cmp.Unknown, AnalysisError, KeyError):
            ub_upd = False
    ctx.check(ub_ok and ub_upd, "D2", "DU.matrix", "upper bound = largest finite cost + 1 (worse than every real pairing)", fn, why_bad="upper bound computation changed", construct="find_assignment:upper-bound")
    inner = ctx.repo.func(AO, "find_assignment._add_to_solution")
    sol, k = inner.params[:2]
    unpack = [s_ for s_ in walk_stmts(fn.node) if isinstance(s_, ast.Assign) and isinstance(s_.value, ast.Call) and flow.dump(s_.value.func) == "linear_sum_assignment"]
    ok_unpack = len(unpack) == 1 and flow.dump(unpack[0].targets[0]) == "(rows, cols)"
    ctx.check(ok_unpack, "D2", "DU.matrix", "the solver's result is unpacked as (row indices, column indices)", fn, unpack[0] if unpack else None,
              why_bad=f"unpacked as {flow.dump(unpack[0].targets[0]) if unpack else '?'}: vehicles and requests are read with each other's indices", construct="find_assignment:unpack")
    # ... and nothing else ever binds them: index arrays from any other source (a shortcut for small tables, a greedy pass) carry no
    # guarantee of distinct rows and distinct columns, which is what makes the pairs an assignment at all
    other = [s_ for s_ in walk_stmts(fn.node) if isinstance(s_, (ast.Assign, ast.AugAssign, ast.AnnAssign)) and s_ not in unpack
             and any(isinstance(x, ast.Name) and x.id in ("rows", "cols") and isinstance(x.ctx, ast.Store) for t_ in (s_.targets if isinstance(s_, ast.Assign) else [s_.target]) for x in ast.walk(t_))]
    ctx.check(not other, "D2", "DU.matrix", "the index arrays read back as pairs are bound by the solver's result and by nothing else", fn, other[0] if other else None,
              why_bad=f"`{flow.dump(other[0])[:120] if other else ''}` also binds them: pairs read from index arrays the solver did not produce need be neither distinct (one request given to two "
                      f"vehicles in the same step) nor of minimum total cost",
              construct="find_assignment:indices-not-from-solver")
    ps = [p for p in flow.paths(inner.node) if p.kind == "return"]
    want = f"{sol}.add(({A}[rows[{k}]].id, {T}[cols[{k}]].id), table[rows[{k}]][cols[{k}]])"
    ok = flow.values_match(ps, want)
    zipped = False
    if not ok:
        # the same read-back over zip(rows, cols): element k is the pair (rows[k], cols[k]), projected [0] for the vehicle and [1] for the request
        want_z = f"{sol}.add(({A}[{k}[0]].id, {T}[{k}[1]].id), table[{k}[0]][{k}[1]])"
        zipped = flow.values_match(ps, want_z)
        ok = zipped
    ctx.check(ok, "D2", "DU.matrix", "pair k = (assignees[rows[k]].id, targets[cols[k]].id): both indices come from the solver", inner,
              why_bad=f"returns {flow.dump(ps[0].value)[:260] if ps else '?'}", construct="_add_to_solution:pair")
    ok = any(d == f"ft.reduce(_add_to_solution, range(len(rows)), AssignmentSolution())" for d in src_calls) if not zipped else \
        any(d == "ft.reduce(_add_to_solution, zip(rows, cols), AssignmentSolution())" for d in src_calls)
    ctx.check(ok, "D2", "DU.matrix", "every solver pair is read back (k over range(len(rows)))", fn, why_bad="fold changed", construct="find_assignment:read-back")
    add = ctx.repo.func(AO, "AssignmentSolution.add")
    ps = [p for p in flow.paths(add.node) if p.kind == "return"]
    pr = add.params[1]
    ok = len(ps) == 1 and isinstance(ps[0].value, ast.Call) and {x.arg: flow.dump(x.value) for x in ps[0].value.keywords}.get("solution") in (f"({pr},) + self.solution", f"self.solution + ({pr},)")
    ctx.check(ok, "D2", "DU.matrix", "AssignmentSolution.add keeps every earlier pair", add, why_bad="changed", construct="AssignmentSolution.add")
    hc = ctx.repo.func(AO, "h3_distance_cost")
    a, b = hc.params[:2]
    ps = [p for p in flow.paths(hc.node) if p.kind == "return"]
    ok = len(ps) == 1 and flow.dump(ps[0].value) in (f"h3.h3_distance({a}.geoid, {b}.geoid)", f"h3.h3_distance({b}.geoid, {a}.geoid)")
    ctx.check(ok, "D2", "DU.matrix", "h3_distance_cost = grid distance between the two entities' cells", hc, why_bad="changed", construct="h3_distance_cost")


def wiring(ctx: Ctx):
    solve = ctx.repo.func(DISP, "Dispatcher.generate_instructions._solve_assignment")
    found = False
    for p in flow.paths(solve.node):
        for e in p.calls("find_assignment"):
            found = True
            a = e.call.args
            ok = len(a) >= 3 and flow.dump(a[2]) == "assignment_ops.h3_distance_cost"
            ctx.check(ok, "D2", "DU.wiring", "the dispatcher minimises h3 grid distance", solve, e.raw, why_bad=f"cost function {flow.dump(a[2]) if len(a) > 2 else '?'}", construct="_solve_assignment:cost-fn")
            kw = {k.arg: flow.dump(k.value) for k in a[1].keywords} if len(a) > 1 and isinstance(a[1], ast.Call) else {}
            ctx.check(kw.get("sort_key") == alpha_text("lambda r: (-r.value, r.id)"), "D2", "DU.wiring", "requests are handed over sorted by (-value, id) (a total order)", solve, e.raw,
                      why_bad=f"sort_key={kw.get('sort_key')}", construct="_solve_assignment:request-order")
        if found:
            if p.kind == "return":
                d = flow.cdump(p.value)
                # canonical: <instructions so far> + tuple(DispatchTripInstruction(pair[0], pair[1]) for pair in <find_assignment(...)>.solution)
                ok = "+ tuple((DispatchTripInstruction(_0[0], _0[1]) for _0 in " in d and ".solution))" in d and "find_assignment(" in d
                ctx.check(ok, "D2", "DU.wiring", "one DispatchTripInstruction(vehicle id, request id) per solution pair, appended to the instructions so far", solve, p.end,
                          why_bad=f"returns {d[:200]}", construct="_solve_assignment:instructions")
            break
    ctx.require(found, "_solve_assignment no longer calls find_assignment")


def selftest():
    from ..selftest import V
    return [
        V("no-range-check-at-base", DISP, "                    and range_remaining_km < base_charging_range_km_threshold\n                ):\n                    return False",
          "                ):\n                    return bool(range_remaining_km >= base_charging_range_km_threshold)", rule="GD.eligible"),
        V("drop-available", DISP, "                elif not vehicle.driver_state.available:\n                    return False\n", "", rule="GD.eligible"),
        V("drop-state-filter", DISP, "                if vehicle_state_str not in environment.config.dispatcher.valid_dispatch_states:\n                    return False\n                elif not vehicle.driver_state.available:",
          "                if not vehicle.driver_state.available:", rule="GD.eligible"),
        V("table-transposed", AO, "                table[i][j] = cost", "                table[j][i] = cost", rule="DU.matrix"),
        V("maximize", AO, "        rows, cols = linear_sum_assignment(table)", "        rows, cols = linear_sum_assignment(table, maximize=True)", rule="DU.matrix"),
        V("rows-dropped", AO, "            this_pair = (assignees[rows[i]].id, targets[cols[i]].id)", "            this_pair = (assignees[i].id, targets[cols[i]].id)", rule="DU.matrix"),
        V("rows-cols-swapped", AO, "        rows, cols = linear_sum_assignment(table)", "        cols, rows = linear_sum_assignment(table)", rule="DU.matrix"),
        V("replace-all", AO, "        table[table == float(\"inf\")] = upper_bound", "        table[table >= 0] = upper_bound", rule="DU.matrix"),
        V("cost-great-circle", DISP, "                assignment_ops.h3_distance_cost,", "                assignment_ops.great_circle_distance_cost,", rule="DU.wiring"),
        V("instruction-args-swapped", DISP, "                    DispatchTripInstruction(pair[0], pair[1]),", "                    DispatchTripInstruction(pair[1], pair[0]),", rule="DU.wiring"),
        V("range-ge", DISP, "                    range_remaining_km > environment.config.dispatcher.matching_range_km_threshold", "                    range_remaining_km >= environment.config.dispatcher.matching_range_km_threshold", rule="GD.eligible"),
        V("twin-loop-order", AO, "        for i in range(len(assignees)):\n            for j in range(len(targets)):\n                cost = cost_fn(assignees[i], targets[j])",
          "        for j in range(len(targets)):\n            for i in range(len(assignees)):\n                cost = cost_fn(assignees[i], targets[j])", kind="twin"),
    ]
