"""C01 — runs are reproducible across processes and hash seeds (HO hash-order taint, typed)."""
from __future__ import annotations

import ast

from .. import AnalysisError, PKG, flow
from ..ho import HO
from ..index import index, in_pkg, enclosing_func
from ..loader import parent, dotted, fq_dotted
from ..report import Ctx

EXPLANATION = (
    "Hash-order taint analysis over the whole package, with sources typed by the project's own type checker "
    "(set / frozenset / AbstractSet / immutables.Map and views; h3 set-returning externals from a table): every "
    "iteration-like use of a hash-ordered collection is followed through order-preserving wrappers, locals, "
    "returned values (to the callers) and arguments (into the callee) until it reaches a sanitiser (sorted with a "
    "TOTAL key — the key contains the element's unique id —, set/Map construction, len/any/all/in, min/max without "
    "key, keyed commutative folds and loops, log-line writes) or an order-consuming use (non-commutative loop / "
    "reducer, early exit, indexing, unpacking, next, min/max/sorted with a partial key, join, float sum, random "
    "draw by position, storing the sequence in state). Unclassifiable uses are reported (fail closed). Sort-key "
    "parameters create obligations at every call site. Randomness: every random / numpy.random use is in a function "
    "that seeds first or is reached only after run()/load_scenario() seeded; uuid4 values flow only into instance_id, "
    "which is never compared, sorted on or used as a key. Exceptions are a frozen table of symbols, one reason each "
    "(the property's own exemptions: per-run tags, line order within a step, printed order of set members). "
    "Not decided: bit-identical floats across machines; determinism of third-party libraries."
)

# (file, qualified function) -> reason the hash order cannot reach entity states, the set of events or the summary
EXCEPTIONS = {
    ("nrel/hive/model/membership.py", "Membership.as_tuple", "origin"): "exempted by the property: order in which members of a set-valued field are listed",
    ("nrel/hive/model/membership.py", "Membership.__str__", "origin"): "exempted by the property: printed order of a membership list",
    ("nrel/hive/model/membership.py", "Membership.to_json", "origin"): "exempted by the property: printed order of a membership list (the value only ever goes into report records)",
    ("nrel/hive/reporting/vehicle_event_ops.py", "vehicle_move_event", "reduce-order-sensitive"): "dominated by `len(keys) > 1 -> raise`: the energy map has exactly one key, so the fold sees one element",
    ("nrel/hive/reporting/vehicle_event_ops.py", "vehicle_move_event", "index"): "dominated by `len(keys) > 1 -> raise`: the energy map has exactly one key, so list(keys)[0] is that key",
    ("nrel/hive/reporting/reporter_ops.py", "log_station_capacities", "reduce-order-sensitive"): "float sum written to station_capacities.csv, which is not one of the property's observables (states, events, summary)",
    ("nrel/hive/state/simulation_state/update/charging_price_update.py", "ChargingPriceUpdate.build", "reduce-order-sensitive"): "default rows are later accumulated per distinct ('default', charger_id) key: commutative",
    ("nrel/hive/initialization/initialize_simulation.py", "station_init_function", "origin"): "adds stations with distinct ids; SimulationState maps compare order-free",
    ("nrel/hive/dispatcher/instruction/instruction_ops.py", "trip_plan_all_requests_allow_pooling", "reduce-order-sensitive"): "only the order of ids inside an error message depends on it; the verdict (None / message present) does not",
    ("nrel/hive/model/station/station_ops.py", "station_state_updates", "reduce-order-sensitive"): "one ChargerState per distinct charger id of the Map: updates of different plug types commute",
}

SORT_KEY_FUNCS = {"get_vehicles", "get_requests", "get_stations", "get_bases", "iterate_vals", "iterate_items", "iterate_sim_coll"}
SEEDERS = {"random.seed", "numpy.random.seed", "np.random.seed"}
RANDOM_PREFIX = ("random.", "numpy.random.", "np.random.", "secrets.")
FS_ORDER = {"os.listdir", "os.scandir", "os.walk", "glob.glob", "glob.iglob"}
WALL_CLOCK = {"time.time", "time.time_ns", "time.perf_counter", "time.monotonic", "datetime.now", "datetime.datetime.now", "datetime.datetime.utcnow",
              "datetime.datetime.today", "datetime.date.today", "os.urandom"}


LOCAL_ZONE = {"time.localtime": "struct_time in the local zone", "time.mktime": "interprets its argument in the local zone", "time.ctime": "local-zone text",
              "time.asctime": "local-zone text", "time.strftime": "formats the local time when no tuple is given", "time.tzset": "changes the process's zone",
              "datetime.date.fromtimestamp": "date in the local zone", "locale.getlocale": "process locale", "locale.setlocale": "process locale",
              "locale.atof": "locale-dependent parsing", "locale.atoi": "locale-dependent parsing", "os.getenv": "process environment", "os.getpid": "process id",
              "os.cpu_count": "machine dependent", "socket.gethostname": "machine dependent", "platform.node": "machine dependent", "getpass.getuser": "user dependent"}


def ambient_dependence(fn, node: ast.Call, d: str):
    """(what, why) when the call's value depends on the process's time zone / locale / environment, else None.
    datetime.fromtimestamp(x) without a tz argument converts to the LOCAL zone (utcfromtimestamp / tz=timezone.utc do not);
    naive .astimezone() and .timestamp() of a naive datetime use the local zone too."""
    if d == "datetime.datetime.fromtimestamp":
        has_tz = len(node.args) >= 2 or any(k.arg in ("tz", None) for k in node.keywords)
        if not has_tz:
            return ("fromtimestamp() without tz", "datetime.fromtimestamp(t) with no tz converts the epoch value to the local time zone of the process")
    if d in LOCAL_ZONE:
        if d == "time.strftime" and len(node.args) >= 2:
            return None
        return (d + "()", LOCAL_ZONE[d])
    if d.startswith("os.environ"):
        return (d + "()", "process environment")
    if isinstance(node.func, ast.Attribute):
        if node.func.attr == "astimezone" and not node.args and not node.keywords:
            return ("astimezone() without a zone", "converts to the local time zone of the process")
        if node.func.attr == "timestamp" and not node.args and isinstance(node.func.value, ast.Call):
            inner = fq_dotted(fn.module, node.func.value.func) or ""
            if inner in ("datetime.datetime.fromisoformat", "datetime.datetime.strptime", "datetime.datetime.combine", "datetime.datetime"):
                return (".timestamp() of a naive datetime", "a datetime without tzinfo is taken to be in the local time zone of the process")
        if node.func.attr in ("environ",):
            return None
    return None


def hidden_input_sites(repo, funcs):
    """(function, call node, dotted target) for every call in `funcs` that reads a process-global generator or the
    wall clock, resolved through each module's import table."""
    out = []
    for fn in funcs:
        for node in ast.walk(fn.node):
            if isinstance(node, ast.Call) and enclosing_func(node) is fn:
                d = fq_dotted(fn.module, node.func) or ""
                if (d.startswith(RANDOM_PREFIX) and d not in SEEDERS) or d in WALL_CLOCK:
                    out.append((fn, node, d))
    return out


def run(ctx: Ctx):
    repo = ctx.repo
    types = ctx.types
    ctx.extra["types"] = types.stats()
    h = HO(repo, types, EXCEPTIONS).run()
    ctx.require(h.sources >= 300, f"HO: only {h.sources} hash-ordered expressions typed — the type index does not cover the package")
    ctx.extra["ho"] = {"typed_sources": h.sources, "classified_ok": len([o for o in h.oks if o.kind == "ok"]), "tabled": len([o for o in h.oks if o.kind == "tabled"]),
                       "unresolved_set_callees_assumed_order_free": sorted(h.unknown_set_callees)}
    seen = set()
    for o in h.oks:
        k = (o.fn.relpath, o.fn.qualname, o.what, getattr(o.node, "lineno", 0))
        if k in seen:
            continue
        seen.add(k)
        if o.kind == "tabled":
            ctx.ok("D1", "HO.tabled", f"{o.fn.qualname}: {o.what}", o.fn, o.node, why="exception table: " + o.why)
        else:
            ctx.ok("D1", "HO.use", f"{o.fn.qualname}: {o.what}", o.fn, o.node, why=" > ".join(c[:60] for c in o.chain)[:300])
    for f in h.findings:
        k = (f.fn.relpath, f.fn.qualname, f.what)
        if k in seen:
            continue
        seen.add(k)
        ctx.violation("D1" if "key" not in f.what else "D2", "HO." + f.what, f"{f.fn.qualname}: {f.what}", f.fn, f.node,
                      why=f"{f.why} | taint chain: {' > '.join(c[:70] for c in f.chain)[:400]}",
                      construct=f"{f.fn.qualname}:{f.what}", witness={"chain": f.chain})
    ctx.attempt(sort_keys, ctx, h)
    ctx.attempt(stateless_callbacks, ctx)
    ctx.attempt(exempt_listings, ctx)
    ctx.attempt(selection_ties, ctx)
    ctx.attempt(randomness, ctx)
    ctx.attempt(uuids, ctx)
    ctx.floor("HO.use", 40)
    ctx.floor("HO.sort-key", 4)
    ctx.assumptions += ["code outside nrel/hive that receives a set / Map treats it as unordered (list in coverage.ho.unresolved_set_callees_assumed_order_free)",
                        "scipy / networkx / cKDTree are deterministic for equal inputs"]
    ctx.not_decided += ["bit-identical floating point results across machines", "determinism of third-party libraries"]


ORDER_FREE_CONSUMERS = {"sorted", "set", "frozenset", "len", "any", "all", "min", "max", "sum", "Counter"}


def exempt_listings(ctx: Ctx):
    """The property exempts the order in which the members of a set-valued field are PRINTED. The functions tabled above for that reason
    (Membership.as_tuple / __str__ / to_json) hand out a hash-ordered listing; the exemption covers it only while it goes to a report
    record or a message. A caller in the simulation that iterates, indexes or unpacks such a listing makes hash order decide something:
    every call is therefore required to sit in an order-free consumer (sorted, set, len, membership test) or in the reporting code."""
    from ..index import index, in_pkg
    names = {q.split(".")[-1] for (f, q, w) in EXCEPTIONS if w == "origin" and f.endswith("membership.py")} - {"__str__"}
    n = 0
    for nm in sorted(names):
        for s in index(ctx.repo).calls(nm):
            if not in_pkg(s) or s.func is None or "/reporting/" in s.file or s.file.endswith("membership.py"):
                continue
            if not isinstance(s.node.func, ast.Attribute):
                continue
            par = parent(s.node)
            ok = (isinstance(par, ast.Call) and s.node in par.args and (dotted(par.func) or "").split(".")[-1] in ORDER_FREE_CONSUMERS) or \
                 (isinstance(par, ast.Compare) and s.node in par.comparators and all(isinstance(o, (ast.In, ast.NotIn)) for o in par.ops)) or \
                 (isinstance(par, ast.Dict) or isinstance(par, ast.keyword) or isinstance(par, ast.JoinedStr) or isinstance(par, ast.FormattedValue))
            n += 1
            ctx.check(ok, "D1", "HO.use", f"{s.func.qualname}: the hash-ordered listing `{flow.dump(s.node)[:60]}` goes to an order-free consumer or a record", s.func, s.node,
                      why_bad=f"`{flow.dump(par)[:100] if par is not None else ''}` consumes the listing in its (hash) order: the exemption for the printed order of set members does not "
                              f"cover a loop, an index or a key built from it -- which member comes first then differs between processes",
                      construct=f"{s.func.qualname}:listing-order:{nm}")
    ctx.extra["exempt_listing_calls"] = n


def sort_keys(ctx: Ctx, h: HO):
    """D2: every key function that reaches a sorted() over a hash-ordered input through a sort-key parameter is total."""
    repo = ctx.repo
    idx = index(repo)
    n = 0
    for fname in sorted(SORT_KEY_FUNCS):
        for s in idx.calls(fname, refs=False):
            if not in_pkg(s) or s.file.startswith(PKG + "/resources") or s.func is None:
                continue
            for kw in s.node.keywords:
                if kw.arg in ("sort_key", "key"):
                    n += 1
                    v = kw.value
                    if isinstance(v, ast.Name) and v.id in s.func.params:
                        ctx.ok("D2", "HO.sort-key", f"{s.qual}: forwards its own `{v.id}` parameter to {fname}", s.func, s.node)
                        continue
                    ok = h.total_key(s.func, v, s.node)
                    ctx.check(ok, "D2", "HO.sort-key", f"{s.qual}: {fname}({kw.arg}={flow.dump(v)[:50]}) is a total order (contains the unique id)", s.func, s.node,
                              why_bad=f"the key `{flow.dump(v)[:80]}` does not identify the element: entities with equal keys come out in Map (hash) order",
                              construct=f"{s.qual}:{fname}:partial-sort-key")
    # defaults of the helpers themselves
    DO = "nrel/hive/util/dict_ops.py"
    for qn in ("DictOps.iterate_vals", "DictOps.iterate_items"):
        fn = repo.func(DO, qn)
        src = repo.module(DO).segment(fn.node)
        # the default key selects component 0 of each (key, value) item: a lambda or operator.itemgetter(0)
        ok = False
        for n_ in ast.walk(fn.node):
            if isinstance(n_, ast.Lambda) and len(n_.args.args) == 1 and isinstance(n_.body, ast.Subscript) and isinstance(n_.body.value, ast.Name) \
                    and n_.body.value.id == n_.args.args[0].arg and isinstance(n_.body.slice, ast.Constant) and n_.body.slice.value == 0:
                ok = True
            if isinstance(n_, ast.Call) and flow.dump(n_.func) in ("operator.itemgetter", "itemgetter") and len(n_.args) == 1 and isinstance(n_.args[0], ast.Constant) and n_.args[0].value == 0:
                ok = True
        n += 1
        ctx.check(ok, "D2", "HO.sort-key", f"{qn}: without a key function the items are sorted by their (unique) Map key", fn,
                  why_bad="default ordering is not the Map key", construct=f"{qn}:default-key")
    if n < 4:
        ctx.soft_fail(f"sort-key rule matched {n} sites")


_MUTATORS = {"append", "extend", "insert", "add", "update", "setdefault", "pop", "popitem", "remove", "discard", "clear", "appendleft", "sort", "reverse", "__setitem__"}


def _param_mutated(repo, fn, pname: str, depth: int = 2, seen=None) -> Optional[ast.AST]:
    """the first statement of `fn` (or of a package function it hands the parameter to, `depth` calls deep) that changes the object
    bound to parameter `pname` in place: item / attribute store, del, augmented assignment through it, a mutating container method."""
    seen = seen if seen is not None else set()
    if (fn, pname) in seen:
        return None
    seen.add((fn, pname))
    aliases = {pname}
    for n in ast.walk(fn.node):
        if isinstance(n, ast.Assign) and isinstance(n.value, ast.Name) and n.value.id in aliases:
            aliases |= {t.id for t in n.targets if isinstance(t, ast.Name)}

    def root(e):
        while isinstance(e, (ast.Subscript, ast.Attribute)):
            e = e.value
        return e.id if isinstance(e, ast.Name) else None

    for n in ast.walk(fn.node):
        if isinstance(n, (ast.Assign, ast.AugAssign, ast.AnnAssign, ast.Delete)):
            tg = n.targets if isinstance(n, (ast.Assign, ast.Delete)) else [n.target]
            for t in tg:
                if isinstance(t, (ast.Subscript, ast.Attribute)) and root(t) in aliases:
                    return n
        elif isinstance(n, ast.Call):
            if isinstance(n.func, ast.Attribute) and n.func.attr in _MUTATORS and isinstance(n.func.value, ast.Name) and n.func.value.id in aliases:
                return n
            if depth > 0:
                callee = repo.resolve_call(fn.module, n)
                if callee is None and isinstance(n.func, ast.Name):
                    callee = fn.module.funcs.get(n.func.id)
                if callee is not None and not isinstance(callee.node, ast.Lambda):
                    ps = callee.params
                    for i, a in enumerate(n.args):
                        if isinstance(a, ast.Name) and a.id in aliases and i < len(ps):
                            r = _param_mutated(repo, callee, ps[i], depth - 1, seen)
                            if r is not None:
                                return n
                    for k in n.keywords:
                        if k.arg and isinstance(k.value, ast.Name) and k.value.id in aliases and k.arg in ps:
                            r = _param_mutated(repo, callee, k.arg, depth - 1, seen)
                            if r is not None:
                                return n
    return None


def stateless_callbacks(ctx: Ctx):
    """D2b: a filter / sort-key callable handed to one of the collection iterators is evaluated once per element in the collection's
    own (hash) order -- `iterate_sim_coll` filters before it sorts. Its answer for one element must therefore not depend on the
    elements evaluated before it: the callable changes no object that outlives one evaluation (a variable of the enclosing function,
    a container captured from it, directly or through a package function that writes into the parameter it is given)."""
    repo = ctx.repo
    idx = index(repo)
    n = 0
    for fname in sorted(SORT_KEY_FUNCS | {"filter", "sorted", "min", "max"}):
        for s in idx.calls(fname, refs=False):
            if not in_pkg(s) or s.file.startswith(PKG + "/resources") or s.func is None:
                continue
            cands = [kw.value for kw in s.node.keywords if kw.arg in ("filter_function", "sort_key", "key")]
            if fname == "filter" and s.node.args:
                cands.append(s.node.args[0])
            for v in cands:
                body = None
                if isinstance(v, ast.Lambda):
                    body = v
                elif isinstance(v, ast.Name):
                    for d in ast.walk(s.func.node):
                        if isinstance(d, (ast.FunctionDef, ast.AsyncFunctionDef)) and d.name == v.id and d is not s.func.node:
                            body = d
                            break
                if body is None:
                    continue
                n += 1
                a = body.args
                own = {x.arg for x in a.posonlyargs + a.args + a.kwonlyargs}
                if not isinstance(body, ast.Lambda):
                    for x in ast.walk(body):
                        if isinstance(x, ast.Name) and isinstance(x.ctx, ast.Store):
                            own.add(x.id)
                    nl = {nm for x in ast.walk(body) if isinstance(x, (ast.Nonlocal, ast.Global)) for nm in x.names}
                    own -= nl
                else:
                    nl = set()
                bad = None
                for x in ast.walk(body):
                    if isinstance(x, ast.Name) and isinstance(x.ctx, ast.Store) and x.id in nl:
                        bad = (x, f"rebinds `{x.id}` of the enclosing scope")
                    elif isinstance(x, (ast.Assign, ast.AugAssign, ast.Delete)):
                        for t in (x.targets if isinstance(x, (ast.Assign, ast.Delete)) else [x.target]):
                            r = t
                            while isinstance(r, (ast.Subscript, ast.Attribute)):
                                r = r.value
                            if isinstance(t, (ast.Subscript, ast.Attribute)) and isinstance(r, ast.Name) and r.id not in own:
                                bad = (x, f"writes into `{r.id}`, which it captures from the enclosing scope")
                    elif isinstance(x, ast.Call):
                        if isinstance(x.func, ast.Attribute) and x.func.attr in _MUTATORS and isinstance(x.func.value, ast.Name) and x.func.value.id not in own \
                                and x.func.value.id not in ("log", "logger", "logging"):
                            # a captured immutables.Map / tuple has no in-place `update`/`add`: only containers built in the enclosing function as dict/list/set displays count
                            if _captured_mutable(s.func.node, x.func.value.id):
                                bad = (x, f"calls `{x.func.value.id}.{x.func.attr}(...)` on a container it captures from the enclosing scope")
                        callee = repo.resolve_call(s.func.module, x)
                        if callee is not None and not isinstance(callee.node, ast.Lambda):
                            ps = callee.params
                            pairs = [(ps[i], a_) for i, a_ in enumerate(x.args) if i < len(ps)] + [(k.arg, k.value) for k in x.keywords if k.arg in ps]
                            for pn, a_ in pairs:
                                if isinstance(a_, ast.Name) and a_.id not in own and _captured_mutable(s.func.node, a_.id):
                                    w = _param_mutated(repo, callee, pn)
                                    if w is not None:
                                        bad = (x, f"hands the captured container `{a_.id}` to {callee.qualname}, which writes into it ({callee.relpath}:{getattr(w, 'lineno', 0)})")
                    if bad:
                        break
                label = v.id if isinstance(v, ast.Name) else "lambda"
                ctx.check(bad is None, "D2", "HO.stateful-callback", f"{s.qual}: the callable `{label}` given to {fname} keeps nothing from one element to the next", s.func, s.node,
                          why_bad=(f"`{label}` {bad[1]}: it is evaluated element by element in the collection's hash order (filter before sort), so what it answers for one "
                                   f"element depends on which elements came before -- and that differs between processes") if bad else "",
                          construct=f"{s.qual}:{fname}:stateful-callback:{label}")
    ctx.extra["callbacks_checked_stateless"] = n
    if n < 20:
        ctx.soft_fail(f"HO.stateful-callback matched {n} callables (the pinned tree hands over more than 20 filter / key callables)")


def _captured_mutable(fn_node: ast.AST, name: str) -> bool:
    """`name` is bound in the enclosing function to a mutable container display / constructor (dict, list, set, defaultdict, ...)"""
    for n in ast.walk(fn_node):
        tg, val = None, None
        if isinstance(n, ast.Assign):
            tg, val = n.targets, n.value
        elif isinstance(n, ast.AnnAssign) and n.value is not None:
            tg, val = [n.target], n.value
        if tg and any(isinstance(t, ast.Name) and t.id == name for t in tg):
            if isinstance(val, (ast.Dict, ast.List, ast.Set, ast.ListComp, ast.DictComp, ast.SetComp)):
                return True
            if isinstance(val, ast.Call) and dotted(val.func) in ("dict", "list", "set", "defaultdict", "collections.defaultdict", "OrderedDict", "collections.OrderedDict", "Counter", "collections.Counter", "deque", "collections.deque", "bytearray"):
                return True
    return False


def selection_ties(ctx: Ctx):
    """D3: a running best-so-far selection with a strict comparison keeps the first candidate on a tie: its input
    must not be in hash order. The two selection loops of the package are checked for a sorted input."""
    repo = ctx.repo
    H3 = "nrel/hive/util/h3_ops.py"
    fn = repo.func(H3, "H3Ops.nearest_entity")
    src = repo.module(H3).segment(fn.node)
    rings = [n for n in ast.walk(fn.node) if isinstance(n, ast.Call) and dotted(n.func) in ("h3.k_ring", "h3.hex_ring")]
    ok = bool(rings) and all(isinstance(parent(r), ast.Call) and dotted(parent(r).func) == "sorted" for r in rings)
    ctx.check(ok, "D3", "HO.selection", "H3Ops.nearest_entity visits the cells of a k-ring in sorted order (ties: first wins deterministically)", fn,
              why_bad="iterates the set returned by h3.k_ring directly", construct="nearest_entity:ring-order")
    AO = "nrel/hive/dispatcher/instruction_generator/assignment_ops.py"
    fn = repo.func(AO, "nearest_shortest_queue_ranking")
    reds = [n for n in ast.walk(fn.node) if isinstance(n, ast.Call) and dotted(n.func) in ("ft.reduce", "functools.reduce") and len(n.args) > 1]
    ok = bool(reds) and all(isinstance(r.args[1], ast.Call) and dotted(r.args[1].func) == "sorted" or not (ctx.types.type_of(fn.relpath, r.args[1]) or "").startswith(("frozenset", "builtins.frozenset", "builtins.set")) for r in reds)
    ctx.check(ok, "D3", "HO.selection", "nearest_shortest_queue_ranking folds over the on-shift chargers in sorted order", fn,
              why_bad="folds over the frozenset directly", construct="nearest_shortest_queue_ranking:order")


def randomness(ctx: Ctx):
    """D4: every random / numpy.random call is in a function that seeds on every path before drawing, or is only
    reached after the seeding entry points; no module-level draws."""
    repo = ctx.repo
    idx = index(repo)
    seeding_fns = set()
    draws = []
    for m in repo.pkg_modules():
        if m.relpath.startswith(PKG + "/resources"):
            continue
        for n in ast.walk(m.tree):
            if isinstance(n, ast.Call):
                d = fq_dotted(m, n.func) or ""
                if d in SEEDERS:
                    f = enclosing_func(n)
                    if f is not None:
                        seeding_fns.add((f.relpath, f.qualname))
                elif d.startswith(RANDOM_PREFIX) and d not in SEEDERS:
                    draws.append((m, n, d))
    ctx.require(len(seeding_fns) >= 2, "seed calls not found (run / load_scenario)")
    for m, n, d in draws:
        f = enclosing_func(n)
        if f is None:
            ctx.violation("D4", "HO.random", f"module-level {d} in {m.relpath}", file=m.relpath, line=n.lineno, function="<module>", why="drawn at import time, before any seed", construct=f"{m.relpath}:module-level-random")
            continue
        top = f
        while top.outer is not None:
            top = top.outer
        self_seeded = False
        for nn in ast.walk(top.node):
            if isinstance(nn, ast.Call) and (fq_dotted(m, nn.func) or "") in SEEDERS and nn.lineno < n.lineno:
                self_seeded = True
        inst = f"{f.qualname}: {d}"
        if self_seeded:
            ctx.ok("D4", "HO.random", inst, f, n, why="the function seeds before drawing")
        elif (top.relpath, top.qualname) in RANDOM_AFTER_ENTRY:
            ctx.ok("D4", "HO.random", inst, f, n, why=RANDOM_AFTER_ENTRY[(top.relpath, top.qualname)])
        else:
            ctx.violation("D4", "HO.random", inst, f, n, why="a random draw that is not preceded by a seed in its function and is not in the table of draws reached only after run()/load_scenario() seeded",
                          construct=f"{f.qualname}:unseeded-random")


RANDOM_AFTER_ENTRY = {
    ("nrel/hive/initialization/sample_vehicles.py", "sample_vehicles"): "initialisation sampler, called from load_simulation after run()/load_scenario() seeded both generators",
    ("nrel/hive/initialization/sample_vehicles.py", "build_default_location_sampling_fn"): "initialisation sampler (see sample_vehicles)",
    ("nrel/hive/initialization/sample_vehicles.py", "build_default_soc_sampling_fn"): "initialisation sampler (see sample_vehicles)",
    ("nrel/hive/initialization/sample_requests.py", "default_request_sampler"): "initialisation sampler, after seeding",
    ("nrel/hive/initialization/sample_requests.py", "default_request_sampler.inner"): "initialisation sampler, after seeding",
}


def uuids(ctx: Ctx):
    """uuid4() values flow only into `instance_id`; that field is never compared, sorted on, or used as a key."""
    repo = ctx.repo
    n = 0
    for m in repo.pkg_modules():
        if m.relpath.startswith(PKG + "/resources"):
            continue
        for node in ast.walk(m.tree):
            if isinstance(node, ast.Call) and (fq_dotted(m, node.func) or "") in ("uuid4", "uuid.uuid4"):
                n += 1
                p = parent(node)
                f = enclosing_func(node)
                ok = isinstance(p, ast.keyword) and p.arg == "instance_id"
                ctx.check(ok, "D4", "HO.uuid", f"{f.qualname if f else '<module>'}: uuid4() goes into instance_id", f, node,
                          why_bad=f"uuid4() used as `{flow.dump(p)[:60]}`: a per-run random value outside the exempt tag", construct=f"{f.qualname if f else m.relpath}:uuid4-use") if f else None
            if isinstance(node, ast.Attribute) and node.attr == "instance_id" and isinstance(node.ctx, ast.Load):
                p = parent(node)
                f = enclosing_func(node)
                bad = isinstance(p, ast.Compare) or (isinstance(p, ast.Call) and (dotted(p.func) or "") in ("sorted", "hash", "min", "max")) or isinstance(p, ast.Subscript) and p.slice is node
                if bad and f is not None:
                    ctx.violation("D4", "HO.uuid", f"{f.qualname}: instance_id used in `{flow.dump(p)[:60]}`", f, node, why="behaviour depends on a per-run random tag", construct=f"{f.qualname}:instance_id-use")
    if n < 10:
        ctx.soft_fail(f"uuid rule saw only {n} uuid4 sites")
    # other process-dependent sources: id(), hash() of strings, time in the step path, the ambient time zone / environment
    n_amb_ok = n_amb_bad = 0
    for fn in repo.all_funcs():
        if fn.relpath.startswith((PKG + "/resources", PKG + "/app", PKG + "/reporting", PKG + "/util/fs", PKG + "/config")):  # output naming / CLI glue: not simulation behaviour
            continue
        for node in ast.walk(fn.node):
            if isinstance(node, ast.Call):
                d = fq_dotted(fn.module, node.func) or ""
                if d in ("id", "hash") and enclosing_func(node) is fn and fn.name not in ("__hash__", "__eq__"):
                    ctx.violation("D4", "HO.process-value", f"{fn.qualname}: {d}(...)", fn, node, why=f"{d}() differs between processes / hash seeds", construct=f"{fn.qualname}:{d}")
                fs = d in FS_ORDER or (isinstance(node.func, ast.Attribute) and node.func.attr in ("glob", "rglob", "iterdir") and d not in ("glob.glob",))
                if d == "glob.glob":
                    fs = True
                if fs:
                    par = parent(node)
                    in_sorted = isinstance(par, ast.Call) and (dotted(par.func) or "") == "sorted"
                    if in_sorted or isinstance(par, ast.Call) and (dotted(par.func) or "") in ("len", "set", "frozenset", "any", "all"):
                        ctx.ok("D4", "HO.fs-order", f"{fn.qualname}: {d or node.func.attr}() is consumed order-free / sorted", fn, node)
                    else:
                        ctx.violation("D4", "HO.fs-order", f"{fn.qualname}: {d or node.func.attr}()", fn, node,
                                      why="directory listing order is the file system's, not the program's: entities or rows read in that order differ between machines",
                                      construct=f"{fn.qualname}:fs-order:{d or node.func.attr}")
                if d in WALL_CLOCK and not fn.relpath.startswith(PKG + "/runner"):
                    ctx.violation("D4", "HO.process-value", f"{fn.qualname}: {d}()", fn, node, why="wall-clock time in simulation code", construct=f"{fn.qualname}:{d}")
                amb = ambient_dependence(fn, node, d) if enclosing_func(node) is fn else None
                if amb:
                    n_amb_bad += 1
                    ctx.violation("D4", "HO.ambient", f"{fn.qualname}: {amb[0]}", fn, node,
                                  why=f"{amb[1]}: the same scenario gives a different result in a process with another time zone / locale / environment",
                                  construct=f"{fn.qualname}:ambient:{amb[0]}")
                elif d in ("datetime.datetime.utcfromtimestamp", "datetime.datetime.fromtimestamp", "datetime.datetime.fromisoformat") and enclosing_func(node) is fn:
                    n_amb_ok += 1
                    ctx.ok("D4", "HO.ambient", f"{fn.qualname}: {d.split('.')[-1]}(...) converts without consulting the process's time zone", fn, node)
    if n_amb_ok < 4:
        ctx.soft_fail(f"HO.ambient: only {n_amb_ok} clock conversions seen (expected the 5 conversions of SimTime and the schedule function)")


def selftest():
    from ..selftest import V
    SS = "nrel/hive/state/simulation_state/simulation_state.py"
    SSO = "nrel/hive/state/simulation_state/update/step_simulation_ops.py"
    STEP = "nrel/hive/state/simulation_state/update/step_simulation.py"
    DISP = "nrel/hive/dispatcher/instruction_generator/dispatcher.py"
    AO = "nrel/hive/dispatcher/instruction_generator/assignment_ops.py"
    H3 = "nrel/hive/util/h3_ops.py"
    DIO = "nrel/hive/state/driver_state/driver_instruction_ops.py"
    return [
        V("iterate-vehicles-unsorted", SSO, "    next_state = ft.reduce(_step_drivers, simulation_state.get_vehicles(), simulation_state)", "    next_state = ft.reduce(_step_drivers, simulation_state.vehicles.values(), simulation_state)", rule="HO"),
        V("queue-key-without-id", SSO, "                key=lambda v: (v.vehicle_state.enqueue_time, v.id)\n                if isinstance(v.vehicle_state, ChargeQueueing)\n                else (0, v.id),", "                key=lambda v: v.vehicle_state.enqueue_time\n                if isinstance(v.vehicle_state, ChargeQueueing)\n                else 0,", rule="HO"),
        V("requests-key-without-id", DISP, "                sort_key=lambda r: (-r.value, r.id),", "                sort_key=lambda r: -r.value,", rule="HO.sort-key"),
        V("pop-in-hash-order", STEP, "        for vid in sorted(i_stack.keys()):", "        for vid in i_stack.keys():", rule="HO"),
        V("fleets-in-hash-order", DISP, "            fleet_ids = tuple(sorted(environment.fleet_ids, key=lambda f: f or \"\"))", "            fleet_ids = tuple(environment.fleet_ids)", rule="HO"),
        V("ring-in-hash-order", H3, "sorted(h3.k_ring(", "list(h3.k_ring(", rule="HO"),
        V("densest-cell-max", DIO, "    def _get_reposition_location() -> Optional[EntityPosition]:", "    def _get_reposition_location() -> Optional[EntityPosition]:\n        _best = max(sim.r_search.items(), key=lambda kv: len(kv[1]))", rule="HO"),
        V("unseeded-random-in-generator", DISP, "        base_charging_range_km_threshold = (", "        import random\n        _jitter = random.random()\n        base_charging_range_km_threshold = (", rule="HO.random"),
        V("uuid-as-key", "nrel/hive/state/vehicle_state/idle.py", "        return Idle(vehicle_id=vehicle_id, instance_id=uuid4())", "        return Idle(vehicle_id=str(uuid4()), instance_id=uuid4())", rule="HO.uuid"),
        V("aliased-draw", SSO, "        sorted_other_vehicles = tuple(sorted(other_vehicles, key=lambda v: v.id))", "        from random import shuffle as _sh\n        sorted_other_vehicles = tuple(sorted(other_vehicles, key=lambda v: v.id))\n        _sh(list(sorted_other_vehicles))", rule="HO.random"),
        V("listdir-order", "nrel/hive/initialization/load.py", "def load_config(", "def _inputs_in(d):\n    import os\n    return [os.path.join(d, f) for f in os.listdir(d)]\n\n\ndef load_config(", rule="HO.fs-order"),
        V("stateful-filter", "nrel/hive/dispatcher/instruction_generator/charging_fleet_manager.py", "        def charge_candidate(v: Vehicle) -> bool:\n", "        _seen: list = []\n\n        def charge_candidate(v: Vehicle) -> bool:\n            _seen.append(v.id)\n", rule="HO.stateful-callback"),
        V("twin-listdir-sorted", "nrel/hive/initialization/load.py", "def load_config(", "def _inputs_in(d):\n    import os\n    return [os.path.join(d, f) for f in sorted(os.listdir(d))]\n\n\ndef load_config(", kind="twin"),
        V("twin-sorted-identity-key", STEP, "        for vid in sorted(i_stack.keys()):", "        for vid in sorted(i_stack.keys(), key=lambda k: k):", kind="twin"),
        V("twin-keyed-loop", "nrel/hive/model/vehicle/vehicle.py", "        energy_expended = {k: self.energy_expended[k] + delta_energy[k] for k in self.energy.keys()}", "        energy_expended = {}\n        for k in self.energy.keys():\n            energy_expended[k] = self.energy_expended[k] + delta_energy[k]", kind="twin"),
    ]
