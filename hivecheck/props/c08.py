"""C08 — location indexes always agree with the entities (IX index-maintenance symmetry + WMC)."""
from __future__ import annotations

import ast

from .. import AnalysisError, flow, states, cmp, rules
from ..index import index, in_pkg
from ..report import Ctx

SSO = "nrel/hive/state/simulation_state/simulation_state_ops.py"
DO = "nrel/hive/util/dict_ops.py"
KINDS = {
    "request": ("requests", "r_locations", "r_search"),
    "vehicle": ("vehicles", "v_locations", "v_search"),
    "station": ("stations", "s_locations", "s_search"),
    "base": ("bases", "b_locations", "b_search"),
}

EXPLANATION = (
    "For each entity kind (request, vehicle, station, base) the triple (entity map, location index, search "
    "index): add_K_safe inserts x.id under x.geoid and under h3_to_parent(x.geoid, sim.sim_h3_search_resolution) "
    "into exactly those three maps of the same state in one _replace; remove_K_safe deletes the same id under the "
    "geoid/search cell of the entity stored in the state; modify_vehicle/request_safe route all three maps through "
    "update_entity_dictionaries and write back each result (or the old map only when the helper returned None); "
    "modify_station/base_safe are dominated by 'geoid unchanged' and touch the entity map only. "
    "update_entity_dictionaries: early returns only under equal geoid / equal search cell, remove(old) then "
    "add(new) on the same map, search cells at the search resolution. The four DictOps helpers: set / delete / "
    "union with the existing cell / difference + delete-when-empty (truth table on len). The 12 map fields are "
    "written only in those functions; an id is removed from an index cell only inside remove_from_collection_dict "
    "(which deletes emptied cells). Decides these structural clauses; re-adding an existing id elsewhere is "
    "assumed not to happen."
)


def run(ctx: Ctx):
    ctx.attempt(rules.rule_entity_entry, ctx, "D6", "entities are put into the maps and their indexes only at initialisation and by the request updates")
    for kind in KINDS:
        ctx.attempt(add_rule, ctx, kind)
        ctx.attempt(remove_rule, ctx, kind)
        ctx.attempt(modify_rule, ctx, kind)
    ctx.attempt(removal_sites, ctx)
    ctx.attempt(update_dicts, ctx)
    ctx.attempt(helpers, ctx)
    ctx.attempt(writers, ctx)
    ctx.floor("IX.add", 4)
    ctx.floor("IX.remove", 4)
    ctx.floor("IX.modify", 4)
    ctx.floor("IX.helper", 4)
    ctx.floor("WMC.writers", 12)
    ctx.assumptions += ["additions use fresh ids (re-adding an existing id at another location is not checked)"]
    ctx.not_decided += ["h3 geometry (that h3_to_parent really is the enclosing cell)"]


def _success_replace(fn):
    """(path, _replace call) for every Success(sim._replace(...)) return."""
    out = []
    for p in flow.paths(fn.node):
        if p.kind != "return" or not isinstance(p.value, ast.Call):
            continue
        if flow.dump(p.value.func) != "Success" or not p.value.args:
            continue
        v = p.value.args[0]
        if isinstance(v, ast.Call) and isinstance(v.func, ast.Attribute) and v.func.attr == "_replace":
            out.append((p, v))
        else:
            out.append((p, None))
    return out


def add_rule(ctx: Ctx, kind: str):
    ents, locs, srch = KINDS[kind]
    fn = ctx.repo.func(SSO, f"add_{kind}_safe")
    sim, x = fn.params[:2]
    res = _success_replace(fn)
    ctx.require(len(res) >= 1, f"add_{kind}_safe: no Success path")
    cell = f"h3.h3_to_parent({x}.geoid, {sim}.sim_h3_search_resolution)"
    want = {
        ents: f"DictOps.add_to_dict({sim}.{ents}, {x}.id, {x})",
        locs: f"DictOps.add_to_collection_dict({sim}.{locs}, {x}.geoid, {x}.id)",
        srch: f"DictOps.add_to_collection_dict({sim}.{srch}, {cell}, {x}.id)",
    }
    for p, rep in res:
        got = {k.arg: flow.dump(k.value) for k in rep.keywords} if rep is not None else {}
        ok = rep is not None and flow.dump(rep.func.value) == sim and got == want
        diff = {k: (got.get(k, "<missing>")[:110]) for k in set(want) | set(got) if got.get(k) != want.get(k)}
        ctx.check(ok, "D1", "IX.add", f"add_{kind}_safe inserts id under geoid and under the search cell, entity under id, in one _replace", fn, p.end,
                  why_bad=f"deviating fields: {diff}", construct=f"add_{kind}_safe:" + ",".join(sorted(diff)))


def remove_rule(ctx: Ctx, kind: str):
    ents, locs, srch = KINDS[kind]
    fn = ctx.repo.func(SSO, f"remove_{kind}_safe")
    sim, xid = fn.params[:2]
    res = _success_replace(fn)
    ctx.require(len(res) >= 1, f"remove_{kind}_safe: no Success path")
    ent_forms = [f"{sim}.{ents}[{xid}]", f"{sim}.{ents}.get({xid})"]
    for p, rep in res:
        got = {k.arg: flow.dump(k.value) for k in rep.keywords} if rep is not None else {}
        ok = False
        for ent in ent_forms:
            for idf in (xid, f"{ent}.id"):
                cell = f"h3.h3_to_parent({ent}.geoid, {sim}.sim_h3_search_resolution)"
                want = {
                    ents: [f"DictOps.remove_from_dict({sim}.{ents}, {i})" for i in (xid, f"{ent}.id")],
                    locs: [f"DictOps.remove_from_collection_dict({sim}.{locs}, {ent}.geoid, {i})" for i in (xid, f"{ent}.id")],
                    srch: [f"DictOps.remove_from_collection_dict({sim}.{srch}, {cell}, {i})" for i in (xid, f"{ent}.id")],
                }
                if rep is not None and flow.dump(rep.func.value) == sim and set(got) == set(want) and all(got[k] in want[k] for k in want):
                    ok = True
        # the entity must be known to be present on the path
        present = any((flow.dump(a) in ent_forms and pol is True) or (flow.dump(a) == f"{xid} not in {sim}.{ents}" and pol is False)
                      or (flow.dump(a) == f"{xid} in {sim}.{ents}" and pol is True)
                      or (flow.is_syn(a, "$isnone") and flow.dump(a.args[0]) in ent_forms and pol is False) for a, pol in p.facts())
        ctx.check(ok and present, "D2", "IX.remove", f"remove_{kind}_safe deletes the same id from the entity map, its geoid cell and its search cell, in one _replace", fn, p.end,
                  why_bad=(f"fields written: { {k: v[:120] for k, v in got.items()} }" if not ok else "entity presence not established on the path"),
                  construct=f"remove_{kind}_safe:shape")


def modify_rule(ctx: Ctx, kind: str):
    ents, locs, srch = KINDS[kind]
    fn = ctx.repo.func(SSO, f"modify_{kind}_safe")
    sim, x = fn.params[:2]
    res = _success_replace(fn)
    ctx.require(len(res) >= 1, f"modify_{kind}_safe: no Success path")
    for p, rep in res:
        got = {k.arg: k.value for k in rep.keywords} if rep is not None else {}
        if kind in ("station", "base"):
            # D5: location never changes
            same = False
            for a, pol in p.facts():
                if isinstance(a, ast.Compare) and len(a.ops) == 1 and isinstance(a.ops[0], (ast.Eq, ast.NotEq)):
                    l, r = flow.dump(a.left), flow.dump(a.comparators[0])
                    if {l, r} == {f"{sim}.{ents}.get({x}.id).geoid", f"{x}.geoid"} and isinstance(a.ops[0], ast.Eq) == pol:
                        same = True
            ctx.check(same, "D5", "IX.modify", f"modify_{kind}_safe succeeds only when the geoid is unchanged", fn, p.end,
                      why_bad=f"success path [{p.cond_text()[:200]}] does not require the stored and the updated geoid to be equal", construct=f"modify_{kind}_safe:geoid-guard")
            ok = rep is not None and set(got) == {ents} and flow.dump(got[ents]) == f"DictOps.add_to_dict({sim}.{ents}, {x}.id, {x})"
            ctx.check(ok, "D3", "IX.modify", f"modify_{kind}_safe replaces the entity under its id and touches no index", fn, p.end,
                      why_bad=f"writes { {k: flow.dump(v)[:100] for k, v in got.items()} }", construct=f"modify_{kind}_safe:shape")
            continue
        call = f"DictOps.update_entity_dictionaries({x}, {sim}.{ents}, {sim}.{locs}, {sim}.{srch}, {sim}.sim_h3_search_resolution)"
        ok = rep is not None and set(got) == {ents, locs, srch}
        why = ""
        if ok:
            for fld, part in ((ents, "entities"), (locs, "locations"), (srch, "search")):
                v = got[fld]
                new, old = f"{call}.{part}", f"{sim}.{fld}"
                d = flow.dump(v)
                forms = (new, f"{new} if {new} else {old}", f"{new} if {new} is not None else {old}", f"{old} if {new} is None else {new}")
                if d not in forms:
                    ok = False
                    why = f"{fld} = {d[:200]}"
        else:
            why = f"fields {sorted(got)}"
        ctx.check(ok, "D3", "IX.modify", f"modify_{kind}_safe routes {ents}/{locs}/{srch} through update_entity_dictionaries and writes back all three", fn, p.end,
                  why_bad=why, construct=f"modify_{kind}_safe:shape")
        # the entity is present
        present = any(flow.dump(a) == f"{sim}.{ents}.get({x}.id)" and pol is True for a, pol in p.facts()) or \
            any(flow.is_syn(a, "$isnone") and flow.dump(a.args[0]) == f"{sim}.{ents}.get({x}.id)" and pol is False for a, pol in p.facts())
        ctx.check(present, "D3", "IX.modify", f"modify_{kind}_safe requires the entity to be in the state already", fn, p.end,
                  why_bad="presence not tested", construct=f"modify_{kind}_safe:presence")


def update_dicts(ctx: Ctx):
    fn = ctx.repo.func(DO, "DictOps.update_entity_dictionaries")
    x, ents, locs, srch, res = fn.params[1:6]
    old = f"{ents}[{x}.id]"
    e_upd = f"DictOps.add_to_dict({ents}, {x}.id, {x})"
    l_upd = f"DictOps.add_to_collection_dict(DictOps.remove_from_collection_dict({locs}, {old}.geoid, {old}.id), {x}.geoid, {x}.id)"
    oc, nc = f"h3.h3_to_parent({old}.geoid, {res})", f"h3.h3_to_parent({x}.geoid, {res})"
    s_upd = f"DictOps.add_to_collection_dict(DictOps.remove_from_collection_dict({srch}, {oc}, {old}.id), {nc}, {x}.id)"
    seen = set()
    for p in flow.paths(fn.node):
        if p.kind != "return":
            continue
        facts = [(flow.dump(a), pol) for a, pol in p.facts()]
        same_geo = (f"{old}.geoid == {x}.geoid", True) in facts
        diff_geo = (f"{old}.geoid == {x}.geoid", False) in facts
        same_cell = (f"{oc} == {nc}", True) in facts
        diff_cell = (f"{oc} == {nc}", False) in facts
        v = p.value
        got = {k.arg: flow.dump(k.value) for k in v.keywords} if isinstance(v, ast.Call) and flow.dump(v.func) == "EntityUpdateResult" else None
        if got is None:
            raise AnalysisError(f"update_entity_dictionaries: unrecognised return {flow.dump(v)[:80]}")
        if same_geo:
            seen.add("same-geo")
            ctx.check(got == {"entities": e_upd}, "D4", "IX.update", "same geoid: only the entity map changes", fn, p.end, why_bad=f"{got}", construct="update_entity_dictionaries:same-geoid")
        elif diff_geo and same_cell:
            seen.add("same-cell")
            ctx.check(got == {"entities": e_upd, "locations": l_upd}, "D4", "IX.update",
                      "same search cell: id removed from the old geoid cell and added to the new one; search index untouched", fn, p.end,
                      why_bad=f"{ {k: v[:140] for k, v in got.items()} }", construct="update_entity_dictionaries:same-cell")
        elif diff_geo and diff_cell:
            seen.add("moved")
            ok = got == {"entities": e_upd, "locations": l_upd, "search": s_upd}
            bad = {k: v[:160] for k, v in got.items() if v != {"entities": e_upd, "locations": l_upd, "search": s_upd}.get(k)}
            ctx.check(ok, "D4", "IX.update", "new search cell: remove(old) then add(new) on both indexes, search cells at the search resolution", fn, p.end,
                      why_bad=f"deviating: {bad}", construct="update_entity_dictionaries:moved:" + ",".join(sorted(bad)))
        else:
            ctx.violation("D4", "IX.update", "update_entity_dictionaries: early return not guarded by equal geoid / equal search cell", fn, p.end,
                          why=f"path [{p.cond_text()[:200]}]", construct="update_entity_dictionaries:unguarded-return")
    ctx.require(seen == {"same-geo", "same-cell", "moved"}, f"update_entity_dictionaries: expected three cases, saw {sorted(seen)}")


def helpers(ctx: Ctx):
    repo = ctx.repo
    fn = repo.func(DO, "DictOps.add_to_dict")
    xs, k, v = fn.params[1:4]
    ps = flow.paths(fn.node)
    ctx.check(flow.values_match(ps, f"{xs}.set({k}, {v})"), "D7", "IX.helper", "add_to_dict = xs.set(id, obj)", fn, why_bad="shape changed", construct="add_to_dict")
    fn = repo.func(DO, "DictOps.remove_from_dict")
    xs, k = fn.params[1:3]
    ps = flow.paths(fn.node)
    ctx.check(flow.values_match(ps, f"{xs}.delete({k})"), "D7", "IX.helper", "remove_from_dict = xs.delete(id)", fn, why_bad="shape changed", construct="remove_from_dict")
    fn = repo.func(DO, "DictOps.add_to_collection_dict")
    xs, c, o = fn.params[1:4]
    ps = flow.paths(fn.node)
    forms = (f"{xs}.set({c}, {xs}.get({c}, frozenset()).union([{o}]))", f"{xs}.set({c}, {xs}.get({c}, frozenset()) | frozenset([{o}]))",
             f"{xs}.set({c}, {xs}.get({c}, frozenset()).union({{{o}}}))", f"{xs}.set({c}, {xs}.get({c}, frozenset()) | {{{o}}})")
    d = flow.dump(ps[0].value) if len(ps) == 1 else "?"
    ctx.check(d in forms, "D7", "IX.helper", "add_to_collection_dict = set(cell, existing cell (or empty frozenset) union {id}): union, never replacement", fn,
              why_bad=f"returns {d[:160]}", construct="add_to_collection_dict")
    fn = repo.func(DO, "DictOps.remove_from_collection_dict")
    xs, c, o = fn.params[1:4]
    ps = [p for p in flow.paths(fn.node) if p.kind == "return"]
    upd_forms = (f"{xs}.get({c}, frozenset()).difference([{o}])", f"{xs}.get({c}, frozenset()) - frozenset([{o}])", f"{xs}.get({c}, frozenset()) - {{{o}}}",
                 f"{xs}.get({c}, frozenset()).difference({{{o}}})")
    ok = False
    why = "?"
    # single return with a conditional expression, or two returns under an if
    cases = []
    for p in ps:
        v = p.value
        if isinstance(v, ast.IfExp):
            cases.append((v.test, True, v.body))
            cases.append((v.test, False, v.orelse))
        else:
            conds = [c_ for c_ in p.conds if isinstance(c_.pol, bool)]
            if len(conds) == 1:
                cases.append((conds[0].test, conds[0].pol, v))
    if len(cases) == 2:
        upd = None
        for u in upd_forms:
            if f"len({u})" in flow.dump(cases[0][0]):
                upd = u
        if upd is None:
            # `{i for i in cell if i != id}`: the same difference spelled as a comprehension
            for n in ast.walk(cases[0][0]):
                if isinstance(n, ast.SetComp) and len(n.generators) == 1 and flow.dump(n.generators[0].iter) == f"{xs}.get({c}, frozenset())" and len(n.generators[0].ifs) == 1:
                    v = flow.dump(n.generators[0].target)
                    if flow.dump(n.elt) == v and flow.dump(n.generators[0].ifs[0]) in (f"{v} != {o}", f"{o} != {v}"):
                        upd = flow.dump(n)
        if upd is not None:
            rows_ok = True
            for test, pol, val in cases:
                rows = cmp.predicate_table(test, {f"len({upd})": "n"}, grid=range(0, 3))
                for g, f, t in rows:
                    if t == pol:
                        want = f"{xs}.delete({c})" if g["n"] == 0 else f"{xs}.set({c}, {upd})"
                        if flow.dump(val) != want:
                            rows_ok = False
                            why = f"for len = {g['n']} returns {flow.dump(val)[:80]} (expected {want})"
            ok = rows_ok
        else:
            raise AnalysisError("remove_from_collection_dict: cannot find len(<cell minus id>) in the test: unrecognised way of computing the remaining ids")
    else:
        raise AnalysisError(f"remove_from_collection_dict: {len(cases)} cases, expected delete-or-set")
    ctx.check(ok, "D4", "IX.helper", "remove_from_collection_dict = cell minus {id}; the cell is deleted iff it becomes empty (table over len)", fn,
              why_bad=why, construct="remove_from_collection_dict")


def removal_sites(ctx: Ctx):
    """An id is taken out of an index cell only inside remove_from_collection_dict (which deletes emptied
    cells): any other set-difference on a value read from a Map in dict_ops / simulation_state_ops leaves
    empty cells behind."""
    repo = ctx.repo
    n = 0
    for rel in (DO, SSO):
        m = repo.module(rel)
        for fn in m.funcs.values():
            for node in ast.walk(fn.node):
                hit = None
                if isinstance(node, ast.Call) and isinstance(node.func, ast.Attribute) and node.func.attr in ("difference", "discard", "remove", "difference_update"):
                    hit = node
                elif isinstance(node, ast.BinOp) and isinstance(node.op, ast.Sub) and any(isinstance(s, (ast.Set, ast.SetComp)) or (isinstance(s, ast.Call) and flow.dump(s.func) in ("frozenset", "set")) for s in (node.left, node.right)):
                    hit = node
                elif isinstance(node, ast.SetComp) and node.generators and any(g.ifs for g in node.generators):
                    hit = node
                if hit is None:
                    continue
                from ..index import enclosing_func
                if enclosing_func(hit) is not fn:
                    continue
                n += 1
                inside = fn.qualname == "DictOps.remove_from_collection_dict"
                if inside:
                    ctx.ok("D4", "IX.removal-site", f"{fn.qualname}: set removal inside the helper that deletes emptied cells", fn, hit)
                else:
                    ctx.violation("D4", "IX.removal-site", f"{fn.qualname}: removes ids from a set outside remove_from_collection_dict", fn, hit,
                                  why=f"`{flow.dump(hit)[:100]}`: an index cell emptied here is not deleted (stale empty entry) and the frozenset invariant is bypassed",
                                  construct=f"{fn.qualname}:removal-outside-helper")
    ctx.require(n >= 1, "removal-site rule matched nothing")


def writers(ctx: Ctx):
    repo = ctx.repo
    allowed_fns = {f"{op}_{k}_safe" for k in KINDS for op in ("add", "remove", "modify")}
    for k, fields in KINDS.items():
        for fld in fields:
            def ok(s, fld=fld):
                f = s.func
                if f is None:
                    return None
                if f.relpath == SSO and f.qualname in allowed_fns:
                    return "index maintenance function"
                if f.relpath.endswith("simulation_state/simulation_state.py") or "initialize" in f.relpath:
                    return "construction of the initial state"
                return None
            # only calls that are SimulationState updates: `_replace(...)` / `SimulationState(...)`
            def owner(s):
                n = s.node
                if isinstance(n, ast.Call):
                    nm = n.func.attr if isinstance(n.func, ast.Attribute) else getattr(n.func, "id", "")
                    return nm in ("_replace", "SimulationState", "replace")
                # attribute stores cannot write a NamedTuple field (C16 covers in-place mutation)
                return False
            rules.rule_field_writers(ctx, "D6", fld, ok, f"{fld} is written only by the add/remove/modify functions", 2, owner_hint=owner)


def selftest():
    from ..selftest import V
    return [
        V("skip-remove-in-update", DO, "        locations_updated = DictOps.add_to_collection_dict(\n            locations_removed, updated_entity.geoid, updated_entity.id\n        )",
          "        locations_updated = DictOps.add_to_collection_dict(\n            locations, updated_entity.geoid, updated_entity.id\n        )", rule="IX.update"),
        V("search-at-location-resolution", SSO, "        search_geoid = h3.h3_to_parent(vehicle.geoid, sim.sim_h3_search_resolution)\n        updated_v_locations = DictOps.add_to_collection_dict(",
          "        search_geoid = h3.h3_to_parent(vehicle.geoid, sim.sim_h3_location_resolution)\n        updated_v_locations = DictOps.add_to_collection_dict(", rule="IX.add"),
        V("remove-forgets-search", SSO, "            bases=DictOps.remove_from_dict(sim.bases, base_id),\n            b_locations=updated_b_locations,\n            b_search=updated_b_search,", "            bases=DictOps.remove_from_dict(sim.bases, base_id),\n            b_locations=updated_b_locations,", rule="IX.remove"),
        V("modify-station-no-geoid-guard", SSO, "    elif station.geoid != updated_station.geoid:", "    elif station.geoid != station.geoid:", rule="IX.modify"),
        V("keep-empty-cells", DO, "            if len(updated_ids) == 0\n", "            if len(updated_ids) < 0\n", rule="IX.helper"),
        V("add-replaces-cell", DO, "        updated_ids = ids_at_location.union([obj_id])", "        updated_ids = frozenset([obj_id])", rule="IX.helper"),
        V("remove-search-falsy-fallback", SSO, "            r_search=updated_r_search,\n        )\n\n        return Success(updated_sim)\n\n\ndef remove_request(", "            r_search=updated_r_search if updated_r_search else sim.r_search,\n        )\n\n        return Success(updated_sim)\n\n\ndef remove_request(", rule="IX.remove"),
        V("external-writer", "nrel/hive/state/simulation_state/update/cancel_requests.py", "                    return updated_sim\n", "                    return updated_sim._replace(r_search=updated_sim.r_search)\n", rule="WMC.writers"),
        V("early-return-cell-test-wrong", DO, "        if old_search_geoid == updated_search_geoid:", "        if old_search_geoid != updated_search_geoid:", rule="IX.update"),
        V("twin-ifexp-to-if", DO, "        return (\n            xs.delete(collection_id)\n            if len(updated_ids) == 0\n            else xs.set(collection_id, updated_ids)\n        )",
          "        if len(updated_ids) == 0:\n            return xs.delete(collection_id)\n        else:\n            return xs.set(collection_id, updated_ids)", kind="twin"),
        V("twin-kw-order", SSO, "            bases=DictOps.add_to_dict(sim.bases, base.id, base),\n            b_locations=updated_b_locations,\n            b_search=updated_b_search,", "            b_search=updated_b_search,\n            b_locations=updated_b_locations,\n            bases=DictOps.add_to_dict(sim.bases, base.id, base),", kind="twin"),
    ]
