"""GD — guard dominance helpers: atoms that must hold on every accepting path of a function."""
from __future__ import annotations

import ast
from typing import Callable, Dict, Iterable, List, Optional, Tuple

from . import flow
from .loader import Func, Repo

Atom = Tuple[ast.AST, bool]


def annotation_class(fn: Func, param: str) -> Optional[str]:
    a = fn.node.args
    for x in a.posonlyargs + a.args + a.kwonlyargs:
        if x.arg == param and x.annotation is not None:
            ann = x.annotation
            if isinstance(ann, ast.Constant) and isinstance(ann.value, str):
                return ann.value.split(".")[-1].strip("'\" ")
            if isinstance(ann, ast.Name):
                return ann.id
            if isinstance(ann, ast.Attribute):
                return ann.attr
    return None


def inline_properties(repo: Repo, e: ast.AST, types: Dict[str, str]) -> ast.AST:
    """`x.p` where x is a name of a known repo class C and p is a single-return @property of C is
    replaced by the property's body (self := x). One level, repeated to a fixpoint of depth 3."""

    def prop_body(cls_name: str, attr: str) -> Optional[ast.AST]:
        for c in repo.class_index.get(cls_name, []):
            m = repo.method(c, attr)
            if m is None or not any(flow.dump(d) == "property" for d in m.node.decorator_list):
                continue
            ps = [p for p in flow.paths(m.node)]
            if len(ps) == 1 and ps[0].kind == "return" and ps[0].value is not None:
                return ps[0].value, m.params[0]
        return None

    state = {"changed": False}

    def f(n):
        if isinstance(n, ast.Attribute) and isinstance(n.value, ast.Name) and n.value.id in types:
            r = prop_body(types[n.value.id], n.attr)
            if r is not None:
                body, selfname = r
                state["changed"] = True
                return flow.subst(body, {selfname: n.value})
        return n

    out = e
    for _ in range(3):
        state["changed"] = False
        out = flow.rewrite(out, f)
        if not state["changed"]:
            break
    return out


def accepting_paths(fn: Func, repo: Optional[Repo] = None, types: Optional[Dict[str, str]] = None,
                    init_env=None) -> List[Tuple[flow.Path, List[Atom]]]:
    """Paths on which a boolean function may return a truthy value, each with the atoms that hold
    there (path condition + what the returned expression being truthy implies). A path whose
    condition leaves a disjunction open (`not (A and B)`) is reported once per case."""
    out = []
    for p in flow.paths(fn.node, init_env):
        if p.kind != "return" or p.value is None:
            continue
        v = p.value
        if isinstance(v, ast.Constant) and not v.value:
            continue
        for case in p.fact_cases():
            out.append((p, _atoms_for(p, case, repo, types)))
    return out


def _atoms_for(p, case, repo, types):
    if True:
        v = p.value
        atoms = list(case)
        vv = inline_properties(repo, v, types) if repo is not None and types else v
        if not (isinstance(vv, ast.Constant) and vv.value):
            atoms += flow.implied(_strip_bool(vv), True)
        if repo is not None and types:
            atoms = [(inline_properties(repo, a, types), pol) for a, pol in atoms]
            # re-derive implications after inlining
            extra = []
            for a, pol in atoms:
                extra += flow.implied(_strip_bool(a), pol)
            atoms += extra
        return atoms


def _strip_bool(e: ast.AST) -> ast.AST:
    while isinstance(e, ast.Call) and isinstance(e.func, ast.Name) and e.func.id == "bool" and len(e.args) == 1:
        e = e.args[0]
    return e


def has_atom(atoms: Iterable[Atom], pred: Callable[[ast.AST, bool], bool]) -> bool:
    for a, pol in atoms:
        try:
            if pred(_strip_bool(a), pol):
                return True
        except Exception:
            continue
    return False


def falsy_or_none(target_dump: str) -> Callable[[ast.AST, bool], bool]:
    """atom: `<target>` is falsy / is None."""

    def pred(a, pol):
        if flow.is_syn(a, "$isnone"):
            return pol is True and flow.dump(a.args[0]) == target_dump
        return pol is False and flow.dump(a) == target_dump

    return pred


def truthy(target_dump: str) -> Callable[[ast.AST, bool], bool]:
    def pred(a, pol):
        return pol is True and flow.dump(a) == target_dump

    return pred


def allowed_lengths(facts, xdump: str, grid=range(0, 4)):
    """Which lengths n (on a small grid) of the sequence whose source text is `xdump` are compatible with the path facts?
    Understands comparisons between len(X) and an integer literal in either order, with either polarity, and the
    truthiness of X itself. {0} means the path implies that X is empty."""
    import operator
    OPS = {ast.Eq: operator.eq, ast.NotEq: operator.ne, ast.Lt: operator.lt, ast.LtE: operator.le, ast.Gt: operator.gt, ast.GtE: operator.ge}
    allowed = set(grid)
    target = f"len({xdump})"
    for a, pol in facts:
        if isinstance(a, ast.Compare) and len(a.ops) == 1 and type(a.ops[0]) in OPS:
            l, r = a.left, a.comparators[0]
            dl, dr = flow.dump(l), flow.dump(r)
            f = OPS[type(a.ops[0])]
            if dl == target and isinstance(r, ast.Constant) and isinstance(r.value, int):
                allowed = {n for n in allowed if f(n, r.value) is pol}
            elif dr == target and isinstance(l, ast.Constant) and isinstance(l.value, int):
                allowed = {n for n in allowed if f(l.value, n) is pol}
        elif flow.dump(a) == xdump:
            allowed = {n for n in allowed if (n > 0) is pol}
        elif flow.dump(a) == target:
            allowed = {n for n in allowed if (n > 0) is pol}
    return allowed


def allowed_values(facts, target: str, grid=range(0, 4)):
    """Values n (on a small grid) of the integer term whose text is `target` compatible with the path facts (comparisons of the
    term with an integer literal, either order / polarity; truthiness of the term)."""
    import operator
    OPS = {ast.Eq: operator.eq, ast.NotEq: operator.ne, ast.Lt: operator.lt, ast.LtE: operator.le, ast.Gt: operator.gt, ast.GtE: operator.ge}
    allowed = set(grid)
    for a, pol in facts:
        if isinstance(a, ast.Compare) and len(a.ops) == 1 and type(a.ops[0]) in OPS:
            l, r = a.left, a.comparators[0]
            f = OPS[type(a.ops[0])]
            if flow.dump(l) == target and isinstance(r, ast.Constant) and isinstance(r.value, int):
                allowed = {n for n in allowed if f(n, r.value) is pol}
            elif flow.dump(r) == target and isinstance(l, ast.Constant) and isinstance(l.value, int):
                allowed = {n for n in allowed if f(l.value, n) is pol}
        elif flow.dump(a) == target:
            allowed = {n for n in allowed if (n > 0) is pol}
    return allowed


class _AsPrevious(ast.NodeTransformer):
    """Specialise a condition of an enter() to ONE transition — the vehicle's current activity is known — and fold the constants:
    `prev in (DISPATCH_STATION, CHARGE_QUEUEING) or <membership test>` is simply true for a queued vehicle."""

    def __init__(self, type_const: str, class_name: str):
        self.type_const, self.class_name = type_const, class_name

    def visit_Compare(self, n):
        self.generic_visit(n)
        if len(n.ops) == 1 and flow.dump(n.left).endswith(".vehicle_state.vehicle_state_type"):
            r = n.comparators[0]
            names = [flow.dump(e) for e in r.elts] if isinstance(r, (ast.Tuple, ast.List, ast.Set)) else [flow.dump(r)]
            has = any(x.endswith("." + self.type_const) for x in names)
            if all(x.startswith("VehicleStateType.") for x in names):
                op = n.ops[0]
                if isinstance(op, (ast.In, ast.Eq)):
                    return ast.Constant(value=has)
                if isinstance(op, (ast.NotIn, ast.NotEq)):
                    return ast.Constant(value=not has)
        return n

    def visit_Call(self, n):
        self.generic_visit(n)
        if flow.dump(n.func) == "isinstance" and len(n.args) == 2 and flow.dump(n.args[0]).endswith(".vehicle_state"):
            ks = n.args[1].elts if isinstance(n.args[1], ast.Tuple) else [n.args[1]]
            return ast.Constant(value=any(flow.dump(k) == self.class_name for k in ks))
        return n

    def visit_UnaryOp(self, n):
        self.generic_visit(n)
        if isinstance(n.op, ast.Not) and isinstance(n.operand, ast.Constant):
            return ast.Constant(value=not n.operand.value)
        return n

    def visit_BoolOp(self, n):
        self.generic_visit(n)
        is_and = isinstance(n.op, ast.And)
        vals = []
        for v in n.values:
            if isinstance(v, ast.Constant):
                if bool(v.value) != is_and:
                    return ast.Constant(value=not is_and)  # absorbing element
                continue  # neutral element
            vals.append(v)
        if not vals:
            return ast.Constant(value=is_and)
        return vals[0] if len(vals) == 1 else ast.BoolOp(op=n.op, values=vals)


def as_previous(a: ast.AST, type_const: str, class_name: str) -> ast.AST:
    import copy
    return ast.fix_missing_locations(_AsPrevious(type_const, class_name).visit(copy.deepcopy(a)))
