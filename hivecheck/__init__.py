"""hivecheck — repository-specific static analysis deciding the HIVE properties C01..C20.

Nothing in this package imports or runs nrel.hive: every verdict comes from the syntax trees
(and, for the typed rules, mypy's inferred types) of /repo's current working tree.
"""

REPO_DEFAULT = "/repo"
PKG = "nrel/hive"


class AnalysisError(Exception):
    """The checker could not do its job (vanished anchor, unparsable source, unknown shape).

    Turned into exit code 2 + an ANALYSIS-ERROR line; never a verdict on the property."""
