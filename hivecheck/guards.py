"""GD on enter(): location (C07) and membership (C10) atoms that must dominate every state write."""
from __future__ import annotations

import ast
from typing import Callable, Dict, List, Optional, Tuple

from . import AnalysisError, flow, states
from .report import Ctx

VEH = "SIM.vehicles.get(SELF.vehicle_id)"
ENT = {
    "station": "SIM.stations.get(SELF.station_id)",
    "base": "SIM.bases.get(SELF.base_id)",
    "request": "SIM.requests.get(SELF.request_id)",
    "station-of-base": "SIM.stations.get(SIM.bases.get(SELF.base_id).station_id)",
    "trip-request": "SIM.requests.get(SELF.request.id)",
    "first-request": "SIM.requests.get(TupleOps.head_optional(SELF.trip_plan)[0])",
}

# class -> (LOC spec, MEM targets)
#  LOC: ("cell", target) | ("route", target|None) | ("servicing",) | ("prev", STATE_TYPE) | None
EXPECT: Dict[str, Tuple[Optional[tuple], List[str]]] = {
    "Idle": (None, []),
    "OutOfService": (None, []),
    "Repositioning": (("route", None), []),
    "DispatchTrip": (("route", "request"), ["request"]),
    "ServicingTrip": (("servicing",), ["trip-request"]),
    "DispatchPoolingTrip": (("route", "first-request"), ["all-requests"]),
    "ServicingPoolingTrip": (("prev", "DISPATCH_POOLING_TRIP"), []),
    "DispatchStation": (("route", "station"), ["station"]),
    "ChargingStation": (("cell", "station"), ["station"]),
    "ChargeQueueing": (("cell", "station"), ["station"]),
    "DispatchBase": (("route", "base"), ["base"]),
    "ReserveBase": (("cell", "base"), ["base"]),
    "ChargingBase": (("cell", "base"), ["base", "station-of-base"]),
}


def natoms(m: states.MPath, ren) -> List[Tuple[ast.AST, bool, str]]:
    out = []
    for a, pol in m.path.facts():
        n = states.norm(a, ren)
        out.append((n, pol, flow.dump(n)))
    return out


def has_cell(atoms, target: str) -> bool:
    for n, pol, d in atoms:
        if isinstance(n, ast.Compare) and len(n.ops) == 1 and isinstance(n.ops[0], (ast.Eq, ast.NotEq)):
            l, r = flow.dump(n.left), flow.dump(n.comparators[0])
            if {l, r} == {f"{VEH}.geoid", f"{target}.geoid"}:
                if isinstance(n.ops[0], ast.Eq) == pol:
                    return True
    return False


def has_route(atoms, route: str, src: str, dst: Optional[str]) -> bool:
    for n, pol, d in atoms:
        if pol is True and isinstance(n, ast.Call) and flow.dump(n.func).split(".")[-1] == "route_cooresponds_with_entities":
            args = [flow.dump(a) for a in n.args] + [flow.dump(k.value) for k in n.keywords]
            if len(args) >= 2 and args[0] == route and args[1] == src:
                if dst is None:
                    return True
                if len(args) >= 3 and args[2] == dst:
                    return True
    return False


def has_mem(atoms, granter_membership: str, vehicle_membership: str = f"{VEH}.membership") -> bool:
    want = f"{granter_membership}.grant_access_to_membership({vehicle_membership})"
    return any(pol is True and d == want for n, pol, d in atoms)


def has_prev_state(atoms, state_type: str) -> bool:
    l = f"{VEH}.vehicle_state.vehicle_state_type"
    r = f"VehicleStateType.{state_type}"
    for n, pol, d in atoms:
        if isinstance(n, ast.Compare) and len(n.ops) == 1 and isinstance(n.ops[0], (ast.Eq, ast.NotEq)):
            if {flow.dump(n.left), flow.dump(n.comparators[0])} == {l, r} and isinstance(n.ops[0], ast.Eq) == pol:
                return True
    return False


def delegation_target(value) -> Optional[ast.Call]:
    from .rules import enter_delegate
    return enter_delegate(value)


# an activity may hand the entry over to a sibling activity built for the same entities, whose own guards
# (location, membership) then apply to the same target: table of (delegating class -> delegate builds accepted)
DELEGATES = {
    "DispatchStation": ("ChargingStation.build(SELF.vehicle_id, SELF.station_id, SELF.charger_id)",
                        "ChargeQueueing.build(SELF.vehicle_id, SELF.station_id, SELF.charger_id, "),
    "DispatchBase": ("ReserveBase.build(SELF.vehicle_id, SELF.base_id)", "ChargingBase.build(SELF.vehicle_id, SELF.base_id, "),
}


def rule_enter_guards(ctx: Ctx, which: str, clause: str):
    """which = 'LOC' | 'MEM' | 'PREV'"""
    n = 0
    for sc in states.state_classes(ctx.repo):
        if sc.name not in EXPECT:
            # a new activity class: it must be classified before the rule can judge it
            raise AnalysisError(f"activity class {sc.name} is not in the expectation table (DESIGN Appendix B)")
        loc, mems = EXPECT[sc.name]
        ren = sc.rename(sc.enter)
        succ = sc.success("enter")
        for m in succ:
            atoms = natoms(m, ren)
            deleg = delegation_target(m.path.value)
            here = f"{sc.name}.enter state write at line {m.path.lineno}"
            if deleg is not None:
                # delegated: the delegate's own guards apply, provided it is built for the same entities
                n += 1
                recv = states.ndump(deleg.func.value, ren)
                args = [states.ndump(a, ren) for a in deleg.args]
                if which == "PREV":
                    continue
                ok = any(recv == d or (d.endswith(", ") and recv.startswith(d)) for d in DELEGATES.get(sc.name, ())) and args[:2] == ["SIM", "ENV"]
                ctx.check(ok, clause, f"GD.{which}", f"{here}: entry handed over to a sibling activity built for the same vehicle and target (its own guards apply)", sc.enter, m.path.end,
                          why_ok=f"delegate {recv[:60]}",
                          why_bad=f"delegates to {recv}.enter({', '.join(args)}): not an accepted sibling for the same entities", construct=f"{sc.name}.enter:delegate-shape")
                continue
            v = m.path.value
            if v is not None and not any(flow.calls_in(v, nm) for nm in ("apply_new_vehicle_state", "modify_vehicle", "modify_vehicle_state")):
                # a success that writes no vehicle activity at all: nothing starts here, so there is nothing for an entry
                # guard to dominate (that such a success exists is TS.enter-installs' finding in C02/C09, not this rule's)
                ctx.info(clause, f"GD.{which}", f"{sc.name}.enter success at line {m.path.lineno} installs no activity: not an entry", sc.enter, m.path.end,
                         why="result contains no apply_new_vehicle_state / modify_vehicle call")
                continue
            if which == "START" and loc is not None and loc[0] in ("route", "servicing"):
                # C06's share of the location guard: a travelling activity is entered only with a route that starts where the vehicle is
                n += 1
                ok = has_route(atoms, "SELF.route", f"{VEH}.position", None)
                ctx.check(ok, clause, "GD.START", f"{here}: dominated by route_cooresponds_with_entities(self.route, vehicle.position, ...)", sc.enter, m.path.end,
                          why_ok="atom present with the accepting polarity in the path condition",
                          why_bad=f"path [{m.path.cond_text()[:400]}] installs a travelling activity whose route was not checked to start at the vehicle: move() drives the route from its own "
                                  f"first link, so the vehicle jumps there",
                          construct=f"{sc.name}.enter:missing-START", witness={"path": m.path.cond_text()})
            if which == "LOC" and loc is not None:
                n += 1
                if loc[0] == "cell":
                    ok = has_cell(atoms, ENT[loc[1]])
                    want = f"vehicle.geoid == {loc[1]}.geoid"
                elif loc[0] == "route":
                    dst = f"{ENT[loc[1]]}.position" if loc[1] else None
                    ok = has_route(atoms, "SELF.route", f"{VEH}.position", dst)
                    want = f"route_cooresponds_with_entities(self.route, vehicle.position{', ' + loc[1] + '.position' if loc[1] else ''})"
                elif loc[0] == "servicing":
                    r = ENT["trip-request"]
                    ok1 = has_route(atoms, "SELF.route", f"{VEH}.position", None)
                    ok2 = has_route(atoms, "SELF.route", f"{r}.position", f"{r}.destination_position")
                    ok = ok1 and ok2
                    want = "route starts at the vehicle and runs from the request's origin to its destination"
                elif loc[0] == "prev":
                    continue
                else:
                    raise AnalysisError("bad LOC spec")
                ctx.check(ok, clause, "GD.LOC", f"{here}: dominated by {want}", sc.enter, m.path.end,
                          why_ok="atom present with the accepting polarity in the path condition",
                          why_bad=f"path [{m.path.cond_text()[:400]}] reaches the state write without `{want}`",
                          construct=f"{sc.name}.enter:missing-LOC:{loc}", witness={"path": m.path.cond_text()})
            if which == "PREV":
                need = {"ServicingTrip": "DISPATCH_TRIP", "ServicingPoolingTrip": "DISPATCH_POOLING_TRIP"}.get(sc.name)
                if need:
                    n += 1
                    ctx.check(has_prev_state(atoms, need), clause, "GD.PREV", f"{here}: previous activity is {need}", sc.enter, m.path.end,
                              why_bad=f"path [{m.path.cond_text()[:300]}] does not require the previous activity to be {need}",
                              construct=f"{sc.name}.enter:missing-PREV")
            if which == "MEM":
                for t in mems:
                    n += 1
                    if t == "all-requests":
                        want = f"dispatch_ops.requests_exist_and_match_membership(SIM, {VEH}, tuple(zip(*SELF.trip_plan))[0])"
                        ok = any(pol is True and d == want for _, pol, d in atoms)
                        label = "every request of the plan grants the vehicle access"
                    elif t == "trip-request":
                        ok = has_mem(atoms, "SELF.request.membership") or has_mem(atoms, f"{ENT[t]}.membership")
                        label = "request.membership grants the vehicle access"
                    else:
                        ok = has_mem(atoms, f"{ENT[t]}.membership")
                        label = f"{t}.membership.grant_access_to_membership(vehicle.membership)"
                    ctx.check(ok, clause, "GD.MEM", f"{here}: dominated by {label}", sc.enter, m.path.end,
                              why_ok="atom present with the accepting polarity in the path condition",
                              why_bad=f"path [{m.path.cond_text()[:400]}] reaches the state write without testing that {label}",
                              construct=f"{sc.name}.enter:missing-MEM:{t}", witness={"path": m.path.cond_text()})
    return n
