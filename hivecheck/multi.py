"""Multiplicity of the elements of a sequence in an expression derived from it.

`how_often(repo, fn, expr, source)` answers: when a loop iterates over `expr`, how often does it meet each element of
the list / tuple named `source`?  The expression is reduced to a concatenation of *terms*, each term being the source
itself or a filter of it (`[x for x in SRC if cond]`, `filter(pred, SRC)`), through order-only wrappers (sorted, reversed,
list, tuple), local single assignments and calls of repository functions with a single return.  The filter conditions
are boolean combinations of opaque atoms over the element; the finite truth table over those atoms gives, for every
combination, the number of terms that keep the element.  No value is computed and nothing is run.

result: ("once", None)            every element exactly once on every combination
        ("table", rows)           rows = [(assignment-text, count)] for combinations with count != 1
        ("unknown", reason)       the expression is not of the supported shape (the caller refuses, never alarms)
"""
import ast
import itertools
from typing import Dict, List, Optional, Tuple

from .loader import Func, Repo

ORDER_ONLY = {"sorted", "reversed", "list", "tuple", "iter"}


class Unknown(Exception):
    pass


def _single_binding(fn_node, name: str) -> Optional[ast.AST]:
    vals = []
    for n in ast.walk(fn_node):
        if isinstance(n, ast.Assign) and len(n.targets) == 1 and isinstance(n.targets[0], ast.Name) and n.targets[0].id == name:
            vals.append(n.value)
        elif isinstance(n, ast.AnnAssign) and isinstance(n.target, ast.Name) and n.target.id == name and n.value is not None:
            vals.append(n.value)
        elif isinstance(n, (ast.AugAssign,)) and isinstance(n.target, ast.Name) and n.target.id == name:
            return None
    return vals[0] if len(vals) == 1 else None


def _partition_binding(fn_node, name: str):
    """`a, b = TupleOps.partition(pred, xs)`: (index of `name`, the call)"""
    for n in ast.walk(fn_node):
        if isinstance(n, ast.Assign) and len(n.targets) == 1 and isinstance(n.targets[0], ast.Tuple) and len(n.targets[0].elts) == 2 \
                and isinstance(n.value, ast.Call) and isinstance(n.value.func, ast.Attribute) and n.value.func.attr == "partition" and len(n.value.args) == 2:
            for i, e in enumerate(n.targets[0].elts):
                if isinstance(e, ast.Name) and e.id == name:
                    return i, n.value
    return None


def _mutated(fn_node, name: str) -> bool:
    for n in ast.walk(fn_node):
        if isinstance(n, ast.Call) and isinstance(n.func, ast.Attribute) and isinstance(n.func.value, ast.Name) and n.func.value.id == name \
                and n.func.attr in ("append", "extend", "insert", "pop", "remove", "clear", "sort", "reverse"):
            return True
    return False


class _Subst(ast.NodeTransformer):
    def __init__(self, var: str):
        self.var = var

    def visit_Name(self, n):
        return ast.copy_location(ast.Name(id="$x", ctx=ast.Load()), n) if n.id == self.var else n


def _cond_of(var: str, conds: List[ast.AST]) -> Optional[ast.AST]:
    if not conds:
        return None
    import copy
    cs = [_Subst(var).visit(copy.deepcopy(c)) for c in conds]
    return cs[0] if len(cs) == 1 else ast.BoolOp(op=ast.And(), values=cs)


def _local_func(repo: Repo, fn: Func, name: str) -> Optional[Func]:
    m = repo.module(fn.relpath)
    g = fn
    while g is not None:
        f = m.funcs.get(f"{g.qualname}.{name}")
        if f is not None:
            return f
        g = g.outer
    return m.funcs.get(name)


def _terms(repo: Repo, fn: Func, fn_node, expr: ast.AST, source: str, depth: int) -> List[Optional[ast.AST]]:
    """list of filter conditions (None = keeps everything), one per occurrence of the source in the concatenation"""
    if depth > 8:
        raise Unknown("too deep")
    if callable(source) and source(expr):
        return [None]
    if isinstance(expr, ast.Name):
        if expr.id == source:
            return [None]
        pb = _partition_binding(fn_node, expr.id)
        if pb is not None:
            i, call = pb
            inner = _terms(repo, fn, fn_node, call.args[1], source, depth + 1)
            p = call.args[0]
            if isinstance(p, ast.Lambda) and len(p.args.args) == 1:
                c = _cond_of(p.args.args[0].arg, [p.body])
            else:
                c = ast.Call(func=p, args=[ast.Name(id="$x", ctx=ast.Load())], keywords=[])
            if i == 1:
                c = ast.UnaryOp(op=ast.Not(), operand=c)
            return [_and(t, c) for t in inner]
        v = _single_binding(fn_node, expr.id)
        if v is None or _mutated(fn_node, expr.id):
            raise Unknown(f"`{expr.id}` is not a single binding derived from `{source}`")
        return _terms(repo, fn, fn_node, v, source, depth + 1)
    if isinstance(expr, ast.BinOp) and isinstance(expr.op, ast.Add):
        return _terms(repo, fn, fn_node, expr.left, source, depth + 1) + _terms(repo, fn, fn_node, expr.right, source, depth + 1)
    if isinstance(expr, (ast.List, ast.Tuple)) and expr.elts and all(isinstance(e, ast.Starred) for e in expr.elts):
        out = []
        for e in expr.elts:
            out += _terms(repo, fn, fn_node, e.value, source, depth + 1)
        return out
    if isinstance(expr, (ast.ListComp, ast.GeneratorExp)) and len(expr.generators) == 1:
        g = expr.generators[0]
        if isinstance(g.target, ast.Name) and isinstance(expr.elt, ast.Name) and expr.elt.id == g.target.id:
            inner = _terms(repo, fn, fn_node, g.iter, source, depth + 1)
            c = _cond_of(g.target.id, g.ifs)
            return [_and(t, c) for t in inner]
        raise Unknown("comprehension is not an identity filter")
    if isinstance(expr, ast.Call):
        f = expr.func
        name = f.id if isinstance(f, ast.Name) else (f.attr if isinstance(f, ast.Attribute) else None)
        if isinstance(f, ast.Name) and name in ORDER_ONLY and expr.args:
            return _terms(repo, fn, fn_node, expr.args[0], source, depth + 1)
        if isinstance(f, ast.Name) and name == "range" and len(expr.args) == 1 and isinstance(expr.args[0], ast.Call) \
                and isinstance(expr.args[0].func, ast.Name) and expr.args[0].func.id == "len" and expr.args[0].args:
            return _terms(repo, fn, fn_node, expr.args[0].args[0], source, depth + 1)
        if isinstance(f, ast.Name) and name == "filter" and len(expr.args) == 2:
            inner = _terms(repo, fn, fn_node, expr.args[1], source, depth + 1)
            p = expr.args[0]
            if isinstance(p, ast.Lambda) and len(p.args.args) == 1:
                c = _cond_of(p.args.args[0].arg, [p.body])
            elif isinstance(p, ast.Constant) and p.value is None:
                c = ast.Name(id="$x", ctx=ast.Load())
            else:
                c = ast.Call(func=p, args=[ast.Name(id="$x", ctx=ast.Load())], keywords=[])
            return [_and(t, c) for t in inner]
        if isinstance(f, ast.Attribute) and name == "chain" and expr.args:
            out = []
            for a in expr.args:
                out += _terms(repo, fn, fn_node, a, source, depth + 1)
            return out
        callee = _local_func(repo, fn, name) if isinstance(f, ast.Name) else None
        if callee is not None:
            # which parameter receives the source?
            def carries(a):
                try:
                    return _terms(repo, fn, fn_node, a, source, depth + 1) == [None]
                except Unknown:
                    return False
            idx = [i for i, a in enumerate(expr.args) if carries(a)]
            kws = [k.arg for k in expr.keywords if carries(k.value)]
            params = [p for p in callee.params if p not in ("self", "cls")]
            if len(idx) + len(kws) != 1:
                raise Unknown(f"`{name}` does not receive `{source}` as exactly one plain argument")
            par = params[idx[0]] if idx else kws[0]
            rets = [n for n in ast.walk(callee.node) if isinstance(n, ast.Return) and _owner(callee.node, n)]
            if len(rets) != 1 or rets[0].value is None:
                raise Unknown(f"`{name}` has {len(rets)} returns")
            return _terms(repo, callee, callee.node, rets[0].value, par, depth + 1)
        raise Unknown(f"call of `{ast.unparse(f)}` is not a known order-only or filter form")
    raise Unknown(f"`{ast.unparse(expr)[:60]}` is not a concatenation of filters of `{source}`")


def _owner(fn_node, ret) -> bool:
    """the return belongs to fn_node itself and not to a nested def / lambda"""
    stack = [(fn_node, True)]
    for n in ast.iter_child_nodes(fn_node):
        pass
    def walk(n, top):
        for c in ast.iter_child_nodes(n):
            if c is ret:
                return top
            if isinstance(c, (ast.FunctionDef, ast.AsyncFunctionDef, ast.Lambda)):
                r = walk(c, False)
            else:
                r = walk(c, top)
            if r is not None:
                return r
        return None
    return bool(walk(fn_node, True))


def _and(a, b):
    if a is None:
        return b
    if b is None:
        return a
    return ast.BoolOp(op=ast.And(), values=[a, b])


def _atoms(c: ast.AST, acc: Dict[str, ast.AST]):
    if isinstance(c, ast.BoolOp):
        for v in c.values:
            _atoms(v, acc)
    elif isinstance(c, ast.UnaryOp) and isinstance(c.op, ast.Not):
        _atoms(c.operand, acc)
    else:
        acc.setdefault(ast.dump(c), c)


def _eval(c: ast.AST, val: Dict[str, bool]) -> bool:
    if isinstance(c, ast.BoolOp):
        vs = [_eval(v, val) for v in c.values]
        return all(vs) if isinstance(c.op, ast.And) else any(vs)
    if isinstance(c, ast.UnaryOp) and isinstance(c.op, ast.Not):
        return not _eval(c.operand, val)
    return val[ast.dump(c)]


def how_often(repo: Repo, fn: Func, expr: ast.AST, source: str, fn_node=None) -> Tuple[str, object]:
    try:
        terms = _terms(repo, fn, fn_node if fn_node is not None else fn.node, expr, source, 0)
    except Unknown as e:
        return "unknown", str(e)
    atoms: Dict[str, ast.AST] = {}
    for t in terms:
        if t is not None:
            _atoms(t, atoms)
    if len(atoms) > 10:
        return "unknown", f"{len(atoms)} atoms"
    keys = sorted(atoms)
    rows = []
    for bits in itertools.product([False, True], repeat=len(keys)):
        val = dict(zip(keys, bits))
        n = sum(1 for t in terms if t is None or _eval(t, val))
        if n != 1:
            txt = ", ".join(f"{ast.unparse(atoms[k])}={'T' if val[k] else 'F'}" for k in keys) or "always"
            rows.append((txt, n))
    return ("once", len(terms)) if not rows else ("table", rows)
