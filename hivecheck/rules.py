"""Reusable rule instances (TS typestate pairing, enter-call discipline, adopt-on-success, WMC)."""
from __future__ import annotations

import ast
from typing import Callable, Dict, Iterable, List, Optional, Sequence, Set, Tuple

from . import AnalysisError, flow, states, PKG
from .index import index, Site, in_pkg, enclosing_func
from .loader import Func, Repo, dotted, parent
from .report import Ctx

ENTITY_OPS = "nrel/hive/state/entity_state/entity_state_ops.py"
VS_OPS = "nrel/hive/state/vehicle_state/vehicle_state_ops.py"


# ------------------------------------------------------------------------------------------ TS
def acquire_release_sets(sc: states.StateClass, kinds: Set[str]):
    """A(S): for each success path of enter the multiset of (kind, target, args) acquired and flowing
    into the result; R(S) likewise for exit."""
    def collect(which, direction):
        per_path = []
        for m in sc.success(which):
            uses = [(u.kind, u.target, u.args) for u in m.uses if u.kind in kinds and u.direction == direction]
            per_path.append((m, sorted(uses)))
        return per_path

    return collect("enter", "A"), collect("exit", "R")


def _target_absent_on_path(m: states.MPath, ren, target: str) -> bool:
    """Does the path condition say the target entity is not in the state any more?"""
    for atom, pol in m.path.facts():
        a = atom
        if flow.is_syn(a, "$isnone") and pol is True:
            if states.ndump(a.args[0], ren) == target:
                return True
        elif pol is False and states.ndump(a, ren) == target:
            return True
    return False


def rule_pairing(ctx: Ctx, kinds: Set[str], clause: str, clause_flow: str):
    """TS-1/TS-2: A(S) = R(S) on all success paths; acquired / released entities reach the result."""
    n = 0
    for sc in states.state_classes(ctx.repo):
        ctx.touched(sc.enter)
        ctx.touched(sc.exit)
        A, R = acquire_release_sets(sc, kinds)
        ren_e, ren_x = sc.rename(sc.enter), sc.rename(sc.exit)
        # wrong-direction uses (a release inside enter, an acquire inside exit) are never expected
        for which, fn, wrong in (("enter", sc.enter, "R"), ("exit", sc.exit, "A")):
            for m in sc.success(which):
                for u in m.uses:
                    if u.kind in kinds and u.direction == wrong:
                        ctx.violation(clause, "TS.pairing", f"{sc.name}.{which}: {u.kind} {('released' if wrong == 'R' else 'acquired')} in {which}",
                                      fn, u.event.raw, why=f"{which} must not {('release' if wrong == 'R' else 'acquire')} {u.kind} of {u.target}",
                                      construct=f"{sc.name}.{which}:wrong-direction:{u.kind}:{u.target}")
        # flows (DU must-flow)
        for which, fn in (("enter", sc.enter), ("exit", sc.exit)):
            for m in sc.success(which):
                for u in m.uses:
                    if u.kind not in kinds:
                        continue
                    n += 1
                    ctx.check(
                        u.flows_to_result, clause_flow, "DU.must-flow",
                        f"{sc.name}.{which}: result of {u.event.name} on {u.target} reaches the returned state",
                        fn, u.event.raw,
                        why_ok="the expanded return value contains the update",
                        why_bad=f"the entity updated by {u.event.name}(...) is dropped before the state returned at line {m.path.lineno} "
                                f"(path: {m.path.cond_text()[:300]})",
                        construct=f"{sc.name}.{which}:dropped:{u.kind}:{u.target}",
                    )
        if not A:
            ctx.violation(clause, "TS.pairing", f"{sc.name}.enter has no success path", sc.enter,
                          why="enter can never succeed", construct=f"{sc.name}.enter:no-success")
            continue
        if not R:
            ctx.violation(clause, "TS.pairing", f"{sc.name}.exit has no success path", sc.exit,
                          why="exit can never succeed", construct=f"{sc.name}.exit:no-success")
            continue
        # all success paths of enter must acquire the same set (only flowing acquisitions count)
        def eff(m, direction):
            return sorted((u.kind, u.target, u.args) for u in m.uses
                          if u.kind in kinds and u.direction == direction and u.flows_to_result)

        # delegated enter (return <fresh state>.enter(...)) is accounted to the delegate's class
        a_sets = []
        for m, _ in A:
            if _is_enter_delegation(m.path.value):
                continue
            a_sets.append((m, eff(m, "A")))
        if not a_sets:
            continue
        a0 = a_sets[0][1]
        for m, s in a_sets[1:]:
            if s != a0:
                ctx.violation(clause, "TS.pairing", f"{sc.name}.enter acquires different resources on different success paths",
                              sc.enter, m.path.end, why=f"{a0} vs {s}", construct=f"{sc.name}.enter:inconsistent-acquire")
        for m, _ in R:
            r = eff(m, "R")
            missing = [x for x in a0 if x not in r]
            extra = [x for x in r if x not in a0]
            # accepted idiom: nothing to release when the target entity is gone from the state
            missing = [x for x in missing if not _target_absent_on_path(m, ren_x, x[1])]
            n += 1
            if missing or extra:
                what = []
                if missing:
                    what.append("does not release " + "; ".join(f"{k} of {t}({a})" for k, t, a in missing))
                if extra:
                    what.append("releases what enter never acquired: " + "; ".join(f"{k} of {t}({a})" for k, t, a in extra))
                ctx.violation(
                    clause, "TS.pairing", f"{sc.name}: exit success path at line {m.path.lineno} " + " and ".join(what),
                    sc.exit, m.path.end,
                    why=f"enter acquires {a0 or '{}'} on every success path; exit path [{m.path.cond_text()[:200]}] releases {r or '{}'}",
                    construct=f"{sc.name}.exit:unpaired:" + ";".join(f"{k}:{t}" for k, t, a in missing + extra),
                    witness={"acquired": a0, "released": r, "path": m.path.cond_text()},
                )
            else:
                ctx.ok(clause, "TS.pairing", f"{sc.name}: A(enter)={[(k, t) for k, t, a in a0]} = R(exit) on exit path line {m.path.lineno}",
                       sc.exit, m.path.end)
    return n


def enter_delegate(value: Optional[ast.AST]) -> Optional[ast.Call]:
    """The delegated `<state>.enter(...)` call when a return value is that call, or the pair of its two
    projections `(r[0], r[1])` (result inspected before being handed on)."""
    if isinstance(value, ast.Call) and isinstance(value.func, ast.Attribute) and value.func.attr == "enter":
        return value
    if isinstance(value, ast.Tuple) and len(value.elts) == 2:
        a, b = value.elts
        if (isinstance(a, ast.Subscript) and isinstance(b, ast.Subscript) and isinstance(a.slice, ast.Constant) and isinstance(b.slice, ast.Constant)
                and a.slice.value == 0 and b.slice.value == 1 and flow.same(a.value, b.value)):
            return enter_delegate(a.value)
    return None


def _is_enter_delegation(value: Optional[ast.AST]) -> bool:
    return enter_delegate(value) is not None


def released_kinds(sc: states.StateClass, kinds: Set[str]) -> Set[str]:
    out = set()
    for m in sc.success("exit"):
        for u in m.uses:
            if u.kind in kinds and u.direction == "R":
                out.add(u.kind)
    # what enter acquires must be released too (if pairing is broken the enter side still counts)
    for m in sc.success("enter"):
        for u in m.uses:
            if u.kind in kinds and u.direction == "A" and not _is_enter_delegation(m.path.value):
                out.add(u.kind)
    return out


def exit_may_reject(sc: states.StateClass) -> bool:
    return any(m.result == "reject" for m in sc.mpaths("exit"))


def possible_current_classes(repo: Repo, fn: Func) -> Optional[Set[str]]:
    """Activity classes that can be the vehicle's current activity when `fn` runs: the classes one of
    whose own methods reaches `fn` through (name-resolved) calls. None = cannot be bounded (some caller
    chain ends outside the activity classes)."""
    idx = index(repo)
    seen = set()
    out: Set[str] = set()
    work = [fn]
    while work:
        f = work.pop()
        top = f
        while top.outer is not None:
            top = top.outer
        if (top.relpath, top.qualname) in seen:
            continue
        seen.add((top.relpath, top.qualname))
        if top.cls is not None and top.relpath.startswith(states.VS_DIR) and "VehicleState" in repo.base_names(top.cls):
            out.add(top.cls.name)
            continue
        sites = [s for s in idx.calls(top.name, refs=True) if in_pkg(s) and s.func is not None]
        if not sites or len(seen) > 60:
            return None
        for s in sites:
            work.append(s.func)
    return out


def rule_enter_sites(ctx: Ctx, kinds: Set[str], clause: str):
    """TS-3: every call of VehicleState.enter is (a) paired with the previous state's exit and fed
    exit's state, (b) a directly returned delegation inside an enter, or (c) only reachable for
    states that hold nothing of `kinds`."""
    repo = ctx.repo
    idx = index(repo)
    sites = [s for s in idx.calls("enter", refs=True) if in_pkg(s) and not s.file.startswith("nrel/hive/resources")]
    scs = states.state_classes(repo)
    holders = sorted(sc.name for sc in scs if released_kinds(sc, kinds))
    rejecting_holders = sorted(sc.name for sc in scs if released_kinds(sc, kinds) and exit_may_reject(sc))
    n = 0
    for s in sites:
        if s.func is None:
            ctx.violation(clause, "TS.enter-site", "enter referenced at module level", file=s.file, line=s.line,
                          function="<module>", why="cannot account for this call", construct="module-level-enter")
            continue
        fn = s.func
        n += 1
        if s.kind == "ref":
            ctx.violation(clause, "TS.enter-site", f"`enter` taken as a method value in {fn.qualname}", fn, s.node,
                          why="an enter that may be called later without the previous activity's exit",
                          construct=f"{fn.qualname}:enter-ref")
            continue
        call: ast.Call = s.node  # type: ignore[assignment]
        # find the call on the function's paths
        found = False
        all_paths_ = flow.paths(fn.node)

        def _applied(p_, ev_):
            recv_d_ = flow.dump(ev_.call.func.value) if isinstance(ev_.call.func, ast.Attribute) else None
            return any(not e2.deferred and isinstance(e2.call, ast.Call) and isinstance(e2.call.func, ast.Attribute) and e2.call.func.attr == "enter"
                       and flow.dump(e2.call.func.value) == recv_d_ and e2.call.args and e2.raw is not call for e2 in p_.events)

        # a call inside a lambda is judged on a path where the lambda is applied, when there is one
        prefer = [p_ for p_ in all_paths_ if any(ev_.raw is call and ev_.deferred and _applied(p_, ev_) for ev_ in p_.events)]
        for p in (prefer or all_paths_):
            for ev in p.events:
                if ev.raw is not call:
                    continue
                found = True
                arg = ev.call.args[0] if ev.call.args else None
                if ev.deferred and isinstance(ev.call.func, ast.Attribute):
                    # the call sits in a lambda handed to a helper that applies it (spliced, beta-reduced): judge the application
                    recv_d = flow.dump(ev.call.func.value)
                    for e2 in p.events:
                        c2 = e2.call
                        if not e2.deferred and isinstance(c2, ast.Call) and isinstance(c2.func, ast.Attribute) and c2.func.attr == "enter" \
                                and flow.dump(c2.func.value) == recv_d and c2.args and e2.raw is not call:
                            ev = flow.Event(e2.raw, c2, e2.stmt, False, "enter")
                            arg = c2.args[0]
                            break
                poss = possible_current_classes(repo, fn)
                h2 = holders if poss is None else sorted(set(holders) & poss)
                r2 = rejecting_holders if poss is None else sorted(set(rejecting_holders) & poss)
                verdict, why = _classify_enter_arg(fn, p, ev, arg, kinds, h2, r2)
                if poss is not None and verdict == "ok" and "paired:" not in why and "delegation" not in why:
                    why += f"; current activity here is one of {sorted(poss)}"
                inst = f"{fn.qualname}: enter({flow.dump(arg)[:80]}, ...)"
                if verdict == "ok":
                    ctx.ok(clause, "TS.enter-site", inst, fn, call, why)
                else:
                    ctx.violation(clause, "TS.enter-site", inst, fn, call, why=why,
                                  construct=f"{fn.qualname}:enter-site:{verdict}",
                                  witness={"path": p.cond_text(), "holders": holders})
                break
            if found:
                break
        if not found:
            # call inside a lambda/nested expression not on a path: treat as unaccounted
            ctx.violation(clause, "TS.enter-site", f"{fn.qualname}: enter call not on an analysable path", fn, call,
                          why="deferred call of enter", construct=f"{fn.qualname}:enter-deferred")
    return n


def _classify_enter_arg(fn: Func, p: flow.Path, ev: flow.Event, arg, kinds, holders, rejecting_holders):
    sim_param = fn.params[1] if fn.cls is not None and len(fn.params) > 1 else (fn.params[0] if fn.params else None)
    # (b) delegation inside an enter: `return X.enter(sim, env)` with the untouched sim
    if fn.name == "enter" and fn.cls is not None:
        if isinstance(arg, ast.Name) and arg.id == sim_param:
            return "ok", "delegation inside an enter, on the very state this enter received (nothing acquired before; the delegate's own exit pairs with what it acquires)"
        return "delegation-on-changed-state", "enter called inside an enter on a state that was already changed: what was acquired before the delegation has no matching release"
    # (a) paired: arg is <prev>.exit(next, sim, env)[1]
    def is_exit_proj(e):
        return (isinstance(e, ast.Subscript) and isinstance(e.slice, ast.Constant) and e.slice.value == 1
                and isinstance(e.value, ast.Call) and isinstance(e.value.func, ast.Attribute) and e.value.func.attr == "exit")

    def exit_tested(e: ast.Subscript):
        errd = ast.dump(ast.Subscript(value=e.value, slice=ast.Constant(value=0), ctx=ast.Load()))
        for atom, pol in p.facts():
            if pol is False and ast.dump(atom) == errd:
                return True
            if flow.is_syn(atom, "$isnone") and pol is True and ast.dump(atom.args[0]) == errd:
                return True
        return False

    if arg is not None and is_exit_proj(arg):
        recv = ev.call.func.value if isinstance(ev.call.func, ast.Attribute) else None
        nxt = arg.value.args[0] if arg.value.args else None
        if recv is not None and nxt is not None and not flow.same(recv, nxt):
            return "exit-for-other-state", "exit was told a different next state than the one entered"
        if not exit_tested(arg):
            return "exit-error-ignored", "enter runs although exit's error was not tested on this path"
        return "ok", "paired: enter receives the state produced by the previous activity's exit; exit's error is tested first"
    if isinstance(arg, ast.IfExp) and is_exit_proj(arg.body):
        # fallback: exit's state if it produced one, else the unmodified state
        if not exit_tested(arg.body):
            return "exit-error-ignored", "enter runs although exit's error was not tested on this path"
        if rejecting_holders:
            return ("fallback-skips-release",
                    f"falls back to the unmodified state when exit refuses, but {rejecting_holders} hold a resource and may refuse")
        return "ok", ("paired with fallback: when exit refuses (None state) the unmodified state is used; every activity whose exit "
                      "may refuse releases nothing of " + "/".join(sorted(kinds)))
    # the same fallback written as an if-statement: on this path exit produced NO state (tested) and enter gets the
    # unmodified state
    if isinstance(arg, ast.Name) and arg.id == sim_param:
        for e2 in p.events:
            if e2.name == "exit" and not e2.deferred and e2.raw.lineno <= ev.raw.lineno:
                st_slot = ast.Subscript(value=e2.call, slice=ast.Constant(value=1), ctx=ast.Load())
                d_st = ast.dump(st_slot)
                refused = any((flow.is_syn(a, "$isnone") and pol is True and ast.dump(a.args[0]) == d_st) or (ast.dump(a) == d_st and pol is False) for a, pol in p.facts())
                if refused:
                    if not exit_tested(st_slot):
                        return "exit-error-ignored", "enter runs although exit's error was not tested on this path"
                    if rejecting_holders:
                        return ("fallback-skips-release",
                                f"falls back to the unmodified state when exit refuses, but {rejecting_holders} hold a resource and may refuse")
                    return "ok", ("paired with fallback (if-statement form): exit refused on this path (None state), the unmodified state is used; every "
                                  "activity whose exit may refuse releases nothing of " + "/".join(sorted(kinds)))
    # (c) unpaired
    if holders:
        return "unpaired", f"enter without the previous activity's exit; activities holding {sorted(kinds)}: {holders}"
    return "ok", "unpaired, but no activity holds any of " + "/".join(sorted(kinds))


def rule_transition(ctx: Ctx, clause: str):
    """TS-3 / C09-D1: transition_previous_to_next returns enter's state, computed from exit's state;
    every other path returns no state."""
    fn = ctx.repo.func(ENTITY_OPS, "transition_previous_to_next")
    ps = flow.paths(fn.node)
    ctx.require(len(fn.params) >= 4, "transition_previous_to_next signature changed")
    sim, env, prev, nxt = fn.params[:4]
    want = flow.pat(f"{nxt}.enter({prev}.exit({nxt}, {sim}, {env})[1], {env})[1]")
    n_ok = 0
    for p in ps:
        k = flow.classify_result(p.value) if p.kind == "return" else p.kind
        if k in ("error", "reject", "raise"):
            continue
        if k == "ok":
            v = p.value.elts[1]
            good = flow.same(v, want)
            facts = {(ast.dump(a), pol) for a, pol in p.facts()}
            exit0 = ast.dump(flow.pat(f"{prev}.exit({nxt}, {sim}, {env})[0]"))
            enter0 = ast.dump(flow.pat(f"{nxt}.enter({prev}.exit({nxt}, {sim}, {env})[1], {env})[0]"))
            tested = (exit0, False) in facts and (enter0, False) in facts
            # ... and the state slots too: an exit that REFUSES hands back (None, None); entering the next activity with that None is not a
            # rejection but a crash (or, with a fallback, an entry that skipped the exit)
            exit1 = ast.dump(flow.pat(f"{prev}.exit({nxt}, {sim}, {env})[1]"))
            enter1 = ast.dump(flow.pat(f"{nxt}.enter({prev}.exit({nxt}, {sim}, {env})[1], {env})[1]"))

            def present(slot):
                return (slot, True) in facts or any(flow.is_syn(a, "$isnone") and ast.dump(a.args[0]) == slot and pol is False for a, pol in p.facts())
            tested = tested and present(exit1) and present(enter1)
            n_ok += 1
            ctx.check(good and tested, clause, "TS.transition", "transition_previous_to_next success = enter(exit(sim)) with both errors and both state slots tested",
                      fn, p.end,
                      why_ok="returned state is next.enter(prev.exit(next, sim, env).state, env).state; both error slots tested falsy on the path",
                      why_bad=f"success path returns {flow.dump(v)[:200]} under [{p.cond_text()[:300]}]",
                      construct="transition:success-shape:" + ("untested" if good else flow.dump(v)[:120]))
        else:
            ctx.violation(clause, "TS.transition", f"transition_previous_to_next returns an unrecognised result at line {p.lineno}",
                          fn, p.end, why=f"value {flow.dump(p.value)[:200]} is neither error, (None, None) nor (None, enter-state)",
                          construct="transition:odd-return:" + flow.dump(p.value)[:120])
    if n_ok == 0:
        ctx.violation(clause, "TS.transition", "transition_previous_to_next has no success path", fn,
                      why="no path returns a state", construct="transition:no-success")


def rule_adopt_on_success(ctx: Ctx, fn: Func, callee: str, clause: str, rule="DU.adopt-on-success"):
    """A state produced by `callee(...)` (an ErrorOr pair) reaches the function's result only on paths
    that tested its error slot falsy and its state slot present."""
    n = 0
    for p in flow.paths(fn.node):
        if p.kind != "return" or p.value is None:
            continue
        for c in flow.calls_in(p.value, callee):
            # is it used through [1]?
            used = [s for s in ast.walk(p.value) if isinstance(s, ast.Subscript) and s.value is c
                    and isinstance(s.slice, ast.Constant) and s.slice.value == 1]
            if not used:
                continue
            n += 1
            err = ast.dump(ast.Subscript(value=c, slice=ast.Constant(value=0), ctx=ast.Load()))
            st = ast.dump(used[0])
            e_ok = s_ok = False
            for atom, pol in p.facts():
                d = ast.dump(atom)
                if d == err and pol is False:
                    e_ok = True
                if flow.is_syn(atom, "$isnone") and ast.dump(atom.args[0]) == err and pol is True:
                    e_ok = True
                if d == st and pol is True:
                    s_ok = True
                if flow.is_syn(atom, "$isnone") and ast.dump(atom.args[0]) == st and pol is False:
                    s_ok = True
            ctx.check(e_ok and s_ok, clause, rule,
                      f"{fn.qualname}: state from {callee}() adopted only after its error and None were ruled out",
                      fn, p.end,
                      why_ok=f"path [{p.cond_text()[:160]}]",
                      why_bad=f"path [{p.cond_text()[:300]}] adopts {callee}(...)[1] " +
                              ("without testing the error slot" if not e_ok else "without testing for a None state"),
                      construct=f"{fn.qualname}:adopt:{callee}:{'err' if not e_ok else 'none'}")
    return n


# ------------------------------------------------------------------------------------------ WMC
def _via_new_helper(ctx: Ctx, s: Site, allowed: Callable[[Site], Optional[str]], depth: int = 0) -> Optional[str]:
    """Who-may-call / who-may-write through a function the pinned tree does not have: lines moved into a new helper are judged by who
    reaches the helper — allowed iff the helper is referenced somewhere and EVERY reference sits in an allowed function (or in another
    such helper)."""
    from .inline import baseline

    f = s.func
    base = baseline()
    if f is None or not base or depth > 3:
        return None
    top = f
    while top.outer is not None and (top.relpath, top.qualname) not in base:
        top = top.outer
    if (top.relpath, top.qualname) in base:
        if top is f:
            return None
        # a new NESTED function inside an existing one: it is that function's own code
        fake = Site(s.module, top, s.node, s.kind)
        return allowed(fake)
    idx = index(ctx.repo)
    refs = [r for r in idx.calls(f.name, refs=True) + idx.name_refs(f.name) if in_pkg(r) and r.func is not f]
    if not refs:
        return None
    reasons = []
    for r in refs:
        why = allowed(r) or _via_new_helper(ctx, r, allowed, depth + 1)
        if not why:
            return None
        reasons.append(why)
    return f"new helper {f.qualname}, reached only from: {sorted(set(reasons))[0][:80]}"


def rule_callers(ctx: Ctx, clause: str, name: str, allowed: Callable[[Site], Optional[str]], what: str,
                 min_sites: int = 1, refs: bool = True, skip: Callable[[Site], bool] = None):
    """Every call (or method-value reference) of `name` in the package is in an allowed function.
    `allowed(site)` returns a reason string when allowed, None otherwise."""
    idx = index(ctx.repo)
    sites = [s for s in idx.calls(name, refs=refs) if in_pkg(s)]
    if skip:
        sites = [s for s in sites if not skip(s)]
    if len(sites) < min_sites:
        ctx.soft_fail(f"WMC: expected at least {min_sites} call sites of {name}, found {len(sites)}")
    for s in sites:
        why = allowed(s) or _via_new_helper(ctx, s, allowed)
        inst = f"{name} called from {s.qual}"
        if why:
            ctx.ok(clause, "WMC.callers", inst, why=why, file=s.file, line=s.line, function=s.qual)
        else:
            ctx.violation(clause, "WMC.callers", inst, why=f"{what}: {s.file}:{s.line} is outside the closed caller set",
                          construct=f"caller:{name}:{s.file}:{s.qual}", file=s.file, line=s.line, function=s.qual)
        if s.func is not None:
            ctx.touched(s.func)
    return len(sites)


def rule_field_writers(ctx: Ctx, clause: str, field: str, allowed: Callable[[Site], Optional[str]], what: str,
                       min_sites: int = 1, owner_hint: Callable[[Site], bool] = None):
    """Every keyword write `field=` (constructor / replace / _replace) and attribute store `.field =`."""
    idx = index(ctx.repo)
    sites = [s for s in idx.kw_writes(field) + idx.attr_stores(field) if in_pkg(s)]
    sites = [s for s in sites if not (s.kind == "setattr" and not _setattr_names(s, field))]
    if owner_hint:
        sites = [s for s in sites if owner_hint(s)]
    if len(sites) < min_sites:
        ctx.soft_fail(f"WMC: expected at least {min_sites} writes of field {field}, found {len(sites)}")
    for s in sites:
        why = allowed(s) or _via_new_helper(ctx, s, allowed)
        inst = f"field {field} written in {s.qual}"
        if why:
            ctx.ok(clause, "WMC.writers", inst, why=why, file=s.file, line=s.line, function=s.qual)
        else:
            ctx.violation(clause, "WMC.writers", inst, why=f"{what}: {s.file}:{s.line} is outside the closed writer set",
                          construct=f"writer:{field}:{s.file}:{s.qual}", file=s.file, line=s.line, function=s.qual)
    return len(sites)


def _setattr_names(s: Site, field: str) -> bool:
    n = s.node
    for a in getattr(n, "args", []):
        if isinstance(a, ast.Constant) and a.value == field:
            return True
    # dynamic name: conservatively counts
    return not any(isinstance(a, ast.Constant) and isinstance(a.value, str) for a in getattr(n, "args", []))


def is_state_enter_exit(repo: Repo, s: Site, names=("enter", "exit")) -> bool:
    f = s.func
    while f is not None and f.outer is not None:
        f = f.outer
    return (f is not None and f.cls is not None and f.name in names and f.relpath.startswith(states.VS_DIR)
            and "VehicleState" in repo.base_names(f.cls))


# ------------------------------------------------------------------------------------------ folds
FOLD_EXCEPTIONS = {
    # (file, enclosing function, reducer) -> reason
    ("nrel/hive/state/simulation_state/update/step_simulation_ops.py", "perform_driver_state_updates", "_step_drivers"):
        "returns the fold's initial state on the error/None branches; those branches are unreachable for the built-in "
        "driver states (update() only errs on a missing vehicle and the fold iterates the state's own vehicles; "
        "apply_new_driver_state -> modify_vehicle keeps the position). Recorded as a latent observation in DESIGN 6.4.",
}


def _reducer_node(repo: Repo, fn: Func, f_expr: ast.AST):
    """Resolve the first argument of ft.reduce to (node, label, bound_kwargs)."""
    if isinstance(f_expr, ast.Lambda):
        return f_expr, "<lambda>"
    if isinstance(f_expr, ast.Name):
        # nested def in fn or an enclosing function, or module-level function
        f = fn
        while f is not None:
            cand = fn.module.funcs.get(f"{f.qualname}.{f_expr.id}")
            if cand is not None:
                return cand.node, f_expr.id
            f = f.outer
        cand = fn.module.funcs.get(f_expr.id)
        if cand is not None:
            return cand.node, f_expr.id
        # a local alias of the reducer (`step = _traverse`)
        binds = [n for n in ast.walk(fn.node) if isinstance(n, ast.Assign) and len(n.targets) == 1 and isinstance(n.targets[0], ast.Name) and n.targets[0].id == f_expr.id]
        if len(binds) == 1 and not (isinstance(binds[0].value, ast.Name) and binds[0].value.id == f_expr.id):
            return _reducer_node(repo, fn, binds[0].value)
        return None, f_expr.id
    if isinstance(f_expr, ast.Call) and flow.dump(f_expr.func) in ("ft.partial", "functools.partial", "partial") and f_expr.args:
        return _reducer_node(repo, fn, f_expr.args[0])
    return None, flow.dump(f_expr)[:40]


def rule_fold_threading(ctx: Ctx, clause: str, fn: Func, min_sites: int = 1, rule="DU.fold-threading"):
    """Inside `fn`: every ft.reduce reducer returns a value derived from its accumulator parameter and
    never reaches back to the fold's initial value; every loop that rebinds a variable carried across
    iterations computes the new value from the previous one. (A reducer that returns the captured
    pre-fold state on some branch silently discards the work of all earlier elements.)"""
    repo = ctx.repo
    n = 0
    ctx.touched(fn)
    for node in ast.walk(fn.node):
        if isinstance(node, ast.Call) and flow.dump(node.func) in ("ft.reduce", "functools.reduce", "reduce") and len(node.args) >= 2:
            from .index import enclosing_func
            if enclosing_func(node) is not fn:
                continue
            rnode, label = _reducer_node(repo, fn, node.args[0])
            init = node.args[2] if len(node.args) > 2 else None
            if rnode is None:
                ctx.info(clause, rule, f"{fn.qualname}: reducer {label} not resolvable (callable parameter)", fn, node)
                continue
            n += 1
            a = rnode.args
            params = [x.arg for x in a.posonlyargs + a.args]
            if not params:
                continue
            acc = params[0]
            init_name = init.id if isinstance(init, ast.Name) else None
            key = (fn.relpath, fn.qualname, label)
            bad = []
            for p in flow.paths(rnode):
                if p.kind != "return":
                    continue
                if flow.classify_result(p.value) == "error" or (isinstance(p.value, ast.Call) and flow.dump(p.value.func) == "Failure"):
                    continue  # an error-carrying fold may abort with (error, None): nothing stale is carried on
                if not flow.mentions(p.value, acc):
                    bad.append((p, f"returns {flow.dump(p.value)[:80]}, which does not derive from the accumulator `{acc}`"))
                elif init_name and init_name != acc and flow.mentions(p.value, init_name) and not isinstance(init, ast.Constant):
                    # mentions both: only suspicious if a state-update call is fed the initial value
                    for c in flow.calls_in(p.value):
                        if c.args and isinstance(c.args[0], ast.Name) and c.args[0].id == init_name:
                            bad.append((p, f"applies {flow.dump(c.func)} to the fold's initial value `{init_name}` instead of the accumulator"))
            inst = f"{fn.qualname}: reducer {label} threads its accumulator"
            if bad and key in FOLD_EXCEPTIONS:
                ctx.info(clause, rule, inst + " [tabled exception]", fn, node, why=FOLD_EXCEPTIONS[key])
            elif bad:
                p, why = bad[0]
                ctx.violation(clause, rule, inst, fn, p.end or node,
                              why=f"on path [{p.cond_text()[:200]}] the reducer {why}: the effects of earlier elements are discarded",
                              construct=f"{fn.qualname}:{label}:fold-drops-accumulator")
            else:
                ctx.ok(clause, rule, inst, fn, node, why="every return derives from the accumulator parameter")
    # loops that carry a variable across iterations
    from .loader import walk_stmts
    for s in walk_stmts(fn.node):
        if not isinstance(s, (ast.For, ast.While)):
            continue
        assigned = set()
        for t in ast.walk(s):
            if isinstance(t, ast.Name) and isinstance(t.ctx, ast.Store):
                assigned.add(t.id)
        loop_targets = flow.target_names(s.target) if isinstance(s, ast.For) else set()
        try:
            bps = flow.paths_of_block(s.body)
        except AnalysisError:
            continue
        for var in sorted(assigned - loop_targets):
            # carried = read in the body before being (re)assigned on some path, or used after the loop
            carried = any(flow.mentions(p.env.get(var), var) for p in bps if var in p.env)
            rebinds = [p for p in bps if var in p.env and not (isinstance(p.env[var], ast.Name) and p.env[var].id == var)]
            if not carried or not rebinds:
                continue
            n += 1
            bad = [p for p in rebinds if not flow.mentions(p.env[var], var)]
            inst = f"{fn.qualname}: loop at line {s.lineno} carries `{var}` from one iteration to the next"
            if bad:
                p = bad[0]
                ctx.violation(clause, rule, inst, fn, s,
                              why=f"on path [{p.cond_text()[:200]}] `{var}` is replaced by {flow.dump(p.env[var])[:100]}, which does not derive from its previous value",
                              construct=f"{fn.qualname}:loop:{var}:drops-previous")
            else:
                ctx.ok(clause, rule, inst, fn, s, why="every rebinding derives from the previous value")
    if n < min_sites:
        ctx.soft_fail(f"fold-threading: expected at least {min_sites} folds/loops in {fn.qualname}, found {n}")
    return n


def rule_default_update(ctx: Ctx, clause: str, require_perform_update: bool = False):
    """default_update: terminal condition => transition_previous_to_next(state -> default terminal state)
    followed by the NEW state's _perform_update (not its update(): that would re-test the new state's
    terminal condition and could skip its first step); otherwise the current state's _perform_update;
    every activity's update() is default_update(sim, env, self)."""
    repo = ctx.repo
    du = repo.func("nrel/hive/state/vehicle_state/vehicle_state.py", "VehicleStateABC.default_update")
    ps = flow.paths(du.node)
    sim, env, st = du.params[1:4]
    trans = flow.pat(f"entity_state_ops.transition_previous_to_next({sim}, {env}, {st}, {st}._default_terminal_state({sim}, {env})[1])")
    cond = flow.pat(f"{st}._has_reached_terminal_state_condition({sim}, {env})")
    n = 0
    for p in ps:
        if p.kind != "return":
            continue
        facts = [(ast.dump(a), pol) for a, pol in p.facts()]
        term = (ast.dump(cond), True) in facts
        nonterm = (ast.dump(cond), False) in facts
        k = flow.classify_result(p.value)
        if k == "delegate":
            n += 1
            if term:
                has = any(flow.same(c, trans) for c in flow.calls_in(p.value, "transition_previous_to_next"))
                # C03 needs the NEW activity's _perform_update (its first step, e.g. the drop-off of a zero-length trip, must
                # not be skipped by re-testing the terminal condition); for the count/queue/leaving properties either
                # continuation keeps the transition itself intact
                perf = isinstance(p.value, ast.Call) and isinstance(p.value.func, ast.Attribute) and p.value.func.attr in (
                    ("_perform_update",) if require_perform_update else ("_perform_update", "update"))
                ctx.check(has and perf, clause, "ORD.terminal", "default_update: terminal condition => transition_previous_to_next(state -> default terminal state), then the new state's update",
                          du, p.end, why_bad=f"terminal path returns {flow.dump(p.value)[:200]}", construct="default_update:terminal-shape")
            elif nonterm:
                good = flow.same(p.value, flow.pat(f"{st}._perform_update({sim}, {env})"))
                ctx.check(good, clause, "ORD.terminal", "default_update: otherwise the current state's _perform_update on the same sim", du, p.end,
                          why_bad=f"returns {flow.dump(p.value)[:200]}", construct="default_update:nonterminal-shape")
            else:
                ctx.violation(clause, "ORD.terminal", "default_update result not guarded by the terminal condition", du, p.end,
                              why="path does not test _has_reached_terminal_state_condition", construct="default_update:unguarded")
    ctx.require(n >= 2, "default_update: expected a terminal and a non-terminal delegate path")
    for sc in states.state_classes(repo):
        up = repo.method(sc.cls, "update")
        ctx.require(up is not None, f"{sc.name}.update vanished")
        pp = flow.paths(up.node)
        good = len(pp) == 1 and pp[0].kind == "return" and isinstance(pp[0].value, ast.Call) and flow.match(
            "M_c.default_update(M_sim, M_env, self)", pp[0].value) is not None and flow.dump(pp[0].value.args[0]) == up.params[1]
        if not good:
            # the same thing with something wrapped around it: default_update(sim, env, self) runs on every path, and whenever it
            # did not fail its result is what update() returns (what a wrapper does on the failing paths — e.g. an unpaired
            # enter — is judged by the rules about those constructs, not by this shape)
            good = bool(pp)
            for q in pp:
                calls = [e for e in q.events if e.name == "default_update" and not e.deferred]
                if q.kind != "return" or len(calls) != 1 or [flow.dump(a) for a in calls[0].call.args] != [up.params[1], up.params[2], "self"]:
                    good = False
                    break
                c = calls[0].call
                err = ast.dump(ast.Subscript(value=c, slice=ast.Constant(value=0), ctx=ast.Load()))
                failed = any((ast.dump(a) == err and pol is True) or (flow.is_syn(a, "$isnone") and ast.dump(a.args[0]) == err and pol is False) for a, pol in q.facts())
                if failed:
                    continue
                v = q.value
                passthrough = flow.dump(v) == flow.dump(c) or (isinstance(v, ast.Tuple) and len(v.elts) == 2 and flow.dump(v.elts[1]) == flow.dump(c) + "[1]")
                if not passthrough:
                    good = False
                    break
        ctx.check(good, clause, "ORD.terminal", f"{sc.name}.update is default_update(sim, env, self)", up,
                  why_bad="update() does not delegate to default_update with its own sim and self", construct=f"{sc.name}.update:shape")


# ------------------------------------------------------------------------------------------ error discipline
AMBIGUOUS_PAIR_NAMES = {"update", "charge", "build", "from_row", "_update"}
STEP_PATH_EXCLUDE = ("nrel/hive/resources", "nrel/hive/reporting", "nrel/hive/app", "nrel/hive/initialization", "nrel/hive/runner", "nrel/hive/config")


def pair_returning_names(repo: Repo) -> Set[str]:
    """Names of functions whose declared result is the repository's error pair (Tuple[Optional[Exception], Optional[T]]
    / ErrorOr[T]); names that are also used by functions with another result type are left out."""
    out: Set[str] = set()
    other: Set[str] = set()
    for f in repo.all_funcs():
        ret = getattr(f.node, "returns", None)
        if ret is None:
            continue
        d = flow.dump(ret)
        if "ErrorOr[" in d or d.lstrip("'\"").startswith(("Tuple[Optional[Exception]", "Tuple[Optional[Error]")):
            out.add(f.name)
        else:
            other.add(f.name)
    return out - AMBIGUOUS_PAIR_NAMES - (other & {"update", "charge"})


def rule_error_discipline(ctx: Ctx, clause: str, rule="DU.error-discipline", min_sites: int = 40):
    """Whatever a function returns may contain the value slot `f(...)[1]` of an error-pair call only on paths that
    tested that call's error slot falsy or its value slot present: a failed sub-operation never contributes a
    (None) state or entity to the result."""
    repo = ctx.repo
    names = pair_returning_names(repo)
    n = 0
    for f in repo.all_funcs():
        if f.relpath.startswith(STEP_PATH_EXCLUDE):
            continue
        try:
            ps = flow.paths(f.node)
        except AnalysisError:
            continue
        seen = set()
        for p in ps:
            if p.kind != "return" or p.value is None:
                continue
            for s in ast.walk(p.value):
                if not (isinstance(s, ast.Subscript) and isinstance(s.slice, ast.Constant) and s.slice.value == 1 and isinstance(s.value, ast.Call)):
                    continue
                c = s.value
                nm = c.func.attr if isinstance(c.func, ast.Attribute) else getattr(c.func, "id", None)
                if nm not in names:
                    continue
                key = (nm, getattr(s, "lineno", 0), p.lineno)
                if key in seen:
                    continue
                seen.add(key)
                err = ast.dump(ast.Subscript(value=c, slice=ast.Constant(value=0), ctx=ast.Load()))
                v = p.value
                if isinstance(v, ast.Tuple) and len(v.elts) == 2 and v.elts[1] is s and ast.dump(v.elts[0]) == err:
                    continue  # (r[0], r[1]): the callee's pair handed on whole, the same as `return callee(...)`
                st = ast.dump(s)
                tested = False
                for a, pol in p.facts():
                    d = ast.dump(a)
                    if (d == err and pol is False) or (d == st and pol is True):
                        tested = True
                    if flow.is_syn(a, "$isnone"):
                        da = ast.dump(a.args[0])
                        if (da == err and pol is True) or (da == st and pol is False):
                            tested = True
                n += 1
                ctx.check(tested, clause, rule, f"{f.qualname}: result of {nm}() used only after its error / None was ruled out (return at line {p.lineno})", f, p.end,
                          why_bad=f"path [{p.cond_text()[:240]}] returns a value built from {nm}(...)[1] without having tested {nm}(...)[0] or the value itself: "
                                  f"when {nm} fails, a None state/entity flows on as if it had succeeded",
                          construct=f"{f.qualname}:unchecked:{nm}")
    if n < min_sites:
        ctx.soft_fail(f"error-discipline rule matched {n} sites (< {min_sites})")
    return n


# ------------------------------------------------------------------------------------------ state lineage
STATE_PARAM_NAMES = ("sim", "simulation_state", "sim_state", "s", "exit_sim", "updated_sim", "sim2", "sim3", "initial_sim_state")


def state_producers(repo: Repo) -> Dict[str, int]:
    """name -> index (among the call's positional arguments, `self` not counted) of the simulation-state argument, for
    functions that take a simulation state and return one (alone, in an error pair or in a Result)."""
    out: Dict[str, int] = {}
    clash: Set[str] = set()
    for f in repo.all_funcs():
        if f.relpath.startswith(STEP_PATH_EXCLUDE):
            continue
        ret = getattr(f.node, "returns", None)
        if ret is None or "SimulationState" not in flow.dump(ret):
            continue
        a = f.node.args
        ps = [x for x in a.posonlyargs + a.args]
        if f.cls is not None and ps and ps[0].arg in ("self", "cls", "mcs"):
            ps = ps[1:]
        idx = None
        for i, x in enumerate(ps):
            ann = flow.dump(x.annotation) if x.annotation is not None else ""
            if "SimulationState" in ann and "Tuple" not in ann and "Callable" not in ann:
                idx = i
                break
        if idx is None:
            continue
        if f.name in out and out[f.name] != idx:
            clash.add(f.name)
        out[f.name] = idx
    for c in clash:
        out.pop(c, None)
    for amb in ("update", "build", "get"):
        out.pop(amb, None)
    out["exit"] = -1  # VehicleState.exit(next_state, sim, env) / DriverState.exit(sim, env): decided by the argument count
    return out


def _state_arg(call: ast.Call, idx: int) -> Optional[ast.AST]:
    if idx == -1:
        idx = 1 if len(call.args) >= 3 else 0
    if idx < len(call.args):
        return call.args[idx]
    for k in call.keywords:
        if k.arg in STATE_PARAM_NAMES:
            return k.value
    return None


def state_lineage(v: Optional[ast.AST], producers: Dict[str, int]) -> List[ast.Call]:
    """The chain of state-producing calls through which the state `v` was obtained (following the state argument)."""
    out: List[ast.Call] = []
    seen = 0
    while v is not None and seen < 50:
        seen += 1
        if isinstance(v, ast.Subscript) and isinstance(v.slice, ast.Constant) and v.slice.value in (0, 1):
            v = v.value
            continue
        if isinstance(v, ast.Call):
            nm = v.func.attr if isinstance(v.func, ast.Attribute) else getattr(v.func, "id", None)
            if isinstance(v.func, ast.Attribute) and v.func.attr in ("unwrap", "_replace"):
                v = v.func.value
                continue
            if nm in producers:
                out.append(v)
                v = _state_arg(v, producers[nm])
                continue
            # a callee the producer table does not know (ambiguous name such as `update`): assume it threads the
            # state it is given, and follow the argument that has a lineage of its own
            best: List[ast.Call] = []
            for a in list(v.args) + [k.value for k in v.keywords]:
                la = state_lineage(a, producers)
                if len(la) > len(best):
                    best = la
            return out + best
        if isinstance(v, ast.Tuple) and len(v.elts) == 2:
            v = v.elts[1]
            continue
        if isinstance(v, ast.IfExp):
            # either arm: take the longer lineage (both arms must be states)
            a, b = state_lineage(v.body, producers), state_lineage(v.orelse, producers)
            return out + (a if len(a) >= len(b) else b)
        return out
    return out


# ------------------------------------------------------------------------------------------ forward reachability
STATE_CUR_METHODS = {"exit", "update", "_perform_update", "_default_terminal_state", "_has_reached_terminal_state_condition"}
_REACH_CACHE: Dict[int, Dict] = {}


def _reach_tables(repo: Repo):
    t = _REACH_CACHE.get(id(repo))
    if t is None:
        by_name: Dict[str, List[Func]] = {}
        for f in repo.all_funcs():
            if f.relpath.startswith("nrel/hive/resources"):
                continue
            by_name.setdefault(f.name, []).append(f)
        state_names = {sc.name for sc in states.state_classes(repo)}
        t = _REACH_CACHE[id(repo)] = {"by_name": by_name, "state_names": state_names, "poss": {}, "calls": {}}
    return t


def _is_state_method(t, f: Func) -> bool:
    top = f
    while top.outer is not None:
        top = top.outer
    return top.cls is not None and top.cls.name in t["state_names"]


def _arity_ok(f: Func, call: ast.Call) -> bool:
    """Could `call` be a call of `f`, by argument count alone? (sound narrowing of name resolution)"""
    if any(isinstance(a, ast.Starred) for a in call.args) or any(k.arg is None for k in call.keywords):
        return True
    a = f.node.args
    if a.vararg is not None and a.kwarg is not None:
        return True
    pos = [x.arg for x in a.posonlyargs + a.args]
    bound = f.cls is not None and pos and pos[0] in ("self", "cls", "mcs") and not any(
        isinstance(d, ast.Name) and d.id == "staticmethod" for d in f.node.decorator_list)
    # a method called through the class (`VehicleState.default_update(sim, env, self)`) passes self explicitly: allow both
    n = len(call.args) + len(call.keywords)
    total = len(pos) + len(a.kwonlyargs)
    required = len(pos) - len(a.defaults) + sum(1 for d in a.kw_defaults if d is None)
    lo, hi = required, (10 ** 6 if (a.vararg is not None or a.kwarg is not None) else total)
    if bound:
        return lo - 1 <= n <= hi
    return lo <= n <= hi


def _local_state_class(t, site_fn: Func, recv: ast.AST) -> Optional[str]:
    """`K.build(...)` / `K(...)` with K an activity class, directly or through a local assigned exactly once."""
    def klass(e):
        if isinstance(e, ast.Call):
            d = dotted(e.func) or ""
            head = d.split(".")[0]
            if head in t["state_names"] and (d == head or d == head + ".build"):
                return head
        return None
    k = klass(recv)
    if k is not None:
        return k
    if isinstance(recv, ast.Name):
        vals = []
        for n in ast.walk(site_fn.node):
            if isinstance(n, ast.Assign):
                for tg in n.targets:
                    for x in ast.walk(tg):
                        if isinstance(x, ast.Name) and x.id == recv.id:
                            vals.append(n.value if tg is x or isinstance(tg, ast.Name) else None)
            elif isinstance(n, (ast.AnnAssign, ast.AugAssign, ast.NamedExpr)) and isinstance(getattr(n, "target", None), ast.Name) and n.target.id == recv.id:
                vals.append(getattr(n, "value", None) if isinstance(n, ast.AnnAssign) else None)
        if recv.id in site_fn.params:
            return None
        if len(vals) == 1 and vals[0] is not None:
            return klass(vals[0])
    return None


def call_targets(repo: Repo, site_fn: Func, call: ast.Call) -> List[Func]:
    """Name-resolved targets of a call. A call of a method of the vehicle's CURRENT activity (exit / update / ...) is
    narrowed to the activity classes that can be current where `site_fn` runs; an `enter` on an activity goes to every
    activity class (the next activity is not bounded)."""
    t = _reach_tables(repo)
    nm = call.func.attr if isinstance(call.func, ast.Attribute) else getattr(call.func, "id", None)
    if nm is None:
        return []
    targets = [f for f in t["by_name"].get(nm, []) if _arity_ok(f, call)]
    if not targets:
        return []
    if isinstance(call.func, ast.Attribute) and (nm in STATE_CUR_METHODS or nm == "enter"):
        recv = flow.dump(call.func.value)
        built = _local_state_class(t, site_fn, call.func.value)
        if built is not None:
            return [f for f in targets if f.cls is not None and f.cls.name == built] or targets
        if recv in ("self", "cls"):
            looks_like_state = _is_state_method(t, site_fn) or (site_fn.cls is not None and site_fn.cls.name in ("VehicleStateABC", "VehicleState"))
        else:
            looks_like_state = recv.endswith(("vehicle_state", "next_state", "prev_state", "_state", "state")) and not recv.endswith(("sim_state", "simulation_state", "driver_state")) \
                or recv.startswith(tuple(x + "." for x in t["state_names"])) or recv.startswith(tuple(x + "(" for x in t["state_names"]))
        st = [f for f in targets if _is_state_method(t, f) or (f.cls is not None and f.cls.name in ("VehicleStateABC", "VehicleState"))]
        if not looks_like_state:
            targets = [f for f in targets if f not in st]  # a Map / a simulation update / a driver: not an activity
        else:
            if st:
                targets = st
                if nm in STATE_CUR_METHODS:
                    key = (site_fn.relpath, site_fn.qualname)
                    if key not in t["poss"]:
                        t["poss"][key] = possible_current_classes(repo, site_fn)
                    poss = t["poss"][key]
                    if poss is not None:
                        targets = [f for f in targets if f.cls is None or f.cls.name in poss or f.cls.name in ("VehicleStateABC", "VehicleState")]
    return targets


def _calls_of(repo: Repo, f: Func) -> List[ast.Call]:
    t = _reach_tables(repo)
    key = (f.relpath, f.qualname)
    if key not in t["calls"]:
        t["calls"][key] = [n for n in ast.walk(f.node) if isinstance(n, ast.Call)]
    return t["calls"][key]


def reachable_funcs(repo: Repo, roots: Iterable[Func], limit: int = 1500) -> Optional[Set[Func]]:
    """Functions reachable from `roots` over name-resolved calls (see call_targets). None when the bound is exceeded."""
    seen: Set[Func] = set()
    work = list(roots)
    while work:
        f = work.pop()
        if f in seen:
            continue
        seen.add(f)
        if len(seen) > limit:
            return None
        for c in _calls_of(repo, f):
            for g in call_targets(repo, f, c):
                if g not in seen:
                    work.append(g)
    return seen


def may_reach(repo: Repo, site_fn: Func, call: ast.Call, names: Set[str], limit: int = 600) -> bool:
    """May executing `call` (made inside site_fn) reach a call of one of `names`? Over-approximate: name-resolved
    targets; True when the exploration bound is exceeded."""
    nm = call.func.attr if isinstance(call.func, ast.Attribute) else getattr(call.func, "id", None)
    if nm in names:
        return True
    seen: Set[Func] = set()
    work = list(call_targets(repo, site_fn, call))
    while work:
        f = work.pop()
        if f in seen:
            continue
        seen.add(f)
        if len(seen) > limit:
            return True
        for c in _calls_of(repo, f):
            n2 = c.func.attr if isinstance(c.func, ast.Attribute) else getattr(c.func, "id", None)
            if n2 in names:
                return True
            for g in call_targets(repo, f, c):
                if g not in seen:
                    work.append(g)
    return False


def rule_state_lineage(ctx: Ctx, clause: str, funcs: Iterable[Func], rule="DU.state-lineage", relevant: Callable[[Func, ast.Call], bool] = None,
                       tolerate_rollback: bool = False):
    """On every non-failing return path: each state-producing call that ran and whose success was established must lie
    on the lineage of the returned state. A result committed to an OLDER state silently discards what the newer one
    contained (the un-assignment done by an exit, a payment, a released plug)."""
    producers = state_producers(ctx.repo)
    n = 0
    for fn in funcs:
        try:
            ps = flow.paths(fn.node)
        except AnalysisError:
            continue
        reported = set()
        for p in ps:
            if p.kind != "return" or p.value is None:
                continue
            k = flow.classify_result(p.value)
            if k in ("error", "reject", "none"):
                continue
            lin = {ast.dump(c) for c in state_lineage(p.value, producers)}
            if not lin and not isinstance(p.value, (ast.Call, ast.Tuple, ast.Subscript)):
                continue
            if tolerate_rollback:
                # the function hands back exactly the state it was given: everything it did is undone together — a resource taken and a
                # resource given back in the dropped state cancel out (whether dropping the step is right is another property's question)
                slot = p.value.elts[1] if isinstance(p.value, ast.Tuple) and len(p.value.elts) == 2 else p.value
                if isinstance(slot, ast.Name) and slot.id in fn.params:
                    continue
            if not any((not e.deferred) and e.name in producers for e in p.events):
                continue
            facts = p.facts()
            for e in p.events:
                if e.deferred or e.name not in producers:
                    continue
                d = ast.dump(e.call)
                # success established: error slot tested falsy / value slot tested present / Result unwrapped
                err = ast.dump(ast.Subscript(value=e.call, slice=ast.Constant(value=0), ctx=ast.Load()))
                st = ast.dump(ast.Subscript(value=e.call, slice=ast.Constant(value=1), ctx=ast.Load()))
                ok_est = absent = False
                for a, pol in facts:
                    da = ast.dump(a.args[0]) if flow.is_syn(a, "$isnone") else ast.dump(a)
                    if flow.is_syn(a, "$isnone"):
                        if (da == err and pol is True) or (da == st and pol is False):
                            ok_est = True
                        if da == st and pol is True:
                            absent = True
                    elif (da == err and pol is False) or (da == st and pol is True):
                        ok_est = True
                    elif da == st and pol is False:
                        absent = True
                if not ok_est or absent:
                    continue  # the call refused (no state) on this path: there is nothing of it to carry
                if relevant is not None and d not in lin and not relevant(fn, e.call):
                    continue  # what this call can change is not this property's business
                n += 1
                key = (e.raw.lineno, p.lineno)
                if key in reported:
                    continue
                reported.add(key)
                ctx.check(d in lin, clause, rule, f"{fn.qualname}: the state produced by {e.name}() (line {e.raw.lineno}) is the one carried to the result at line {p.lineno}", fn, e.raw,
                          why_ok="on the lineage of the returned state",
                          why_bad=f"{e.name}(...) succeeded on this path but the returned state {flow.dump(p.value)[:140]} is not built on it: what {e.name} changed (a release, an un-assignment, a payment) is discarded",
                          construct=f"{fn.qualname}:dropped-state:{e.name}")
    return n


def step_path_funcs(repo: Repo) -> List[Func]:
    return [f for f in repo.all_funcs() if not f.relpath.startswith(STEP_PATH_EXCLUDE)]


def _bounded_previous(path: flow.Path, state_names: Set[str]) -> Optional[Set[str]]:
    """Activity classes the path condition pins the vehicle's PREVIOUS activity to (`isinstance(<...>.vehicle_state, K)` true)."""
    out: Set[str] = set()
    for a, pol in path.facts():
        if pol is True and isinstance(a, ast.Call) and flow.dump(a.func) == "isinstance" and len(a.args) == 2 and flow.dump(a.args[0]).endswith(".vehicle_state"):
            ks = a.args[1].elts if isinstance(a.args[1], ast.Tuple) else [a.args[1]]
            names = {flow.dump(k) for k in ks}
            if names <= state_names:
                out |= names
    return out or None


def rule_enter_installs(ctx: Ctx, clause: str, rule="TS.enter-installs", prev_holders: Optional[Set[str]] = None):
    """Every success path of every enter() installs the activity: its result derives from apply_new_vehicle_state(...)
    or from a delegated sibling enter. An enter that reports success with a state in which the vehicle's activity was
    not written makes a transition (and an instruction) look applied while the previous activity's exit has already
    released what it held."""
    n = 0
    for sc in states.state_classes(ctx.repo):
        for m in sc.success("enter"):
            n += 1
            v = m.path.value
            ok = enter_delegate(v) is not None or bool(flow.calls_in(v, "apply_new_vehicle_state")) if v is not None else False
            if not ok and v is not None:
                # installed by hand: modify_vehicle(<state>, <vehicle>.modify_vehicle_state(self | replace(self, ...)))
                for c in flow.calls_in(v, "modify_vehicle_state"):
                    a = flow.core(c.args[0]) if c.args else None
                    if a is not None and (flow.dump(a) == "self" or (isinstance(a, ast.Call) and (dotted(a.func) or "") in ("replace", "dataclasses.replace") and a.args and flow.dump(flow.core(a.args[0])) == "self")):
                        ok = True
            if not ok and prev_holders is not None:
                prev = _bounded_previous(m.path, {s.name for s in states.state_classes(ctx.repo)})
                if prev is not None and not (prev & prev_holders):
                    ctx.info(clause, rule, f"{sc.name}.enter: success at line {m.path.lineno} installs nothing, but only after one of {sorted(prev)}", sc.enter, m.path.end,
                             why="the previous activity on this path holds nothing this property tracks")
                    continue
            ctx.check(ok, clause, rule, f"{sc.name}.enter: success at line {m.path.lineno} installs the activity", sc.enter, m.path.end,
                      why_ok="result derives from apply_new_vehicle_state / a delegated enter",
                      why_bad=f"path [{m.path.cond_text()[:200]}] returns {flow.dump(v)[:80]} as a success although the vehicle's activity was not written: "
                              f"after the previous activity's exit the vehicle is in neither activity's books",
                      construct=f"{sc.name}.enter:success-without-install")
    # ... and the helper they all end in really writes the activity: every path of apply_new_vehicle_state that is not an error returns
    # modify_vehicle(sim, <the vehicle>.modify_vehicle_state(new_state)) -- a "success" that hands the state back unchanged lets enter()
    # report an activity the vehicle is not in, after enter() has already taken its plug / stall / assignment
    h = ctx.repo.func("nrel/hive/state/vehicle_state/vehicle_state.py", "VehicleStateABC.apply_new_vehicle_state")
    sim, vid, new = h.params[-3:]
    k = 0
    for p in flow.paths(h.node):
        if p.kind != "return" or flow.classify_result(p.value) == "error":
            continue
        k += 1
        ok = False
        v0 = flow.core(p.value) if p.value is not None else None
        if isinstance(v0, ast.Call) and (dotted(v0.func) or "").split(".")[-1] in ("modify_vehicle", "modify_vehicle_safe") and len(v0.args) >= 2 and flow.dump(v0.args[0]) == sim:
            ok = any(c.args and flow.dump(flow.core(c.args[0])) == new and vid in flow.dump(c.func) for c in flow.calls_in(v0.args[1], "modify_vehicle_state"))
        ctx.check(ok, clause, rule, "apply_new_vehicle_state writes the new activity onto the vehicle on every path that is not an error", h, p.end,
                  why_bad=f"path [{p.cond_text()[:160]}] returns {flow.dump(p.value)[:100]}: the enter() that called it reports success (and has already taken its plug, stall or request "
                          f"assignment) although the vehicle's activity was not written",
                  construct="apply_new_vehicle_state:success-without-install")
    ctx.require(k >= 1, "apply_new_vehicle_state: no installing path found")
    return n


# ------------------------------------------------------------------------------------------ swallowed regions
def _catches_all(h: ast.ExceptHandler) -> bool:
    if h.type is None:
        return True
    names = [dotted(t) for t in (h.type.elts if isinstance(h.type, ast.Tuple) else [h.type])]
    return any(n in ("Exception", "BaseException") for n in names)


def _swallows(h: ast.ExceptHandler) -> bool:
    """The handler neither returns, raises nor records the exception: control continues after the try as if nothing
    had happened."""
    for s in h.body:
        for n in ast.walk(s):
            if isinstance(n, (ast.Return, ast.Raise)):
                return False
    return all(isinstance(s, ast.Pass) or (isinstance(s, ast.Expr) and isinstance(s.value, (ast.Call, ast.Constant))) for s in h.body)


def _expr_nodes(fn_node):
    """Nodes of a function body without annotations and without nested function/class bodies."""
    stack = list(fn_node.body)
    while stack:
        n = stack.pop()
        yield n
        for name, val in ast.iter_fields(n):
            if name in ("annotation", "returns", "type_comment"):
                continue
            vals = val if isinstance(val, list) else [val]
            for v in vals:
                if isinstance(v, (ast.FunctionDef, ast.AsyncFunctionDef, ast.ClassDef, ast.Lambda)):
                    continue
                if isinstance(v, ast.AST):
                    stack.append(v)


def _guarded(node: ast.AST, denom: ast.AST) -> bool:
    """Some enclosing if / conditional expression / preceding early exit tests a name the denominator is made of."""
    names = {n.id for n in ast.walk(denom) if isinstance(n, ast.Name)} | {flow.dump(denom)}
    if not names:
        return False
    cur = node
    while cur is not None and not isinstance(cur, (ast.FunctionDef, ast.AsyncFunctionDef)):
        par = parent(cur)
        if isinstance(par, (ast.If, ast.IfExp, ast.While)) and cur is not par.test:
            if {n.id for n in ast.walk(par.test) if isinstance(n, ast.Name)} & names:
                return True
        cur = par
    # early exits before the node in the same function: `if d == 0: return ...`
    fn = cur
    if fn is not None:
        for s in ast.walk(fn):
            if isinstance(s, ast.If) and s.lineno < node.lineno and any(isinstance(b, (ast.Return, ast.Raise, ast.Continue)) for b in s.body):
                if {n.id for n in ast.walk(s.test) if isinstance(n, ast.Name)} & names:
                    return True
    return False


def partial_operations(fn: Func):
    """Operations in `fn` that raise on part of their well-typed domain: division / modulo by a value that is not a
    non-zero literal and is not tested beforehand, key or index lookups, explicit raise / assert, one-argument next()."""
    out = []
    for n in _expr_nodes(fn.node):
        if isinstance(n, ast.BinOp) and isinstance(n.op, (ast.Div, ast.FloorDiv, ast.Mod)):
            if isinstance(n.op, ast.Mod) and isinstance(n.left, (ast.Constant, ast.JoinedStr)) and not isinstance(getattr(n.left, "value", None), (int, float)):
                continue  # string formatting
            r = n.right
            if isinstance(r, ast.Constant) and isinstance(r.value, (int, float)) and r.value != 0:
                continue
            if _guarded(n, r):
                continue
            out.append((n, f"division by `{flow.dump(r)[:60]}`, which may be zero (ZeroDivisionError)"))
        elif isinstance(n, ast.Subscript) and isinstance(n.ctx, ast.Load) and not isinstance(n.slice, ast.Slice):
            out.append((n, f"lookup `{flow.dump(n)[:60]}` (KeyError / IndexError when absent)"))
        elif isinstance(n, ast.Raise):
            out.append((n, "explicit raise"))
        elif isinstance(n, ast.Assert):
            out.append((n, "assert"))
        elif isinstance(n, ast.Call) and dotted(n.func) == "next" and len(n.args) == 1:
            out.append((n, "next() without a default (StopIteration)"))
    return out


def rule_swallowed_regions(ctx: Ctx, clause: str, rule="EV.swallowed", min_regions=0, depth=2):
    """Where the step path wraps work in a catch-everything handler that carries on silently, whatever the work was
    meant to record is lost without a trace when it raises. The repository has one such region (the pickup report in
    pick_up_trip); the functions it calls must contain no operation that raises on part of its well-typed domain."""
    repo = ctx.repo
    n_regions = n_funcs = 0
    for fn in step_path_funcs(repo):
        for t in ast.walk(fn.node):
            if not isinstance(t, ast.Try) or enclosing_func(t) is not fn:
                continue
            if not any(_catches_all(h) and _swallows(h) for h in t.handlers):
                continue
            n_regions += 1
            work = []
            for s in t.body:
                for c in ast.walk(s):
                    if isinstance(c, ast.Call):
                        f = repo.resolve_call(fn.module, c)
                        if f is not None:
                            work.append((f, 1, c))
                # partial operations written directly in the try body
            seen = set()
            not_followed = set()
            while work:
                f, d, via = work.pop()
                if (f.relpath, f.qualname) in seen:
                    continue
                seen.add((f.relpath, f.qualname))
                n_funcs += 1
                bad = partial_operations(f)
                inst = f"{fn.qualname}: swallowed region at line {t.lineno} calls {f.qualname}"
                if bad:
                    for node, what in bad:
                        ctx.violation(clause, rule, inst, f, node,
                                      why=f"{what}; the exception is swallowed by the catch-all handler at {fn.relpath}:{t.lineno}, so what the region was to record is silently lost",
                                      construct=f"{fn.qualname}:swallowed:{f.qualname}:{type(node).__name__}:{flow.dump(node)[:60]}")
                else:
                    ctx.ok(clause, rule, inst, f, f.node, why="no division by an untested value, no key/index lookup, no raise/assert/next() in the callee")
                if d < depth:
                    for c in _expr_nodes(f.node):
                        if isinstance(c, ast.Call):
                            g = repo.resolve_call(f.module, c)
                            if g is not None:
                                work.append((g, d + 1, c))
                            elif isinstance(c.func, ast.Attribute):
                                not_followed.add(c.func.attr)
            ctx.info(clause, rule, f"{fn.qualname}: method calls not followed inside the swallowed region", fn, t, why=", ".join(sorted(not_followed)))
    if n_regions < min_regions:
        ctx.soft_fail(f"{rule}: expected at least {min_regions} swallowed region(s) in the step path, found {n_regions}")
    return n_regions, n_funcs


# ------------------------------------------------------------------------------------------ activity writes
def rule_activity_writes(ctx: Ctx, clause: str, rule="TS.activity-write", min_sites: int = 5):
    """A vehicle's activity object changes CLASS only inside `apply_new_vehicle_state`, which only an activity's own
    `enter` may call, with the entering activity itself. Every other `modify_vehicle_state(X)` stores an update of the
    activity the vehicle already has: `replace(S, ...)`, `S._replace(...)` or `S.<method>(...)` with S the current activity
    (`self` inside an activity method, `<vehicle>.vehicle_state`, or a parameter typed as an activity). An activity written
    any other way skips the guards of `enter` and the releases of `exit`: the books (plugs, stalls, queue slots, request
    records), the location and membership guarantees all rest on this."""
    repo = ctx.repo
    idx = index(repo)
    t = _reach_tables(repo)
    state_names = t["state_names"]
    sites = [s for s in idx.calls("modify_vehicle_state", refs=True) if in_pkg(s) and not s.file.startswith("nrel/hive/resources")]
    n = 0
    for s in sites:
        fn = s.func
        if fn is None or s.kind == "ref":
            ctx.violation(clause, rule, "modify_vehicle_state referenced outside a call in a function", file=s.file, line=s.line, function=s.qual,
                          why="an activity write that cannot be accounted for", construct=f"activity-write-ref:{s.qual}")
            continue
        n += 1
        inst = f"{fn.qualname}: modify_vehicle_state(...)"
        if fn.qualname.endswith("apply_new_vehicle_state"):
            ctx.ok(clause, rule, inst, fn, s.node, "the install point (its callers are checked)")
            continue
        top_ = fn
        while top_.outer is not None:
            top_ = top_.outer
        if top_.cls is not None and top_.cls.name in state_names and top_.name == "enter" and isinstance(s.node, ast.Call) and s.node.args:
            a0 = None
            for p in flow.paths(fn.node):
                for ev in p.events:
                    if ev.raw is s.node and ev.call.args:
                        a0 = flow.core(ev.call.args[0])
            if a0 is not None and (flow.dump(a0) == "self" or (isinstance(a0, ast.Call) and (dotted(a0.func) or "") in ("replace", "dataclasses.replace") and a0.args and flow.dump(flow.core(a0.args[0])) == "self")):
                ctx.ok(clause, rule, inst, fn, s.node, f"{top_.cls.name}.enter installs itself by hand (same contract as apply_new_vehicle_state)")
                continue
        # expanded argument on the paths that execute the call
        verdicts = []
        for p in flow.paths(fn.node):
            for ev in p.events:
                if ev.raw is s.node and ev.call.args:
                    verdicts.append(_same_activity_update(fn, ev.call.args[0], state_names))
        if not verdicts:
            kw = [k.value for k in s.node.keywords if k.arg == "vehicle_state"]
            arg = s.node.args[0] if s.node.args else (kw[0] if kw else None)
            verdicts.append(_same_activity_update(fn, arg, state_names) if arg is not None else (False, "no argument"))
        bad = [w for ok, w in verdicts if not ok]
        if bad:
            ctx.violation(clause, rule, inst, fn, s.node,
                          why=f"stores {bad[0]}: not an update of the activity the vehicle already has — an activity installed outside enter() skips enter's guards and the previous activity's exit",
                          construct=f"{fn.qualname}:activity-write:{bad[0][:100]}")
        else:
            ctx.ok(clause, rule, inst, fn, s.node, f"stores {verdicts[0][1][:100]}")
    if n < min_sites:
        ctx.soft_fail(f"{rule}: expected at least {min_sites} modify_vehicle_state sites, found {n}")

    def ok_apply(s: Site):
        f = s.func
        top = f
        while top is not None and top.outer is not None:
            top = top.outer
        if top is None or top.cls is None or top.name != "enter" or top.cls.name not in state_names:
            return None
        call = s.node
        exp = []
        for p in flow.paths(f.node):
            for ev in p.events:
                if ev.raw is call and len(ev.call.args) >= 3:
                    exp.append(flow.core(ev.call.args[2]))
        if not exp and isinstance(call, ast.Call) and len(call.args) >= 3:
            exp = [call.args[2]]
        if not exp:
            return None
        for a in exp:
            is_self = isinstance(a, ast.Name) and a.id == "self"
            upd = isinstance(a, ast.Call) and ((dotted(a.func) in ("replace", "dataclasses.replace") and a.args and flow.dump(flow.core(a.args[0])) == "self")
                                               or (isinstance(a.func, ast.Attribute) and a.func.attr == "_replace" and flow.dump(a.func.value) == "self"))
            if not (is_self or upd):
                return None
        return f"{top.cls.name}.enter installs itself"

    rule_callers(ctx, clause, "apply_new_vehicle_state", ok_apply, "apply_new_vehicle_state is called only by an activity's own enter(), with that activity", 10)

    def ok_kw(s: Site):
        f = s.func
        if f is None:
            return None
        if f.relpath.endswith("model/vehicle/vehicle.py") and f.qualname == "Vehicle.modify_vehicle_state":
            return "the setter itself"
        v = None
        for k in getattr(s.node, "keywords", []):
            if k.arg == "vehicle_state":
                v = k.value
        d = flow.dump(v) if v is not None else ""
        # a newly built vehicle starts in an activity that holds nothing
        if d.startswith(("Idle.build(", "Idle(")):
            return "a newly built vehicle starts Idle (holds nothing)"
        if isinstance(v, ast.Name):
            for nn in ast.walk(f.node if f.outer is None else f.outer.node):
                if isinstance(nn, ast.Assign) and any(isinstance(tg, ast.Name) and tg.id == v.id for tg in nn.targets) and flow.dump(nn.value).startswith(("Idle.build(", "Idle(")):
                    return "a newly built vehicle starts Idle (holds nothing)"
        return None

    rule_field_writers(ctx, clause, "vehicle_state", ok_kw, "Vehicle.vehicle_state is written only by modify_vehicle_state and by constructors that start the vehicle Idle", 2,
                       owner_hint=lambda s: isinstance(s.node, ast.Call) and (dotted(s.node.func) or "").split(".")[-1] in ("Vehicle", "replace", "_replace"))
    return n


def _same_activity_update(fn: Func, arg: ast.AST, state_names: Set[str]):
    """(ok, description): is `arg` an update of the vehicle's current activity?"""
    a = flow.core(arg) if arg is not None else None
    d = flow.dump(a)[:120] if a is not None else "?"

    def current_activity(e: ast.AST) -> bool:
        e = flow.core(e)
        if isinstance(e, ast.Name):
            if e.id == "self":
                top = fn
                while top.outer is not None:
                    top = top.outer
                return top.cls is not None and top.cls.name in state_names
            # a parameter typed as an activity (or named like one)
            for x in fn.node.args.posonlyargs + fn.node.args.args + fn.node.args.kwonlyargs:
                if x.arg == e.id:
                    ann = flow.dump(x.annotation) if x.annotation is not None else ""
                    return any(k in ann for k in state_names) or "VehicleState" in ann or x.arg in ("vehicle_state", "state")
            return False
        if isinstance(e, ast.Attribute) and e.attr == "vehicle_state":
            return True
        if isinstance(e, ast.Call):
            # an update of an update: replace(replace(S, ...), ...), S.update_route(...).m(...)
            return same(e)
        return False

    def same(e: ast.AST) -> bool:
        e = flow.core(e)
        if not isinstance(e, ast.Call):
            return False
        nm = dotted(e.func) or ""
        if nm.split(".")[0] in state_names:
            return False  # K.build(...) / K(...): a NEW activity
        if nm in ("replace", "dataclasses.replace") and e.args:
            return current_activity(e.args[0])
        if isinstance(e.func, ast.Attribute):
            if e.func.attr in ("build",):
                return False
            return current_activity(e.func.value)
        return False

    if a is None:
        return False, "nothing"
    if same(a):
        return True, f"an update of the current activity: {d}"
    if isinstance(a, ast.Attribute) and a.attr == "vehicle_state":
        # the activity a vehicle record already carries (in this state or one derived from it): it got there through enter();
        # whether the rest of that state is kept is the lineage rule's business
        return True, f"an activity read from a vehicle record: {d}"
    return False, d


# ------------------------------------------------------------------------------------------ fold recognition
def recognise_folds(fn: Func):
    """The folds a function performs, in either spelling: `reduce(F, XS, INIT)` anywhere in a returned value, or a loop
    `acc = INIT; for x in XS: acc = F(acc, x)` whose accumulator reaches the result (seen as: the path that enters the loop
    returns F(A, $elem(XS)) where the path that skips it returns A). -> list of (F, XS, INIT) as expanded expressions."""
    out = []
    seen = set()
    ps = [p for p in flow.paths(fn.node) if p.kind == "return" and p.value is not None]
    for p in ps:
        for c in flow.calls_in(p.value, "reduce"):
            if len(c.args) >= 3:
                k = ast.dump(c)
                if k not in seen:
                    seen.add(k)
                    out.append((c.args[0], c.args[1], c.args[2]))
    skip_vals = {}
    for p in ps:
        for sub in ast.walk(p.value):
            skip_vals.setdefault(ast.dump(sub), sub)
    for p in ps:
        for c in ast.walk(p.value):
            if isinstance(c, ast.Call) and isinstance(c.func, ast.Name) and len(c.args) == 2 and flow.is_syn(c.args[1], "$elem") and not c.keywords:
                acc0 = c.args[0]
                # the same function must also have a path on which the accumulator is returned un-folded (loop skipped)
                if ast.dump(acc0) in skip_vals and any(cd.pol == "iter" for cd in p.conds):
                    k = ("loop", ast.dump(c))
                    if k not in seen:
                        seen.add(k)
                        out.append((c.func, c.args[1].args[0], acc0))
    return out


def reducer_expr(repo: Repo, fn: Func, F: ast.AST) -> ast.AST:
    """What one step of a fold computes, as an expression over the canonical names `ACC` (accumulator) and `X` (element),
    whichever way the reducer is spelled: a two-parameter lambda, the name of a (nested / module-level) function whose body
    is an expression (assignments + return / if-else of returns), `ft.partial(G, k=v)`, or an opaque callable (then
    `F(ACC, X)`)."""
    from . import inline as _inl

    ACC, X = ast.Name(id="ACC", ctx=ast.Load()), ast.Name(id="X", ctx=ast.Load())
    F = flow.core(F)
    if isinstance(F, ast.Lambda):
        ps = [a.arg for a in F.args.posonlyargs + F.args.args]
        if len(ps) == 2:
            return _inl._sub(F.body, {ps[0]: ACC, ps[1]: X})
    if isinstance(F, ast.Call) and (dotted(F.func) or "").endswith("partial") and F.args:
        inner = reducer_expr(repo, fn, F.args[0])
        if isinstance(inner, ast.Call) and not isinstance(F.args[0], ast.Lambda):
            return ast.Call(func=inner.func, args=inner.args + list(F.args[1:]), keywords=list(inner.keywords) + list(F.keywords))
    if isinstance(F, ast.Name):
        cand = None
        f = fn
        while f is not None and cand is None:
            cand = fn.module.funcs.get(f"{f.qualname}.{F.id}")
            f = f.outer
        cand = cand or (fn.module.funcs.get(F.id) if fn.module.funcs.get(F.id) is not None and fn.module.funcs[F.id].cls is None else None)
        if cand is not None and len(cand.params) == 2:
            e = _inl._tail_expr(list(cand.node.body), {cand.params[0]: ACC, cand.params[1]: X})
            if e is not None and _inl._size(e) <= 200 and len(list(cand.node.body)) <= 3:
                return e
    return ast.Call(func=F, args=[ACC, X], keywords=[])


# ------------------------------------------------------------------------------------------ effective acquisition
def rule_acquire_effective(ctx: Ctx, clause: str, rule="TS.acquire-effective"):
    """`Station.checkout_charger(c)` / `enqueue_for_charger(c)` go through station_state_update, which hands back the station
    UNCHANGED (no error) when the station has no plug type `c`. An `enter` that takes a plug or a queue slot therefore holds
    one only if it has established that the type exists at THAT station (get_charger_instance succeeded, or
    has_available_charger / get_available_chargers > 0) on the path that acquires. Checking the environment-wide charger table
    instead lets a 'wrong plug' instruction succeed: the previous activity's resources are released, nothing is taken."""
    n = 0
    for sc in states.state_classes(ctx.repo):
        ren = sc.rename(sc.enter)
        for m in sc.success("enter"):
            for u in m.uses:
                if u.kind not in ("plug", "queue") or u.direction != "A":
                    continue
                n += 1
                tgt, arg = u.target, u.args
                inst = f"{tgt}.get_charger_instance({arg})"
                ok = False
                for a, pol in m.path.facts():
                    d = states.ndump(a, ren)
                    if flow.is_syn(a, "$isnone"):
                        inner = states.ndump(a.args[0], ren)
                        if (inner == f"{inst}[0]" and pol is True) or (inner == f"{inst}[1]" and pol is False):
                            ok = True
                    elif (d == f"{inst}[0]" and pol is False) or (d == f"{inst}[1]" and pol is True):
                        ok = True
                    elif d == f"{tgt}.has_available_charger({arg})" and pol is True:
                        ok = True
                if not ok:
                    facts_n = [(states.norm(a, ren), pol) for a, pol in m.path.facts()]
                    from . import gd as _gd
                    ok = 0 not in _gd.allowed_values(facts_n, f"{tgt}.get_available_chargers({arg})")
                ctx.check(ok, clause, rule, f"{sc.name}.enter line {m.path.lineno}: the {u.kind} of type {arg} is taken only after establishing that {tgt} has that type", sc.enter, u.event.raw,
                          why_ok="get_charger_instance / availability of that type at that station tested on the path",
                          why_bad=f"path [{m.path.cond_text()[-220:]}] calls {u.event.name}({arg}) without having established that the station has a `{arg}` plug: for an unknown type the "
                                  f"station comes back unchanged, enter succeeds holding nothing",
                          construct=f"{sc.name}.enter:{u.kind}-type-unchecked")
    if n < 3:
        ctx.soft_fail(f"{rule}: only {n} plug/queue acquisitions found")
    return n


# ------------------------------------------------------------------------------------------ callables passed as values
def resolve_callable(repo: Repo, fn: Func, expr: ast.AST) -> Optional[Func]:
    """The function a callable VALUE denotes: a lambda (a synthetic Func around it), the name of a nested / module-level
    function, `self.m`. Used where a rule needs 'the function handed to X as its filter / key / reducer' rather than a
    function of a particular name."""
    e = flow.core(expr)
    if isinstance(e, ast.Lambda):
        return Func(fn.module, f"{fn.qualname}.<lambda@{getattr(e, 'lineno', 0)}>", e, None, fn)
    if isinstance(e, ast.Name):
        f = fn
        while f is not None:
            c = fn.module.funcs.get(f"{f.qualname}.{e.id}")
            if c is not None:
                return c
            f = f.outer
        c = fn.module.funcs.get(e.id)
        if c is not None and c.cls is None:
            return c
        tgt = fn.module.imports.get(e.id)
        if tgt:
            modname, _, name = tgt.rpartition(".")
            tm = repo.by_modname.get(modname)
            if tm is not None and name in tm.funcs:
                return tm.funcs[name]
    if isinstance(e, ast.Attribute) and isinstance(e.value, ast.Name) and e.value.id in ("self", "cls"):
        top = fn
        while top.outer is not None:
            top = top.outer
        if top.cls is not None:
            return repo.method(top.cls, e.attr)
    return None


def callable_argument(repo: Repo, fn: Func, callee: str, kw: str, pos: Optional[int] = None) -> Optional[Func]:
    """The function passed as keyword `kw` (or positional `pos`) to the first call of `callee` inside `fn`."""
    for c in ast.walk(fn.node):
        if isinstance(c, ast.Call):
            nm = c.func.attr if isinstance(c.func, ast.Attribute) else getattr(c.func, "id", None)
            if nm != callee:
                continue
            v = None
            for k in c.keywords:
                if k.arg == kw:
                    v = k.value
            if v is None and pos is not None and len(c.args) > pos:
                v = c.args[pos]
            if v is not None:
                r = resolve_callable(repo, fn, v)
                if r is not None:
                    return r
    return None


# ------------------------------------------------------------------------------------------ tallies start at zero
def _is_zero_tally(e: Optional[ast.AST]) -> bool:
    """`m.initial_energy(0)` / `initial_energy(0.0)`, a Map / dict comprehension whose values are the constant 0, `Map()`, 0 / 0.0"""
    if e is None:
        return False
    e = flow.core(e)
    if isinstance(e, ast.Constant):
        return e.value in (0, 0.0) and not isinstance(e.value, bool)
    if isinstance(e, ast.Call):
        nm = e.func.attr if isinstance(e.func, ast.Attribute) else getattr(e.func, "id", "")
        if nm == "initial_energy":
            a = e.args[0] if e.args else next((k.value for k in e.keywords if k.arg in ("percent_full", "soc")), None)
            return isinstance(a, ast.Constant) and a.value in (0, 0.0)
        if nm in ("Map", "dict") or flow.dump(e.func).endswith("immutables.Map"):
            if not e.args and not e.keywords:
                return True
            if len(e.args) == 1:
                return _is_zero_tally(e.args[0])
        return False
    if isinstance(e, ast.DictComp):
        return isinstance(e.value, ast.Constant) and e.value.value in (0, 0.0)
    if isinstance(e, ast.Dict):
        return all(isinstance(v, ast.Constant) and v.value in (0, 0.0) for v in e.values)
    return False


def _outer_binding(g: Func, v: Optional[ast.AST]) -> Optional[ast.AST]:
    """a bare name that is a variable of an enclosing function with exactly one binding there: that binding's value"""
    seen = 0
    while isinstance(v, ast.Name) and seen < 4:
        seen += 1
        f = g.outer
        found = None
        while f is not None and found is None:
            binds = [n for n in ast.walk(f.node) if isinstance(n, ast.Assign) and len(n.targets) == 1 and isinstance(n.targets[0], ast.Name)
                     and n.targets[0].id == v.id and enclosing_func(n) is f]
            if len(binds) == 1:
                found = binds[0].value
            f = f.outer
        if found is None:
            break
        v = found
    return v


def rule_initial_tallies(ctx: Ctx, clause: str, fields_by_class: Dict[str, List[str]], rule="DU.initial-tally", min_sites: int = 2):
    """Base case of every running balance: wherever an entity is constructed, its tallies (energy gained / expended / dispensed,
    money balance) start at zero — otherwise the totals are off by the initial value from step 0 on although every later step adds
    matching amounts on both sides. One obligation per (construction site, tally field); a field left to its class default is
    checked against the default."""
    repo = ctx.repo
    n = 0
    for cname, fields in fields_by_class.items():
        decl = None
        for m in repo.modules.values():
            if m.relpath.startswith(PKG) and cname in m.classes:
                decl = m.classes[cname]
        defaults = {}
        if decl is not None:
            for s in decl.node.body:
                if isinstance(s, ast.AnnAssign) and isinstance(s.target, ast.Name) and s.value is not None:
                    defaults[s.target.id] = s.value
        for fn in repo.all_funcs():
            if fn.relpath.startswith(PKG + "/resources") or fn.outer is not None:
                continue
            if not any(isinstance(c.func, ast.Name) and c.func.id in (cname, "cls") for c in flow.calls_in(fn.node)):
                continue
            if not any(isinstance(c.func, ast.Name) and (c.func.id == cname or (c.func.id == "cls" and fn.cls is not None and fn.cls.name == cname)) and c.keywords for c in flow.calls_in(fn.node)):
                continue
            fams = [fn] + [g for g in fn.module.funcs.values() if g.qualname.startswith(fn.qualname + ".")]
            for g in fams:
                try:
                    ps = flow.paths(g.node)
                except AnalysisError:
                    continue
                for p in ps:
                    for ev in p.events:
                        c = ev.call
                        if not (isinstance(c.func, ast.Name) and (c.func.id == cname or (c.func.id == "cls" and g.cls is not None and g.cls.name == cname)) and c.keywords):
                            continue
                        kw = {k.arg: k.value for k in c.keywords if k.arg}
                        for f in fields:
                            v = kw.get(f, defaults.get(f))
                            if f not in kw and f not in defaults:
                                continue
                            n += 1
                            v = _outer_binding(g, v)
                            ctx.check(_is_zero_tally(v), clause, rule, f"{cname}(...) in {g.qualname}: {f} starts at zero", g, ev.raw,
                                      why_bad=f"{f} = {flow.dump(v)[:100] if v is not None else '?'}: the tally of a new {cname.lower()} does not start at zero, so every total that includes it "
                                              f"is off by that amount from the first step on (the per-step amounts still match on both sides)",
                                      construct=f"initial-tally:{cname}:{g.qualname}:{f}")
    if n < min_sites:
        ctx.soft_fail(f"{rule}: only {n} (construction site, tally) pairs found")
    return n


# ------------------------------------------------------------------------------------------ who may put an entity into the simulation
def rule_entity_entry(ctx: Ctx, clause: str, why_text: str):
    """Entities enter a simulation state only at initialisation and, for requests, through the two request-update functions. Anything else
    that adds an entity in mid-run (a request put back by a vehicle, a copy re-inserted) re-creates something that already had its one
    entry — with whatever the copy still records (an assignment, a fare already paid)."""
    SSOPS_ = "nrel/hive/state/simulation_state/simulation_state_ops.py"

    def ok(s: Site):
        f = s.func
        if f is None:
            return None
        if f.relpath.startswith((PKG + "/initialization/", PKG + "/resources/", PKG + "/runner/", PKG + "/app/")):
            return "initialisation"
        if f.relpath == SSOPS_:
            return "the state operations' own wrappers"
        if f.relpath.endswith(("update_requests_from_file.py", "update_requests_sampling.py")):
            return "request update function"
        return None
    n = 0
    for name in ("add_request_safe", "add_request", "add_entities_safe", "add_entities", "add_entity_safe", "add_entity"):
        n += rule_callers(ctx, clause, name, ok, why_text, 0, refs=True)
    if n < 6:
        ctx.soft_fail(f"entity-entry census saw only {n} call sites")
    return n


def rule_once_each(ctx: Ctx, clause: str, fam: List[Func], sources: Set[str], what: str, rule="DU.once-each", min_sites: int = 1,
                   source_expr: Optional[Callable[[ast.AST], bool]] = None, exactly: bool = False):
    """Every loop / fold of `fam` over a sequence derived from one of `sources` (parameters, or local lists built by append in an
    earlier loop; or any expression accepted by `source_expr`) meets each element AT MOST once (EXACTLY once with `exactly`): the
    iterable is the sequence itself, an order-only view of it (sorted, reversed, list, tuple), or a concatenation of filters whose
    truth table never keeps one element twice (multi.how_often)."""
    from . import multi
    from .inline import baseline
    from .loader import walk_stmts, walk_exprs
    n = 0
    fam = list(fam)
    base = baseline()
    helper_args = []
    if base and source_expr is None:
        # lines moved into functions the pinned tree does not have: the helpers a family member calls are part of the family, every
        # parameter of theirs is a sequence to be met once, and what the caller hands them is judged like a loop iterable
        work = list(fam)
        while work:
            g = work.pop()
            m = ctx.repo.module(g.relpath)
            for c in ast.walk(g.node):
                if isinstance(c, ast.Call) and isinstance(c.func, ast.Name):
                    h = m.funcs.get(c.func.id)
                    if h is not None and (h.relpath, h.qualname) not in base and h.outer is None:
                        helper_args.append((g, c))
                        if h not in fam:
                            fam.append(h)
                            work.append(h)
    new_helpers = {h for h in fam if base and (h.relpath, h.qualname) not in base and h.outer is None}
    for f in fam:
        top = f
        while top.outer is not None:
            top = top.outer
        local_lists = {c.func.value.id for c in ast.walk(top.node) if isinstance(c, ast.Call) and isinstance(c.func, ast.Attribute)
                       and c.func.attr == "append" and isinstance(c.func.value, ast.Name)} if source_expr is None else set()
        srcs = set(sources) | local_lists | (set(f.params) if f in new_helpers else set())
        for _ in range(4):  # plain aliases (the inliner binds a helper's parameters this way)
            for a in ast.walk(top.node):
                if isinstance(a, ast.Assign) and len(a.targets) == 1 and isinstance(a.targets[0], ast.Name) and isinstance(a.value, ast.Name) and a.value.id in srcs:
                    srcs.add(a.targets[0].id)
        sites = []
        for s in walk_stmts(f.node):
            if isinstance(s, ast.For):
                sites.append((s, s.iter))
        for g, c in helper_args:
            if g is f:
                for a in list(c.args) + [k.value for k in c.keywords]:
                    if not isinstance(a, (ast.Name, ast.Attribute, ast.Constant)):
                        sites.append((c, a))
        for e in walk_exprs(f.node):
            if isinstance(e, ast.Call) and dotted(e.func) in ("reduce", "ft.reduce", "functools.reduce") and len(e.args) >= 2:
                sites.append((e, e.args[1]))
        for node, it in sites:
            if source_expr is not None:
                # follow local names to see whether the iterable derives from the source expression at all
                seen, work, hit = set(), [it], False
                while work and not hit:
                    x = work.pop()
                    for y in ast.walk(x):
                        if source_expr(y):
                            hit = True
                            break
                        if isinstance(y, ast.Name) and y.id not in seen:
                            seen.add(y.id)
                            for a in ast.walk(f.node):
                                if isinstance(a, ast.Assign) and any(y.id in flow.target_names(t) for t in a.targets):
                                    work.append(a.value)
                if not hit:
                    continue
                src, label = source_expr, "the source"
            else:
                used = {x.id for x in ast.walk(it) if isinstance(x, ast.Name)} & srcs
                if not used:
                    continue
                if isinstance(it, ast.Name):
                    n += 1
                    ctx.check(True, clause, rule, f"{f.qualname}: iterates `{it.id}` itself", f, node, construct=f"{f.qualname}:once-each:{it.id}")
                    continue
                if len(used) != 1:
                    ctx.soft_fail(f"{f.qualname}: the iterable `{ast.unparse(it)[:80]}` mixes {sorted(used)}")
                    continue
                src = label = next(iter(used))
            kind, info = multi.how_often(ctx.repo, f, it, src, fn_node=f.node)
            if kind == "unknown":
                ctx.soft_fail(f"{f.qualname}: cannot decide how often `{ast.unparse(it)[:80]}` meets each element of `{label}` ({info})")
                continue
            n += 1
            rows = info if kind == "table" else []
            bad = [r for r in rows if r[1] >= 2 or exactly]
            ctx.check(not bad, clause, rule, f"{f.qualname}: `{ast.unparse(it)[:80]}` meets each element of `{label}` {'exactly' if exactly else 'at most'} once ({what})", f, node,
                      why_bad=(f"an element with [{bad[0][0]}] is met {bad[0][1]} times: {what}" if bad else ""),
                      construct=f"{f.qualname}:once-each:{label}")
    ctx.require(n >= min_sites, f"once-each: only {n} loops over {sorted(sources) or 'the source'} found")
    return n
