"""CMP — finite-ordering semantics of comparison predicates.

A predicate (or an if-chain) that touches its operands only through comparisons behaves the same
on all inputs with the same ordering of the operands. The rule binds the operands ("terms") by
provenance, assigns them every combination of values from a small integer grid (which realises every
weak ordering, including the ±1 neighbours that distinguish < from <=), interprets the *syntax tree*
of the predicate under that assignment with the tiny evaluator below, and compares the result with
the table the property states. No repository code is executed.

Atoms that are not comparisons of bound terms are free booleans and are enumerated both ways; a
numeric sub-expression that is neither a bound term nor a literal makes the table ambiguous, which
is an AnalysisError (never a verdict).
"""
from __future__ import annotations

import ast
import itertools
from typing import Callable, Dict, Iterable, List, Optional, Sequence, Tuple

from . import AnalysisError, flow


class Unknown(Exception):
    def __init__(self, node):
        self.node = node


class Evaluator:
    def __init__(self, terms: Dict[str, object], free: Dict[str, bool]):
        self.terms = terms  # dump -> value
        self.free = free  # dump -> bool (filled lazily with requested atoms)
        self.requested: List[str] = []

    def num(self, e):
        d = flow.dump(e)
        if d in self.terms:
            return self.terms[d]
        if isinstance(e, ast.Constant) and isinstance(e.value, (int, float)) and not isinstance(e.value, bool):
            return e.value
        if isinstance(e, ast.BinOp) and isinstance(e.op, (ast.Add, ast.Sub)):
            l, r = self.num(e.left), self.num(e.right)
            return l + r if isinstance(e.op, ast.Add) else l - r
        if isinstance(e, ast.UnaryOp) and isinstance(e.op, ast.USub):
            return -self.num(e.operand)
        if isinstance(e, ast.Call) and isinstance(e.func, ast.Name) and e.func.id == "float" and len(e.args) == 1 and isinstance(e.args[0], ast.Constant) \
                and isinstance(e.args[0].value, str) and e.args[0].value.strip().lower() in ("inf", "+inf", "-inf", "infinity", "-infinity"):
            return float(e.args[0].value)
        if isinstance(e, ast.Call) and isinstance(e.func, ast.Name) and e.func.id in ("int", "float") and len(e.args) == 1:
            return self.num(e.args[0])
        if isinstance(e, ast.Call) and isinstance(e.func, ast.Name) and e.func.id in ("max", "min") and len(e.args) >= 2 and not e.keywords:
            vals = [self.num(a) for a in e.args]
            return max(vals) if e.func.id == "max" else min(vals)
        if isinstance(e, ast.IfExp):
            return self.num(e.body) if self.truth(e.test) else self.num(e.orelse)
        raise Unknown(e)

    def truth(self, e) -> bool:
        if isinstance(e, ast.Constant):
            return bool(e.value)
        if isinstance(e, ast.Call) and isinstance(e.func, ast.Name) and e.func.id == "bool" and len(e.args) == 1 and not e.keywords:
            return self.truth(e.args[0])
        if isinstance(e, ast.UnaryOp) and isinstance(e.op, ast.Not):
            return not self.truth(e.operand)
        if isinstance(e, ast.BoolOp):
            vals = [self.truth(v) for v in e.values]
            return all(vals) if isinstance(e.op, ast.And) else any(vals)
        if isinstance(e, ast.IfExp):
            return self.truth(e.body) if self.truth(e.test) else self.truth(e.orelse)
        if isinstance(e, ast.Compare) and len(e.ops) == 1 and isinstance(e.ops[0], (ast.Eq, ast.NotEq)):
            l, r = e.left, e.comparators[0]
            # distribute a conditional operand: (a if c else b) == r  ==  (a == r) if c else (b == r)
            for side, other, left_side in ((l, r, True), (r, l, False)):
                if isinstance(side, ast.IfExp):
                    mk = lambda x: ast.Compare(left=x if left_side else other, ops=e.ops, comparators=[other if left_side else x])
                    return self.truth(mk(side.body)) if self.truth(side.test) else self.truth(mk(side.orelse))
            if flow.dump(l) == flow.dump(r) and flow.dump(l) not in self.terms:
                return isinstance(e.ops[0], ast.Eq)
        if isinstance(e, ast.Compare):
            try:
                left = self.num(e.left)
                res = True
                for op, c in zip(e.ops, e.comparators):
                    right = self.num(c)
                    if isinstance(op, ast.Lt):
                        ok = left < right
                    elif isinstance(op, ast.LtE):
                        ok = left <= right
                    elif isinstance(op, ast.Gt):
                        ok = left > right
                    elif isinstance(op, ast.GtE):
                        ok = left >= right
                    elif isinstance(op, ast.Eq):
                        ok = left == right
                    elif isinstance(op, ast.NotEq):
                        ok = left != right
                    else:
                        raise Unknown(e)
                    res = res and ok
                    left = right
                return res
            except Unknown:
                pass
        d = flow.dump(e)
        if d in self.terms:  # a term used for its truthiness (count != 0)
            return bool(self.terms[d])
        if f"len({d})" in self.terms:  # a collection used for its truthiness: non-empty
            return bool(self.terms[f"len({d})"])
        if isinstance(e, ast.Attribute) and e.attr == "public" and f"len({flow.dump(e.value)}.memberships)" in self.terms:
            return self.terms[f"len({flow.dump(e.value)}.memberships)"] == 0  # Membership.public: no member ids
        if isinstance(e, ast.Call) and flow.dump(e.func) == "TupleOps.is_empty" and len(e.args) == 1 and f"len({flow.dump(e.args[0])})" in self.terms:
            return self.terms[f"len({flow.dump(e.args[0])})"] == 0  # the repository's own `len(xs) == 0`
        if isinstance(e, ast.Call) and isinstance(e.func, ast.Attribute) and e.func.attr == "isdisjoint" and len(e.args) == 1 and not e.keywords:
            a, b = flow.dump(e.func.value), flow.dump(e.args[0])
            for k in (f"len({a}.intersection({b}))", f"len({b}.intersection({a}))", f"len({a} & {b})", f"len({b} & {a})"):
                if k in self.terms:
                    return self.terms[k] == 0
        if d not in self.free:
            self.requested.append(d)
            raise Unknown(e)
        return self.free[d]


def assignments(names: Sequence[str], grid: Iterable[int]):
    grid = list(grid)
    for vals in itertools.product(grid, repeat=len(names)):
        yield dict(zip(names, vals))


def eval_with_free(fn: Callable[[Evaluator], object], terms_by_dump: Dict[str, object], max_free: int = 9):
    """Run fn(evaluator) for every valuation of the free boolean atoms it asks for.
    Yields (free_valuation, result)."""
    free_names: List[str] = []
    while True:
        restart = False
        for bits in itertools.product([False, True], repeat=len(free_names)):
            ev = Evaluator(terms_by_dump, dict(zip(free_names, bits)))
            try:
                fn(ev)
            except Unknown as u:
                d = flow.dump(u.node)
                if ev.requested and ev.requested[-1] == d and d not in free_names:
                    free_names.append(d)
                    if len(free_names) > max_free:
                        raise AnalysisError(f"CMP: too many free atoms: {free_names}")
                    restart = True
                    break
                raise AnalysisError(f"CMP: numeric operand outside the bound terms: {d[:120]}")
        if not restart:
            break
    for bits in itertools.product([False, True], repeat=len(free_names)):
        ev = Evaluator(terms_by_dump, dict(zip(free_names, bits)))
        yield dict(zip(free_names, bits)), fn(ev)


def predicate_table(expr: ast.AST, terms: Dict[str, str], grid=range(0, 4)):
    """terms: dump-of-term-expression -> short name. Returns list of (assignment-by-name, free, bool)."""
    names = sorted(set(terms.values()))
    rows = []
    for asg in assignments(names, grid):
        tb = {d: asg[n] for d, n in terms.items()}
        for free, val in eval_with_free(lambda ev: ev.truth(expr), tb):
            rows.append((asg, free, val))
    return rows


def taken_path(paths: List[flow.Path], ev: Evaluator) -> Optional[flow.Path]:
    for p in paths:
        ok = True
        for c in p.conds:
            if isinstance(c.pol, bool) and c.test is not None:
                if ev.truth(c.test) != c.pol:
                    ok = False
                    break
            elif c.pol in ("except",):
                ok = False
                break
        if ok:
            return p
    return None


def path_table(paths: List[flow.Path], terms: Dict[str, str], label: Callable[[flow.Path], str], grid=range(0, 4)):
    """For every assignment: which path is taken (conditions interpreted over the assignment) and its label."""
    names = sorted(set(terms.values()))
    rows = []
    for asg in assignments(names, grid):
        tb = {d: asg[n] for d, n in terms.items()}

        def run(ev):
            p = taken_path(paths, ev)
            return label(p) if p is not None else "<no-path>"

        for free, val in eval_with_free(run, tb):
            rows.append((asg, free, val))
    return rows


def compare_table(rows, spec: Callable[[dict, dict], object]) -> List[Tuple[dict, dict, object, object]]:
    """Rows where the computed value differs from spec(assignment, free). spec may return None for
    'unconstrained'."""
    bad = []
    for asg, free, val in rows:
        want = spec(asg, free)
        if want is None:
            continue
        if want != val:
            bad.append((asg, free, val, want))
    return bad
