"""setup_cmd: verify the interpreter and libraries the checks need; warm the type cache. Offline."""
import os, sys, warnings
warnings.filterwarnings("ignore")

def main():
    assert sys.version_info >= (3, 10), sys.version
    import ast  # noqa
    from .loader import Repo
    r = Repo()
    print("hivecheck setup: parsed", r.stats())
    try:
        import mypy  # noqa
        import mypy.build  # noqa
        print("mypy available:", getattr(__import__("mypy.version").version, "__version__", "?"))
    except Exception as e:  # typed rules will report ANALYSIS-ERROR themselves
        print("mypy NOT available:", e)
    os.makedirs(os.path.join(os.path.dirname(os.path.dirname(os.path.abspath(__file__))), "evidence", "replay"), exist_ok=True)
    try:
        from . import typeinfo
        typeinfo.load(r)
        print("type index ready")
    except Exception as e:
        print("type index not built at setup (will be built on demand):", e)
    return 0

if __name__ == "__main__":
    rc = main()
    sys.stdout.flush()
    os._exit(rc)
