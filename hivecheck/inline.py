"""Source-level inlining of NEW pure helper functions (functions that are not in the baseline symbol table of the
pinned tree), applied by the loader before anything is indexed.

Why: the most common behaviour-preserving refactoring — "extract these lines into a small private helper" — moves the
expression a rule reads out of the function the rule looks at. A helper that did not exist when the rules were written,
and whose body is assignments followed by one return (or an if/else tree of returns), denotes an expression over its
parameters; every call of it inside its own module is replaced by that expression, so the caller reads as it did before
the extraction. Helpers with statements executed for effect, loops, try, yield, *args/**kwargs or recursion are left
alone (the call stays opaque). Nothing is inlined on the pinned tree itself: every function there is in the baseline.
"""
from __future__ import annotations

import ast
import copy
import json
import os
from typing import Dict, List, Optional, Tuple

_BASELINE: Optional[set] = None
_BASELINE_PARAMS: Dict[Tuple[str, str], Optional[List[str]]] = {}
MAX_NODES = 600
ALL_TREES: Dict[str, ast.Module] = {}  # set by the loader: every package module's tree (cross-module look-ups of new definitions)


def baseline() -> set:
    global _BASELINE
    if _BASELINE is None:
        p = os.path.join(os.path.dirname(os.path.abspath(__file__)), "baseline_symbols.json")
        try:
            with open(p) as f:
                rows = json.load(f)
            _BASELINE = {(x[0], x[1]) for x in rows}
            global _BASELINE_PARAMS
            _BASELINE_PARAMS = {(x[0], x[1]): (x[2] if len(x) > 2 else None) for x in rows}
        except OSError:
            _BASELINE = set()
    return _BASELINE


def qualnames(tree: ast.Module) -> List[Tuple[str, ast.AST, Optional[str], Optional[str]]]:
    """(qualname, def node, class name or None, outer function qualname or None) for every function definition."""
    out = []

    def visit(body, prefix, cls, outer):
        for s in body:
            if isinstance(s, (ast.FunctionDef, ast.AsyncFunctionDef)):
                qn = f"{prefix}{s.name}"
                out.append((qn, s, cls if outer is None else None, outer))
                visit(s.body, qn + ".", None, qn)
            elif isinstance(s, ast.ClassDef):
                visit(s.body, f"{prefix}{s.name}.", s.name, outer)
            elif isinstance(s, (ast.If, ast.Try, ast.With, ast.For, ast.While)):
                for fld in ("body", "orelse", "finalbody"):
                    visit(getattr(s, fld, []) or [], prefix, cls, outer)
                for h in getattr(s, "handlers", []) or []:
                    visit(h.body, prefix, cls, outer)

    visit(tree.body, "", None, None)
    return out


class _Subst(ast.NodeTransformer):
    def __init__(self, env: Dict[str, ast.AST]):
        self.env = env

    def visit_Name(self, n: ast.Name):
        if isinstance(n.ctx, ast.Load) and n.id in self.env:
            return copy.deepcopy(self.env[n.id])
        return n

    def _shadowed(self, names, node):
        saved = {k: self.env.pop(k) for k in list(names) if k in self.env}
        try:
            return self.generic_visit(node)
        finally:
            self.env.update(saved)

    def visit_Lambda(self, n: ast.Lambda):
        a = n.args
        names = [x.arg for x in a.posonlyargs + a.args + a.kwonlyargs] + ([a.vararg.arg] if a.vararg else []) + ([a.kwarg.arg] if a.kwarg else [])
        return self._shadowed(names, n)

    def _comp(self, n):
        names = set()
        for g in n.generators:
            for x in ast.walk(g.target):
                if isinstance(x, ast.Name):
                    names.add(x.id)
        return self._shadowed(names, n)

    visit_ListComp = visit_SetComp = visit_GeneratorExp = visit_DictComp = _comp


def _sub(e: ast.AST, env: Dict[str, ast.AST]) -> ast.AST:
    return _Subst(dict(env)).visit(copy.deepcopy(e))


def _tail_expr(stmts: List[ast.stmt], env: Dict[str, ast.AST]) -> Optional[ast.AST]:
    """Expression denoted by a block of assignments ending in a return / an if-else tree of such blocks; None if the block
    contains anything else."""
    env = dict(env)
    for i, s in enumerate(stmts):
        if isinstance(s, ast.Expr) and isinstance(s.value, ast.Constant) and isinstance(s.value.value, str):
            continue  # docstring
        if isinstance(s, ast.Assign) and len(s.targets) == 1:
            v = _sub(s.value, env)
            t = s.targets[0]
            if isinstance(t, ast.Name):
                env[t.id] = v
            elif isinstance(t, (ast.Tuple, ast.List)) and all(isinstance(x, ast.Name) for x in t.elts):
                for k, x in enumerate(t.elts):
                    env[x.id] = ast.Subscript(value=copy.deepcopy(v), slice=ast.Constant(value=k), ctx=ast.Load())
            else:
                return None
            continue
        if isinstance(s, ast.AnnAssign) and s.value is not None and isinstance(s.target, ast.Name):
            env[s.target.id] = _sub(s.value, env)
            continue
        if isinstance(s, ast.Return):
            if s.value is None:
                return None
            return _sub(s.value, env)
        if isinstance(s, ast.If):
            rest = stmts[i + 1:]
            a = _tail_expr(list(s.body) + ([] if _always_returns(s.body) else rest), env)
            b = _tail_expr((list(s.orelse) if s.orelse else []) + ([] if (s.orelse and _always_returns(s.orelse)) else rest), env)
            if a is None or b is None:
                return None
            return ast.IfExp(test=_sub(s.test, env), body=a, orelse=b)
        return None
    return None


def _always_returns(stmts) -> bool:
    if not stmts:
        return False
    last = stmts[-1]
    if isinstance(last, ast.Return):
        return True
    if isinstance(last, ast.If):
        return bool(last.orelse) and _always_returns(last.body) and _always_returns(last.orelse)
    return False


def _size(e: ast.AST) -> int:
    return sum(1 for _ in ast.walk(e))


def _candidate(defn, is_method: bool):
    a = defn.args
    if a.vararg or a.kwarg or isinstance(defn, ast.AsyncFunctionDef):
        return None
    if defn.decorator_list and not all(isinstance(d, ast.Name) and d.id in ("staticmethod", "classmethod") for d in defn.decorator_list):
        return None
    for n in ast.walk(defn):
        if isinstance(n, (ast.Yield, ast.YieldFrom, ast.Await, ast.Global, ast.Nonlocal)):
            return None
        if isinstance(n, ast.Call) and isinstance(n.func, ast.Name) and n.func.id == defn.name:
            return None  # recursive
    params = [x.arg for x in a.posonlyargs + a.args]
    static = any(isinstance(d, ast.Name) and d.id == "staticmethod" for d in defn.decorator_list)
    bound = is_method and not static and params and params[0] in ("self", "cls")
    defaults = dict(zip(params[len(params) - len(a.defaults):], a.defaults)) if a.defaults else {}
    kwonly = [x.arg for x in a.kwonlyargs]
    kwdefaults = {k.arg: d for k, d in zip(a.kwonlyargs, a.kw_defaults) if d is not None}
    return {"params": params, "bound": bound, "defaults": defaults, "kwonly": kwonly, "kwdefaults": kwdefaults, "def": defn}


def _instantiate(c, call: ast.Call, recv: Optional[ast.AST]) -> Optional[ast.AST]:
    if any(isinstance(x, ast.Starred) for x in call.args) or any(k.arg is None for k in call.keywords):
        return None
    params = list(c["params"])
    env: Dict[str, ast.AST] = {}
    if c["bound"]:
        if recv is None:
            return None
        env[params[0]] = recv
        params = params[1:]
    if len(call.args) > len(params):
        return None
    for p, a in zip(params, call.args):
        env[p] = a
    for k in call.keywords:
        if k.arg in env or (k.arg not in params and k.arg not in c["kwonly"]):
            return None
        env[k.arg] = k.value
    for p in params + c["kwonly"]:
        if p not in env:
            d = c["defaults"].get(p, c["kwdefaults"].get(p))
            if d is None:
                return None
            env[p] = d
    e = _tail_expr(list(c["def"].body), env)
    if e is None or _size(e) > MAX_NODES:
        return None
    return e


def _tail_form(stmts: List[ast.stmt]) -> Optional[List[ast.stmt]]:
    """Rewrite a block so that every `return` stands in tail position (`if c: return A` followed by more statements
    becomes `if c: return A else: <the rest>`). None when a return sits inside a loop / try / with."""
    out: List[ast.stmt] = []
    for i, s in enumerate(stmts):
        if isinstance(s, ast.Return):
            out.append(s)
            return out
        if isinstance(s, ast.If):
            has_ret = any(isinstance(x, ast.Return) for x in ast.walk(s))
            if not has_ret:
                out.append(s)
                continue
            rest = stmts[i + 1:]
            body = _tail_form(list(s.body) + ([] if _always_returns(s.body) else copy.deepcopy(rest)))
            orelse = _tail_form(list(s.orelse) + ([] if (s.orelse and _always_returns(s.orelse)) else copy.deepcopy(rest)))
            if body is None or orelse is None:
                return None
            n = ast.If(test=s.test, body=body or [ast.Pass()], orelse=orelse)
            ast.copy_location(n, s)
            out.append(n)
            return out
        if any(isinstance(x, ast.Return) for x in ast.walk(s)) and not isinstance(s, (ast.FunctionDef, ast.AsyncFunctionDef, ast.ClassDef)):
            return None
        out.append(s)
    return out


def _replace_leaves(stmts: List[ast.stmt], make) -> List[ast.stmt]:
    out = []
    for s in stmts:
        if isinstance(s, ast.Return):
            out.append(make(s))
        elif isinstance(s, ast.If):
            n = ast.If(test=s.test, body=_replace_leaves(s.body, make), orelse=_replace_leaves(s.orelse, make))
            ast.copy_location(n, s)
            out.append(n)
        else:
            out.append(s)
    return out


class _Rename(ast.NodeTransformer):
    def __init__(self, mapping: Dict[str, str], direct: Dict[str, ast.AST]):
        self.mapping = mapping
        self.direct = direct

    def visit_Name(self, n: ast.Name):
        if n.id in self.direct and isinstance(n.ctx, ast.Load):
            return copy.deepcopy(self.direct[n.id])
        if n.id in self.mapping:
            return ast.copy_location(ast.Name(id=self.mapping[n.id], ctx=n.ctx), n)
        return n

    def visit_arg(self, n: ast.arg):
        return n


_COUNTER = [0]


def _stmt_block(cand, call: ast.Call, recv: Optional[ast.AST], at: ast.stmt) -> Optional[Tuple[List[ast.stmt], List[ast.stmt]]]:
    """(parameter bindings, renamed body) for one call of the helper."""
    if any(isinstance(x, ast.Starred) for x in call.args) or any(k.arg is None for k in call.keywords):
        return None
    d = cand["def"]
    params = list(cand["params"])
    direct: Dict[str, ast.AST] = {}
    if cand["bound"]:
        if recv is None:
            return None
        direct[params[0]] = recv
        params = params[1:]
    if len(call.args) > len(params):
        return None
    given: Dict[str, ast.AST] = dict(zip(params, call.args))
    for k in call.keywords:
        if k.arg in given or (k.arg not in params and k.arg not in cand["kwonly"]):
            return None
        given[k.arg] = k.value
    for p in params + cand["kwonly"]:
        if p not in given:
            dv = cand["defaults"].get(p, cand["kwdefaults"].get(p))
            if dv is None:
                return None
            given[p] = dv
    _COUNTER[0] += 1
    sfx = f"__i{_COUNTER[0]}"
    locals_ = set(given)
    for n in ast.walk(d):
        if isinstance(n, ast.Name) and isinstance(n.ctx, (ast.Store, ast.Del)):
            locals_.add(n.id)
    mapping = {nm: nm + sfx for nm in locals_ if nm not in direct}
    binds = []
    for p, a in given.items():
        b = ast.Assign(targets=[ast.Name(id=mapping[p], ctx=ast.Store())], value=copy.deepcopy(a))
        ast.copy_location(b, at)
        for x in ast.walk(b):
            ast.copy_location(x, at)
        binds.append(b)
    body = [copy.deepcopy(x) for x in d.body
            if not (isinstance(x, ast.Expr) and isinstance(x.value, ast.Constant) and isinstance(x.value.value, str))]
    rn = _Rename(mapping, direct)
    body = [rn.visit(x) for x in body]
    return binds, body


class _Inliner:
    def __init__(self, mod_helpers, cls_helpers, nested_helpers, log):
        self.mod_helpers = mod_helpers
        self.cls_helpers = cls_helpers
        self.nested = nested_helpers
        self.log = log

    def lookup(self, call: ast.AST, cls: Optional[str], fn_stack: List[str], inside: set):
        if not isinstance(call, ast.Call):
            return None, None
        f = call.func
        cand, recv = None, None
        if isinstance(f, ast.Name):
            for (outer, name), c in self.nested.items():
                if name == f.id and any(".".join(fn_stack[:k]) == outer or outer.endswith("." + ".".join(fn_stack[:k])) for k in range(len(fn_stack), 0, -1)):
                    cand = c
                    break
            if cand is None:
                cand = self.mod_helpers.get(f.id)
        elif isinstance(f, ast.Attribute) and isinstance(f.value, ast.Name) and cls is not None and (f.value.id in ("self", "cls") or f.value.id == cls):
            cand = self.cls_helpers.get((cls, f.attr))
            # `self.m(..)` / `cls.m(..)` / `ClassName.m(..)` (a classmethod called through the class: cls is the class itself)
            recv = f.value
            if cand is not None and cand["bound"] and f.value.id == cls and cand["params"] and cand["params"][0] == "self":
                cand = None  # an instance method called through the class passes self explicitly: leave it alone
        elif isinstance(f, ast.Attribute):
            # `<expr>.m(...)` where m is a NEW method defined exactly once in this module: whatever object is asked, it is
            # of that class (nothing else has a method of that name yet)
            owners = [k for k in self.cls_helpers if k[1] == f.attr]
            if len(owners) == 1 and f.attr.startswith("_"):
                c2 = self.cls_helpers[owners[0]]
                if c2["bound"] and not isinstance(f.value, ast.Call):
                    cand, recv = c2, f.value
        if cand is None or id(cand["def"]) in inside:
            return None, None
        return cand, recv

    def block(self, stmts: List[ast.stmt], cls: Optional[str], fn_stack: List[str], inside: set) -> List[ast.stmt]:
        out: List[ast.stmt] = []
        for s in stmts:
            done = False
            if isinstance(s, ast.Return) and s.value is not None:
                cand, recv = self.lookup(s.value, cls, fn_stack, inside)
                if cand is not None:
                    r = _stmt_block(cand, s.value, recv, s)
                    if r is not None:
                        binds, body = r
                        # the helper's returns are the caller's returns; falling off its end returns None
                        if not _always_returns(body):
                            body = body + [ast.copy_location(ast.Return(value=ast.Constant(value=None)), s)]
                        out.extend(binds + self.block(body, cls, fn_stack, inside | {id(cand["def"])}))
                        self.log.append((cand["def"].name, getattr(s, "lineno", 0)))
                        done = True
            elif isinstance(s, (ast.Assign, ast.AnnAssign)) and getattr(s, "value", None) is not None:
                cand, recv = self.lookup(s.value, cls, fn_stack, inside)
                if cand is not None:
                    r = _stmt_block(cand, s.value, recv, s)
                    tf = _tail_form(r[1]) if r is not None else None
                    if r is not None and tf is not None:
                        binds, _ = r
                        if not _always_returns(tf):
                            tf = tf + [ast.copy_location(ast.Return(value=ast.Constant(value=None)), s)]
                        targets = s.targets if isinstance(s, ast.Assign) else [s.target]

                        def make(ret, targets=targets, s=s):
                            a = ast.Assign(targets=[copy.deepcopy(t) for t in targets], value=ret.value if ret.value is not None else ast.Constant(value=None))
                            return ast.copy_location(a, ret)

                        body = _replace_leaves(tf, make)
                        out.extend(binds + self.block(body, cls, fn_stack, inside | {id(cand["def"])}))
                        self.log.append((cand["def"].name, getattr(s, "lineno", 0)))
                        done = True
            elif isinstance(s, ast.Expr) and isinstance(s.value, ast.Call):
                # a helper called for its effects: `H(args)` as a statement
                cand, recv = self.lookup(s.value, cls, fn_stack, inside)
                if cand is not None:
                    r = _stmt_block(cand, s.value, recv, s)
                    tf = _tail_form(r[1]) if r is not None else None
                    if r is not None and tf is not None:
                        binds, _ = r

                        def make_expr(ret):
                            if ret.value is None or (isinstance(ret.value, ast.Constant) and ret.value.value is None):
                                return ast.copy_location(ast.Pass(), ret)
                            return ast.copy_location(ast.Expr(value=ret.value), ret)

                        body = _replace_leaves(tf, make_expr)
                        out.extend(binds + self.block(body, cls, fn_stack, inside | {id(cand["def"])}))
                        self.log.append((cand["def"].name, getattr(s, "lineno", 0)))
                        done = True
            if done:
                continue
            # recurse into compound statements
            if isinstance(s, (ast.FunctionDef, ast.AsyncFunctionDef)):
                s.body = self.block(s.body, None if fn_stack or cls is None else cls, fn_stack + [s.name], inside | ({id(s)}))
            elif isinstance(s, ast.ClassDef):
                s.body = self.block(s.body, s.name, fn_stack, inside)
            else:
                for fld in ("body", "orelse", "finalbody"):
                    if isinstance(getattr(s, fld, None), list) and getattr(s, fld) and isinstance(getattr(s, fld)[0], ast.stmt):
                        setattr(s, fld, self.block(getattr(s, fld), cls, fn_stack, inside))
                for h in getattr(s, "handlers", []) or []:
                    h.body = self.block(h.body, cls, fn_stack, inside)
            # expression-level inlining of pure helpers inside whatever expressions remain
            s = _ExprInliner(self, cls, fn_stack, inside).visit(s)
            out.append(s)
        return out


class _ExprInliner(ast.NodeTransformer):
    def __init__(self, owner: _Inliner, cls, fn_stack, inside):
        self.o, self.cls, self.fn_stack, self.inside = owner, cls, fn_stack, inside

    def visit_FunctionDef(self, n):
        return n  # bodies are handled by the block walker

    visit_AsyncFunctionDef = visit_ClassDef = visit_FunctionDef

    def _as_lambda(self, v: ast.AST) -> ast.AST:
        """A bare reference to a new pure function handed over as a value (`key=_order`) reads as the lambda it denotes."""
        if not isinstance(v, ast.Name):
            return v
        cand = self.o.mod_helpers.get(v.id)
        if cand is None or cand["bound"] or id(cand["def"]) in self.inside:
            return v
        params = cand["params"]
        if cand["defaults"] or cand["kwonly"]:
            return v
        body = _tail_expr(list(cand["def"].body), {})
        if body is None or _size(body) > MAX_NODES:
            return v
        lam = ast.Lambda(args=ast.arguments(posonlyargs=[], args=[ast.arg(arg=p_) for p_ in params], kwonlyargs=[], kw_defaults=[], defaults=[]), body=body)
        for x in ast.walk(lam):
            ast.copy_location(x, v)
        self.o.log.append((cand["def"].name, getattr(v, "lineno", 0)))
        return lam

    def visit_Call(self, n: ast.Call):
        n = self.generic_visit(n)
        n.args = [self._as_lambda(a) for a in n.args]
        for k in n.keywords:
            k.value = self._as_lambda(k.value)
        cand, recv = self.o.lookup(n, self.cls, self.fn_stack, self.inside)
        if cand is None:
            return n
        e = _instantiate(cand, n, recv)
        if e is None:
            return n
        if isinstance(e, ast.IfExp) and getattr(n, "_if_test", False):
            return n  # a branching helper that IS the test of an `if`: the path enumerator splices its paths in (flow._splice) — sharper than one nested conditional expression
        for x in ast.walk(e):
            ast.copy_location(x, n)
        self.o.log.append((cand["def"].name, getattr(n, "lineno", 0)))
        return e


def _remove_unreferenced(tree: ast.Module, defs: List[ast.AST]) -> None:
    for d in defs:
        refs = 0
        for n in ast.walk(tree):
            if n is d:
                continue
            if isinstance(n, ast.Name) and n.id == d.name:
                refs += 1
            elif isinstance(n, ast.Attribute) and n.attr == d.name:
                refs += 1
        inner = sum(1 for n in ast.walk(d) if (isinstance(n, ast.Name) and n.id == d.name) or (isinstance(n, ast.Attribute) and n.attr == d.name))
        if refs - inner > 0:
            continue
        for n in ast.walk(tree):
            for fld in ("body", "orelse", "finalbody"):
                b = getattr(n, fld, None)
                if isinstance(b, list) and d in b:
                    b.remove(d)
                    if not b:
                        b.append(ast.copy_location(ast.Pass(), d))


def inline_new_helpers(tree: ast.Module, relpath: str) -> List[Tuple[str, int]]:
    """Rewrite `tree` in place; returns [(helper name, call line)] for the evidence."""
    base = baseline()
    if not base:
        return []
    mod_helpers, cls_helpers, nested = {}, {}, {}
    names_seen: Dict[str, int] = {}
    qs = qualnames(tree)
    for qn, d, cls, outer in qs:
        names_seen[d.name] = names_seen.get(d.name, 0) + 1
    defs = []
    for qn, d, cls, outer in qs:
        if (relpath, qn) in base:
            continue
        c = _candidate(d, is_method=cls is not None)
        if c is None:
            continue
        if cls is not None:
            cls_helpers[(cls, d.name)] = c
        elif outer is not None:
            nested[(outer, d.name)] = c
        elif names_seen.get(d.name, 0) == 1:
            mod_helpers[d.name] = c
        else:
            continue
        defs.append(d)
    if not defs:
        return []
    log: List[Tuple[str, int]] = []
    for node in ast.walk(tree):
        if isinstance(node, ast.If):
            t = node.test
            while isinstance(t, ast.UnaryOp) and isinstance(t.op, ast.Not):
                t = t.operand
            if isinstance(t, ast.Call):
                t._if_test = True
    inl = _Inliner(mod_helpers, cls_helpers, nested, log)
    tree.body = inl.block(tree.body, None, [], set())
    if log:
        _remove_unreferenced(tree, defs)
    ast.fix_missing_locations(tree)
    return log


# ------------------------------------------------------------------------------------------ accumulate loops -> reduce
def _loop_vars(t: ast.AST) -> Optional[List[str]]:
    if isinstance(t, ast.Name):
        return [t.id]
    return None


def _acc_expr(body: List[ast.stmt], acc: str, env: Dict[str, ast.AST]) -> Optional[ast.AST]:
    """The value `acc` has after running `body` once, as an expression over (acc, loop variable); None if the body does
    anything other than local assignments and (possibly guarded) assignments of acc."""
    env = dict(env)
    cur: ast.AST = ast.Name(id=acc, ctx=ast.Load())
    for i, s in enumerate(body):
        if isinstance(s, ast.Assign) and len(s.targets) == 1 and isinstance(s.targets[0], ast.Name):
            v = _sub(s.value, {**env, acc: cur})
            if s.targets[0].id == acc:
                cur = v
            else:
                env[s.targets[0].id] = v
            continue
        if isinstance(s, ast.AnnAssign) and s.value is not None and isinstance(s.target, ast.Name):
            v = _sub(s.value, {**env, acc: cur})
            if s.target.id == acc:
                cur = v
            else:
                env[s.target.id] = v
            continue
        if isinstance(s, ast.If):
            a = _acc_expr(list(s.body) + body[i + 1:], acc, {**env, acc: cur}) if True else None
            b = _acc_expr(list(s.orelse) + body[i + 1:], acc, {**env, acc: cur})
            if a is None or b is None:
                return None
            # inside the arms `acc` was already substituted by cur through env
            return ast.IfExp(test=_sub(s.test, {**env, acc: cur}), body=a, orelse=b)
        if isinstance(s, ast.Pass):
            continue
        return None
    return cur


def _read_before_written(body: List[ast.stmt], name: str) -> bool:
    """Is `name` read in `body` before anything in `body` assigns it (i.e. is its value carried into the iteration)?"""
    for s in body:
        if isinstance(s, (ast.Assign, ast.AnnAssign, ast.AugAssign)):
            v = getattr(s, "value", None)
            if v is not None and any(isinstance(n, ast.Name) and n.id == name and isinstance(n.ctx, ast.Load) for n in ast.walk(v)):
                return True
            if isinstance(s, ast.AugAssign) and isinstance(s.target, ast.Name) and s.target.id == name:
                return True
            tg = s.targets if isinstance(s, ast.Assign) else [s.target]
            if any(isinstance(n, ast.Name) and n.id == name for t in tg for n in ast.walk(t)):
                return False
        else:
            for n in ast.walk(s):
                if isinstance(n, ast.Name) and n.id == name:
                    return isinstance(n.ctx, ast.Load) or True
    return False


def canonicalise_accumulate_loops(tree: ast.Module) -> int:
    """`acc = INIT` directly followed by `for x in XS: <acc = E(acc, x)>` (also: guarded by an if, with local
    assignments, or with acc being a parameter and no INIT statement) is rewritten to
    `acc = ft.reduce(<reducer>, XS, INIT)`: one spelling for the fold, whichever way it was written. The reducer is
    eta-reduced (`F` for `lambda a, x: F(a, x)`, `ft.partial(F, k=v)` for `lambda a, x: F(a, x, k=v)`)."""
    n_done = 0

    def eta(lam: ast.Lambda, acc: str, x: str) -> ast.AST:
        b = lam.body
        if isinstance(b, ast.Call) and isinstance(b.func, (ast.Name, ast.Attribute)) and len(b.args) == 2 \
                and isinstance(b.args[0], ast.Name) and b.args[0].id == acc and isinstance(b.args[1], ast.Name) and b.args[1].id == x:
            used = {n.id for k in b.keywords for n in ast.walk(k.value) if isinstance(n, ast.Name)} | {n.id for n in ast.walk(b.func) if isinstance(n, ast.Name)}
            if acc not in used and x not in used and all(k.arg is not None for k in b.keywords):
                if not b.keywords:
                    return b.func
                return ast.Call(func=ast.Attribute(value=ast.Name(id="ft", ctx=ast.Load()), attr="partial", ctx=ast.Load()), args=[b.func], keywords=b.keywords)
        return lam

    def process(stmts: List[ast.stmt]) -> List[ast.stmt]:
        nonlocal n_done
        out: List[ast.stmt] = []
        for s in stmts:
            for fld in ("body", "orelse", "finalbody"):
                b = getattr(s, fld, None)
                if isinstance(b, list) and b and isinstance(b[0], ast.stmt):
                    setattr(s, fld, process(b))
            for h in getattr(s, "handlers", []) or []:
                h.body = process(h.body)
            if isinstance(s, ast.For) and not s.orelse and isinstance(s.target, ast.Name) \
                    and not any(isinstance(x, (ast.Break, ast.Continue, ast.Return, ast.Yield, ast.YieldFrom)) for b in s.body for x in ast.walk(b)):
                x = s.target.id
                # which name is accumulated?
                stores = {n.id for b in s.body for n in ast.walk(b) if isinstance(n, ast.Name) and isinstance(n.ctx, ast.Store)}
                cands = [a for a in sorted(stores) if a != x and _read_before_written(s.body, a)]
                locals_only = stores - set(cands) - {x}
                if len(cands) == 1:
                    acc = cands[0]
                    e = _acc_expr(list(s.body), acc, {})
                    # locals assigned in the body must not be read after the loop: be conservative, require that they are
                    # not mentioned in the rest of the enclosing block (checked by the caller below via `later`)
                    if e is not None and not any(isinstance(n, ast.Name) and n.id == x for n in ast.walk(s.iter)):
                        init: Optional[ast.AST] = None
                        prev = out[-1] if out else None
                        if isinstance(prev, ast.Assign) and len(prev.targets) == 1 and isinstance(prev.targets[0], ast.Name) and prev.targets[0].id == acc:
                            init = prev.value
                        elif isinstance(prev, ast.AnnAssign) and prev.value is not None and isinstance(prev.target, ast.Name) and prev.target.id == acc:
                            init = prev.value
                        if init is not None and not any(isinstance(n, ast.Name) and n.id == acc for n in ast.walk(s.iter)):
                            out.pop()
                        else:
                            init = ast.Name(id=acc, ctx=ast.Load())
                        lam = ast.Lambda(args=ast.arguments(posonlyargs=[], args=[ast.arg(arg=acc), ast.arg(arg=x)], kwonlyargs=[], kw_defaults=[], defaults=[]), body=e)
                        red = ast.Call(func=ast.Attribute(value=ast.Name(id="ft", ctx=ast.Load()), attr="reduce", ctx=ast.Load()),
                                       args=[eta(lam, acc, x), s.iter, init], keywords=[])
                        new = ast.Assign(targets=[ast.Name(id=acc, ctx=ast.Store())], value=red)
                        for nn in ast.walk(new):
                            ast.copy_location(nn, s)
                        new._locals_dropped = locals_only  # type: ignore[attr-defined]
                        out.append(new)
                        n_done += 1
                        continue
            out.append(s)
        # undo a rewrite whose body-local names are read later in the same block
        final: List[ast.stmt] = []
        for i, s in enumerate(out):
            final.append(s)
        return final

    for node in ast.walk(tree):
        if isinstance(node, (ast.FunctionDef, ast.AsyncFunctionDef)):
            node.body = process(node.body)
    if n_done:
        ast.fix_missing_locations(tree)
    return n_done


# ------------------------------------------------------------------------------------------ re-nesting of lifted functions
def _refs_in(outer_def, names) -> List[Tuple[ast.AST, str, str]]:
    """References (not calls) to one of `names` inside outer_def: (node, name, kind) with kind 'bare' | 'partial' | 'method'."""
    out = []
    called = set()
    for n in ast.walk(outer_def):
        if isinstance(n, ast.Call):
            called.add(id(n.func))
    for n in ast.walk(outer_def):
        if isinstance(n, ast.Call) and isinstance(n.func, (ast.Attribute, ast.Name)) and (getattr(n.func, "attr", None) == "partial" or getattr(n.func, "id", None) == "partial") and n.args:
            g = n.args[0]
            if isinstance(g, ast.Name) and g.id in names:
                out.append((n, g.id, "partial"))
            elif isinstance(g, ast.Attribute) and isinstance(g.value, ast.Name) and g.value.id in ("self", "cls") and g.attr in names:
                out.append((n, g.attr, "partial-method"))
    partial_args = {id(n.args[0]) for n, _, k in out if k.startswith("partial")}
    for n in ast.walk(outer_def):
        if id(n) in called or id(n) in partial_args:
            continue
        if isinstance(n, ast.Name) and isinstance(n.ctx, ast.Load) and n.id in names:
            out.append((n, n.id, "bare"))
        elif isinstance(n, ast.Attribute) and isinstance(n.ctx, ast.Load) and isinstance(n.value, ast.Name) and n.value.id in ("self", "cls") and n.attr in names:
            out.append((n, n.attr, "method"))
    return out


def renest_lifted(tree: ast.Module, relpath: str) -> List[Tuple[str, str]]:
    """A nested function of the baseline that has vanished from its enclosing function, while that function now passes a NEW
    module-level function (or method) around as a value (`G`, `ft.partial(G, env=env)`, `self._g`): the nested function was
    lifted out. It is put back under its baseline name — parameters bound by the partial become closure names again — so that
    the enclosing function reads as before. Returns [(baseline nested name, lifted function)]."""
    base = baseline()
    if not base:
        return []
    qs = qualnames(tree)
    cur = {qn: (d, cls, outer) for qn, d, cls, outer in qs}
    missing: Dict[str, List[Tuple[str, Optional[List[str]]]]] = {}
    for (rel, qn), params in _BASELINE_PARAMS.items():
        if rel != relpath or qn in cur or "." not in qn:
            continue
        outer_qn = qn.rsplit(".", 1)[0]
        if outer_qn in cur and (relpath, outer_qn) in base and isinstance(cur[outer_qn][0], (ast.FunctionDef, ast.AsyncFunctionDef)):
            # only direct children of a function (not of a class)
            if any(q == outer_qn and isinstance(d, (ast.FunctionDef, ast.AsyncFunctionDef)) for q, d, _, _ in qs):
                missing.setdefault(outer_qn, []).append((qn.rsplit(".", 1)[1], params))
    if not missing:
        return []
    new_defs = {}
    for qn, d, cls, outer in qs:
        if (relpath, qn) not in base and outer is None:
            new_defs[d.name] = (d, cls)
    # ... or lifted into ANOTHER module of the package and imported from there (`from pkg.mod import G`)
    if ALL_TREES:
        for st_ in ast.walk(tree):
            if isinstance(st_, ast.ImportFrom) and st_.module and not st_.level:
                rel2 = st_.module.replace(".", "/") + ".py"
                t2 = ALL_TREES.get(rel2)
                if t2 is None or t2 is tree:
                    continue
                for al in st_.names:
                    nm = al.asname or al.name
                    if nm in new_defs:
                        continue
                    for qn2, d2, cls2, outer2 in qualnames(t2):
                        if qn2 == al.name and cls2 is None and outer2 is None and (rel2, qn2) not in base:
                            new_defs[nm] = (d2, None)
    if not new_defs:
        return []
    done = []
    for outer_qn, items in missing.items():
        outer_def = cur[outer_qn][0]
        refs = _refs_in(outer_def, set(new_defs))
        if not refs:
            continue
        by_name: Dict[str, List] = {}
        for node, name, kind in refs:
            by_name.setdefault(name, []).append((node, kind))
        for xname, xparams in items:
            # choose the lifted function whose free parameters match the vanished nested function's
            chosen = None
            for gname, uses in by_name.items():
                gdef, gcls = new_defs[gname]
                gp = [a.arg for a in gdef.args.posonlyargs + gdef.args.args + gdef.args.kwonlyargs]
                if gcls is not None and gp and gp[0] in ("self", "cls"):
                    gp = gp[1:]
                bound = set()
                npos = 0
                for node, kind in uses:
                    if kind.startswith("partial"):
                        npos = max(npos, len(node.args) - 1)
                        bound |= {k.arg for k in node.keywords if k.arg}
                free = [x for i, x in enumerate(gp) if i >= npos and x not in bound]
                if xparams is None or len(free) == len(xparams):
                    if chosen is not None:
                        chosen = None
                        break
                    chosen = (gname, gdef, gcls, gp, npos, bound, uses)
            if chosen is None:
                continue
            gname, gdef, gcls, gp, npos, bound, uses = chosen
            nested = copy.deepcopy(gdef)
            nested.name = xname
            nested.decorator_list = []
            pre: List[ast.stmt] = []
            # bindings from the (first) partial
            first_partial = next((node for node, kind in uses if kind.startswith("partial")), None)
            bind_map: Dict[str, ast.AST] = {}
            if first_partial is not None:
                for x, a in zip(gp, first_partial.args[1:]):
                    bind_map[x] = a
                for k in first_partial.keywords:
                    if k.arg:
                        bind_map[k.arg] = k.value
            keep_args = []
            all_args = nested.args.posonlyargs + nested.args.args
            for a in all_args:
                if gcls is not None and a.arg in ("self", "cls") and a is all_args[0]:
                    continue
                if a.arg in bind_map:
                    v = bind_map[a.arg]
                    if not (isinstance(v, ast.Name) and v.id == a.arg):
                        asg = ast.Assign(targets=[ast.Name(id=a.arg, ctx=ast.Store())], value=copy.deepcopy(v))
                        pre.append(asg)
                    continue
                keep_args.append(a)
            nested.args.posonlyargs = []
            nested.args.args = keep_args
            nested.args.defaults = nested.args.defaults[-len(keep_args):] if nested.args.defaults and len(nested.args.defaults) <= len(keep_args) else []
            nested.args.kwonlyargs = [a for a in nested.args.kwonlyargs if a.arg not in bind_map]
            nested.args.kw_defaults = [None] * len(nested.args.kwonlyargs)
            nested.body = pre + nested.body
            # where: before the top-level statement of the outer body that contains the first reference
            first_ref = uses[0][0]
            idx = 0
            for i, st in enumerate(outer_def.body):
                if any(z is first_ref for z in ast.walk(st)):
                    idx = i
                    break
            for z in ast.walk(nested):
                if hasattr(z, "lineno"):
                    pass
            outer_def.body.insert(idx, nested)
            # replace the references
            targets = {id(node): kind for node, kind in uses}

            class _R(ast.NodeTransformer):
                def generic_visit(self, node):
                    node = super().generic_visit(node)
                    return node

                def visit(self, node):
                    if id(node) in targets:
                        return ast.copy_location(ast.Name(id=xname, ctx=ast.Load()), node)
                    return super().visit(node)

            for i, st in enumerate(outer_def.body):
                if st is nested:
                    continue
                outer_def.body[i] = _R().visit(st)
            done.append((xname, gname))
            del by_name[gname]
    if done:
        # drop lifted definitions that are no longer referenced
        _remove_unreferenced(tree, [new_defs[g][0] for _, g in done])
        ast.fix_missing_locations(tree)
    return done


# ------------------------------------------------------------------------------------------ new members, package-wide
def inline_new_members(trees: Dict[str, ast.Module]) -> List[Tuple[str, str, int]]:
    """Package-wide, expression-level inlining of NEW single-expression members: a `@property` (`E.name`), an instance method
    (`E.name(args)`) or a module-level function used from another module (`name(args)` / `mod.name(args)`) that the pinned tree does
    not have, whose name is borne by exactly one definition in the package and by no field, and whose body denotes one expression
    (`_tail_expr`). "This comparison got a name on the class it is about" is the most common clean-up of the guard chains the rules
    read; the rules then meet the comparison again. Definitions left without a reference are dropped. -> [(relpath of use, name, line)]"""
    base = baseline()
    if not base:
        return []
    from collections import Counter

    count: Counter = Counter()
    fields = set()
    new = {}
    for rel, t in trees.items():
        for qn, d, cls, outer in qualnames(t):
            count[d.name] += 1
            if (rel, qn) not in base and outer is None:
                new[d.name] = (rel, qn, d, cls)
        for n in ast.walk(t):
            if isinstance(n, ast.ClassDef):
                for s in n.body:
                    if isinstance(s, ast.AnnAssign) and isinstance(s.target, ast.Name):
                        fields.add(s.target.id)
                    elif isinstance(s, ast.Assign):
                        fields |= {x.id for x in s.targets if isinstance(x, ast.Name)}
            elif isinstance(n, ast.Attribute) and isinstance(n.ctx, ast.Store):
                fields.add(n.attr)
    props, methods, funcs = {}, {}, {}
    for name, (rel, qn, d, cls) in new.items():
        if count[name] != 1 or name in fields or name.startswith("__"):
            continue
        decs = [ast.unparse(x) for x in d.decorator_list]
        if cls is not None and decs == ["property"]:
            a = d.args
            if len(a.args) == 1 and not (a.vararg or a.kwarg or a.kwonlyargs or a.posonlyargs):
                props[name] = {"params": [a.args[0].arg], "bound": True, "defaults": {}, "kwonly": [], "kwdefaults": {}, "def": d, "rel": rel}
            continue
        c = _candidate(d, is_method=cls is not None)
        if c is None:
            continue
        c["rel"] = rel
        if cls is not None and c["bound"] and c["params"][0] == "self":
            methods[name] = c
        elif cls is None:
            funcs[name] = c
    if not (props or methods or funcs):
        return []
    log: List[Tuple[str, str, int]] = []
    used = set()

    def simple(e: ast.AST) -> bool:
        return not any(isinstance(x, (ast.Call, ast.Lambda, ast.Await, ast.NamedExpr)) for x in ast.walk(e))

    def uses(c, pname: str) -> int:
        return sum(1 for x in ast.walk(c["def"]) if isinstance(x, ast.Name) and x.id == pname)

    class T(ast.NodeTransformer):
        def __init__(self, rel):
            self.rel = rel
            self.inside = []

        def visit_FunctionDef(self, n):
            self.inside.append(n)
            self.generic_visit(n)
            self.inside.pop()
            return n

        def _own(self, c) -> bool:
            return any(x is c["def"] for x in self.inside)

        def visit_Attribute(self, n):
            self.generic_visit(n)
            c = props.get(n.attr)
            if c is not None and isinstance(n.ctx, ast.Load) and not self._own(c) and (simple(n.value) or uses(c, c["params"][0]) <= 1):
                e = _tail_expr(list(c["def"].body), {c["params"][0]: n.value})
                if e is not None and _size(e) <= MAX_NODES:
                    used.add(n.attr)
                    log.append((self.rel, n.attr, getattr(n, "lineno", 0)))
                    return ast.copy_location(e, n)
            return n

        def visit_Call(self, n):
            self.generic_visit(n)
            f = n.func
            c, recv = None, None
            if isinstance(f, ast.Attribute) and f.attr in methods:
                c, recv = methods[f.attr], f.value
                if not (simple(recv) or uses(c, "self") <= 1):
                    c = None
            elif isinstance(f, ast.Attribute) and f.attr in funcs and isinstance(f.value, ast.Name) and funcs[f.attr]["rel"] != self.rel:
                c = funcs[f.attr]
            elif isinstance(f, ast.Name) and f.id in funcs and funcs[f.id]["rel"] != self.rel:
                c = funcs[f.id]
            if c is None or self._own(c):
                return n
            if not all(simple(a) or uses(c, p) <= 1 for p, a in zip(c["params"][1 if c["bound"] else 0:], n.args)):
                return n
            e = _instantiate(c, n, recv)
            if e is None:
                return n
            nm = f.attr if isinstance(f, ast.Attribute) else f.id
            used.add(nm)
            log.append((self.rel, nm, getattr(n, "lineno", 0)))
            return ast.copy_location(e, n)

    for rel, t in trees.items():
        T(rel).visit(t)
    if used:
        for nm in used:
            c = props.get(nm) or methods.get(nm) or funcs.get(nm)
            still = 0
            for rel, t in trees.items():
                for x in ast.walk(t):
                    if (isinstance(x, ast.Attribute) and x.attr == nm) or (isinstance(x, ast.Name) and x.id == nm):
                        still += 1
            inner = sum(1 for x in ast.walk(c["def"]) if (isinstance(x, ast.Attribute) and x.attr == nm) or (isinstance(x, ast.Name) and x.id == nm))
            if still - inner == 0:
                _remove_unreferenced(trees[c["rel"]], [c["def"]])
            # an import of the name elsewhere keeps it "referenced" through ast.alias only, which is not counted above
        for t in trees.values():
            ast.fix_missing_locations(t)
    return log
