"""Obligations, known findings, evidence files, replay files."""
from __future__ import annotations

import hashlib
import json
import os
import time
from dataclasses import dataclass, field, asdict
from typing import Dict, List, Optional

from . import AnalysisError

VERIF = os.path.dirname(os.path.dirname(os.path.abspath(__file__)))
KNOWN_FILE = os.path.join(VERIF, "known_findings.json")


@dataclass
class Ob:
    prop: str
    clause: str  # D1, D2 ... as in DESIGN.md section 4
    rule: str  # rule family . rule, e.g. "TS.pairing"
    instance: str  # what was checked, human readable
    file: str
    line: int
    function: str
    status: str  # ok | violation | known | info
    why: str = ""
    construct: str = ""  # stable, line-free identification of the offending construct
    witness: Optional[dict] = None

    def key(self) -> str:
        return finding_key(self.prop, self.rule, self.file, self.function, self.construct)


def finding_key(prop, rule, file, function, construct) -> str:
    h = hashlib.sha1(" ".join(construct.split()).encode()).hexdigest()[:12]
    return f"{prop}|{rule}|{file}|{function}|{h}"


class Ctx:
    """One run of one property's check."""

    def __init__(self, prop: str, repo, tier: str = "quick", seed: int = 0, quiet: bool = False):
        self.prop = prop
        self.repo = repo
        self.tier = tier
        self.seed = seed
        self.quiet = quiet
        self.obs: List[Ob] = []
        self.notes: List[str] = []
        self.not_decided: List[str] = []
        self.assumptions: List[str] = []
        self.functions_analysed: set = set()
        self.extra: Dict[str, object] = {}
        self.shortfalls: List[str] = []
        self._seen: set = set()
        self.t0 = time.time()
        self._types = None

    # ---- recording
    def touched(self, fn) -> None:
        self.functions_analysed.add(f"{fn.relpath}::{fn.qualname}")

    def ok(self, clause, rule, instance, fn=None, node=None, why="", file=None, line=None, function=None):
        self._add("ok", clause, rule, instance, fn, node, why, "", None, file, line, function)

    def info(self, clause, rule, instance, fn=None, node=None, why="", file=None, line=None, function=None):
        self._add("info", clause, rule, instance, fn, node, why, "", None, file, line, function)

    def violation(self, clause, rule, instance, fn=None, node=None, why="", construct="", witness=None, file=None,
                  line=None, function=None):
        self._add("violation", clause, rule, instance, fn, node, why, construct or instance, witness, file, line,
                  function)

    def check(self, cond: bool, clause, rule, instance, fn=None, node=None, why_ok="", why_bad="", construct="",
              witness=None):
        if cond:
            self.ok(clause, rule, instance, fn, node, why_ok)
        else:
            self.violation(clause, rule, instance, fn, node, why_bad, construct, witness)
        return cond

    def _add(self, status, clause, rule, instance, fn, node, why, construct, witness, file, line, function):
        if fn is not None:
            self.touched(fn)
            file = file or fn.relpath
            function = function or fn.qualname
            if line is None:
                line = getattr(node, "lineno", None) or fn.lineno
        ob = Ob(self.prop, clause, rule, instance, file or "?", int(line or 0), function or "?", status, why,
                construct, witness)
        k = (status, rule, ob.file, ob.function, construct, instance, ob.line)
        if k in self._seen:
            return
        self._seen.add(k)
        self.obs.append(ob)

    def require(self, cond: bool, msg: str):
        if not cond:
            raise AnalysisError(msg)

    def floor(self, rule_prefix: str, minimum: int):
        n = sum(1 for o in self.obs if o.rule.startswith(rule_prefix) and o.status != "info")
        if n < minimum:
            self.soft_fail(
                f"rule {rule_prefix} matched {n} instances, below the hand-confirmed floor {minimum}: "
                f"the rule no longer sees the code it was written for"
            )

    def soft_fail(self, msg: str):
        """A coverage shortfall: fatal (exit 2) unless the run also found a violation, which is the
        more specific answer (a deleted release both breaks pairing and lowers the instance count)."""
        self.shortfalls.append(msg)

    def attempt(self, fn, *args, **kw):
        """Run one clause's rule; an unrecognised shape there becomes a shortfall (exit 2 unless some
        other clause finds a violation) instead of aborting the remaining clauses."""
        try:
            return fn(*args, **kw)
        except AnalysisError as e:
            self.soft_fail(f"{getattr(fn, '__name__', 'rule')}: {e}")
            return None
        except Exception as e:  # an unexpected shape broke the rule's own code: a refusal, never a verdict
            import traceback

            tb = traceback.extract_tb(e.__traceback__)[-1]
            self.soft_fail(f"{getattr(fn, '__name__', 'rule')}: internal {type(e).__name__}: {e} at {tb.filename.split('/')[-1]}:{tb.lineno}")
            return None

    def end_of_run(self):
        if not getattr(self, "_hygiene_done", False):
            self._hygiene_done = True
            from . import hygiene

            hygiene.after_run(self)
        if self.shortfalls:
            apply_known(self)  # a listed known finding is not "the more specific answer" that excuses a shortfall
        if self.shortfalls and not any(o.status == "violation" for o in self.obs):
            raise AnalysisError("; ".join(self.shortfalls))

    # ---- types (lazy; only typed rules pay for mypy)
    @property
    def types(self):
        if self._types is None:
            from . import typeinfo

            self._types = typeinfo.load(self.repo)
        return self._types


# --------------------------------------------------------------------------------- known findings
def load_known() -> List[dict]:
    if not os.path.exists(KNOWN_FILE):
        return []
    with open(KNOWN_FILE) as f:
        data = json.load(f)
    return data.get("entries", [])


def apply_known(ctx: Ctx) -> None:
    known = [e for e in load_known() if e.get("status") == "known" and e.get("property") == ctx.prop]
    for o in ctx.obs:
        if o.status != "violation":
            continue
        for e in known:
            same_fn = e.get("function") == o.function
            if not same_fn:
                # the listed construct was moved, unchanged, into a helper the pinned tree does not have (an extracted function nested in
                # the same outer function): still the listed finding, not a new one
                try:
                    from .inline import baseline

                    outer = e.get("function", "").rsplit(".", 1)[0]
                    same_fn = bool(outer) and o.function.startswith(outer + ".") and (o.file, o.function) not in baseline() and bool(baseline())
                except Exception:
                    same_fn = False
            if (
                e.get("rule") == o.rule
                and e.get("file") == o.file
                and same_fn
                and " ".join(e.get("construct", "").split()) == " ".join(o.construct.split())
            ):
                o.status = "known"
                o.why = (o.why + " | " if o.why else "") + "listed known finding: " + e.get("what", "")
                break


# --------------------------------------------------------------------------------- output
def finish(ctx: Ctx, explanation: str, level: str = "other", selftest: Optional[dict] = None) -> int:
    apply_known(ctx)
    viol = [o for o in ctx.obs if o.status == "violation"]
    known = [o for o in ctx.obs if o.status == "known"]
    oks = [o for o in ctx.obs if o.status == "ok"]
    os.makedirs(os.path.join(VERIF, "evidence", "replay"), exist_ok=True)
    import glob as _glob
    for stale in _glob.glob(os.path.join(VERIF, "evidence", "replay", f"{ctx.prop}-*.json")):
        try:
            os.remove(stale)  # replay files describe the last run of this property only
        except OSError:
            pass
    lines = []
    for i, o in enumerate(viol):
        rp = os.path.join(VERIF, "evidence", "replay", f"{ctx.prop}-{i}.json")
        with open(rp, "w") as f:
            json.dump(asdict(o), f, indent=1, default=str)
        lines.append(
            f"  {o.file}:{o.line} in {o.function}: [{o.rule} / {o.clause}] {o.instance} -- {o.why}"
        )
        lines.append(f"VIOLATION property={ctx.prop} replay={rp}")
    for o in known:
        lines.append(
            f"KNOWN-FINDING: property={ctx.prop} {o.file}:{o.line} {o.function} [{o.rule}] {o.instance} -- {o.why}"
        )
    distinct = len({(o.rule, o.file, o.function, o.instance) for o in ctx.obs if o.status in ("ok", "violation", "known")})
    by_rule: Dict[str, int] = {}
    for o in ctx.obs:
        if o.status != "info":
            by_rule[o.rule] = by_rule.get(o.rule, 0) + 1
    samples = []
    seen_rules = set()
    for o in ctx.obs:
        if o.status == "info":
            continue
        if o.rule in seen_rules and len(samples) >= 8:
            continue
        seen_rules.add(o.rule)
        samples.append(
            {"clause": o.clause, "rule": o.rule, "instance": o.instance, "at": f"{o.file}:{o.line}",
             "function": o.function, "status": o.status, "why": o.why[:300]}
        )
        if len(samples) >= 40:
            break
    n_obl = len(oks) + len(viol) + len(known)
    cov = {
        "explanation": explanation,
        "obligations": n_obl,
        "discharged": len(oks),
        "known_findings": len(known),
        "evaluations": max(n_obl, 1),
        "distinct_nontrivial": distinct,
        "rule": "one obligation per (rule, construct) instance found in /repo's current source by the "
                "checker; distinct = distinct (rule, file, function, instance); non-trivial = the rule had "
                "to inspect a path condition, a provenance chain, a caller set or a truth table",
        "rule_instances": by_rule,
        "functions_analysed": len(ctx.functions_analysed),
        "functions": sorted(ctx.functions_analysed)[:200],
        "repo": ctx.repo.stats(),
        "samples": samples,
        "exhaustive": True,
        "checker_cmd": f"./check {ctx.prop} --tier {ctx.tier}",
        "trusted_base": ["CPython ast", "hivecheck path enumerator (loops entered 0/1 times)"]
        + (["mypy inferred types"] if ctx._types is not None else []),
        "not_decided": ctx.not_decided,
        "notes": ctx.notes[:50],
    }
    cov.update(ctx.extra)
    if selftest is not None:
        cov["selftest"] = selftest
    ev = {
        "property_id": ctx.prop,
        "tier": ctx.tier,
        "seed": int(ctx.seed),
        "level": level,
        "coverage": cov,
        "assumptions": ctx.assumptions,
        "wall_s": round(time.time() - ctx.t0, 3),
        "violations": len(viol),
    }
    with open(os.path.join(VERIF, "evidence", f"{ctx.prop}.json"), "w") as f:
        json.dump(ev, f, indent=1, default=str)
    if not ctx.quiet:
        print(
            f"[{ctx.prop}] tier={ctx.tier} obligations={n_obl} discharged={len(oks)} known={len(known)} "
            f"violations={len(viol)} functions={len(ctx.functions_analysed)} rules={by_rule} "
            f"wall={ev['wall_s']}s"
        )
        for ln in lines:
            print(ln)
    return 1 if viol else 0
