"""Self-test of a property's rules on in-memory variants of /repo's current source.

A variant is a textual edit (old -> new, must match exactly once in the named file) applied through
the loader's overlay — nothing is written to /repo or /verif. `break` variants must make the check
report a violation that the unchanged tree does not have (optionally naming a rule); `twin`
variants preserve behaviour and must not change the verdict. A variant whose `old` text no longer
occurs (the repository moved on) is counted as stale and skipped, never as a failure.
"""
from __future__ import annotations

import importlib
import os
import sys
import time
from dataclasses import dataclass
from typing import List, Optional

from . import AnalysisError
from .loader import Repo
from .report import Ctx, apply_known


@dataclass
class V:
    name: str
    file: str
    old: str
    new: str
    kind: str = "break"  # break | twin
    rule: Optional[str] = None  # expected rule prefix for break variants
    more: tuple = ()  # further (file, old, new) edits applied together
    pos: Optional[tuple] = None  # (lineno, col, end_lineno, end_col) of `old` in the current source (computed variants)
    patch: Optional[str] = None  # a unified diff applied as a whole (stored seeded changes / refactorings): hunks need not be unique text, new files allowed


def _offset(src: str, line: int, col: int) -> int:
    lines = src.split("\n")
    return sum(len(l) + 1 for l in lines[: line - 1]) + len(lines[line - 1].encode("utf-8")[:col].decode("utf-8", "ignore"))


def overlay_from_patch(pf: str, repo_root: str):
    """{relpath: patched source} of the .py files a unified diff touches, computed on scratch copies of those files (never in /repo)."""
    import re
    import shutil
    import subprocess
    import tempfile

    files = sorted({m.group(1) for ln in open(pf, encoding="utf-8", errors="replace") for m in [re.match(r"^(?:\+\+\+ b|--- a)/(.*)$", ln.rstrip("\n"))] if m})
    tmp = tempfile.mkdtemp(prefix="ov_")
    try:
        for f in files:
            src = os.path.join(repo_root, f)
            if os.path.exists(src):
                os.makedirs(os.path.dirname(os.path.join(tmp, f)), exist_ok=True)
                shutil.copy(src, os.path.join(tmp, f))
        r = subprocess.run(["git", "apply", "--unsafe-paths", "--directory", tmp, os.path.abspath(pf)], cwd=tmp, capture_output=True, text=True)
        if r.returncode != 0:
            r = subprocess.run(["patch", "-p1", "-s", "-i", os.path.abspath(pf)], cwd=tmp, capture_output=True, text=True)
            if r.returncode != 0:
                return None
        return {f: open(os.path.join(tmp, f), encoding="utf-8").read() for f in files if f.endswith(".py") and os.path.exists(os.path.join(tmp, f))}
    finally:
        shutil.rmtree(tmp, ignore_errors=True)


def _apply(repo_root, v: V):
    if v.patch is not None:
        try:
            return overlay_from_patch(v.patch, repo_root) or None
        except Exception:
            return None
    overlay = {}
    if v.pos is not None:
        path = os.path.join(repo_root, v.file)
        if not os.path.exists(path):
            return None
        with open(path, encoding="utf-8") as f:
            src = f.read()
        a, b = _offset(src, v.pos[0], v.pos[1]), _offset(src, v.pos[2], v.pos[3])
        if src[a:b] != v.old:
            return None
        overlay[v.file] = src[:a] + v.new + src[b:]
        return overlay
    for file, old, new in ((v.file, v.old, v.new),) + tuple(v.more):
        path = os.path.join(repo_root, file)
        src = overlay.get(file)
        if src is None:
            if not os.path.exists(path):
                return None
            with open(path, encoding="utf-8") as f:
                src = f.read()
        if src.count(old) != 1:
            return None
        overlay[file] = src.replace(old, new)
    return overlay


def _viol_keys(ctx: Ctx):
    apply_known(ctx)
    return {(o.rule, o.file, o.function, o.construct) for o in ctx.obs if o.status == "violation"}


def _clear_caches():
    """Per-Repo caches are keyed by object identity and are never hit again once a variant is done: drop them, or a pool
    worker that runs a hundred variants holds a hundred parsed repositories."""
    from . import flow as _f, index as _i, rules as _r, states as _s
    _f._CACHE.clear()
    _i._IDX.clear()
    _r._REACH_CACHE.clear()
    _s._CACHE.clear()
    import gc
    gc.collect()


def _run_variant(args):
    _clear_caches()
    prop, v, repo_root, base_keys = args
    mod = importlib.import_module(f"hivecheck.props.{prop.lower()}")
    overlay = _apply(repo_root, v)
    if overlay is None:
        return (v.name, v.kind, "stale", "")
    try:
        for f_, src_ in overlay.items():
            compile(src_, f_, "exec")
    except SyntaxError as e:
        return (v.name, v.kind, "stale", f"variant does not compile: {e}")
    try:
        from . import loader as _loader

        _loader.set_inline_for(prop)
        repo = Repo(repo_root, overlay)
        ctx = Ctx(prop, repo, "quick", 0, quiet=True)
        try:
            mod.run(ctx)
        except AnalysisError as e:
            ctx.soft_fail(str(e))
        ctx.end_of_run()
        keys = _viol_keys(ctx)
    except AnalysisError as e:
        apply_known(ctx)
        # an unrecognised shape is a refusal, not a verdict: acceptable for a break variant only if
        # the variant is marked rule="ANALYSIS-ERROR"
        if v.kind == "break" and v.rule == "ANALYSIS-ERROR":
            return (v.name, v.kind, "ok", f"analysis-error as expected: {e}")
        if v.kind == "quiet":
            return (v.name, v.kind, "ok", f"no verdict (analysis error: {str(e)[:80]})")
        return (v.name, v.kind, "fail", f"analysis error: {e}")
    new = keys - base_keys
    if v.kind == "quiet":
        # a stored change that breaks ANOTHER property: this check must not raise an alarm on it (no verdict is acceptable)
        if new:
            return (v.name, v.kind, "fail", f"alarm on a change that does not break this property: {sorted(new)[:2]}")
        return (v.name, v.kind, "ok", "silent" if not ctx.shortfalls else "no verdict (analysis error)")
    if v.kind == "break":
        if not new:
            return (v.name, v.kind, "fail", "no new violation reported")
        if v.rule and not any(k[0].startswith(v.rule) for k in new):
            return (v.name, v.kind, "fail", f"violation reported by {sorted({k[0] for k in new})}, expected {v.rule}")
        k = sorted(new)[0]
        return (v.name, v.kind, "ok", f"{k[0]} @ {k[1]}::{k[2]}")
    else:
        if new:
            return (v.name, v.kind, "fail", f"twin raised {sorted(new)[:2]}")
        return (v.name, v.kind, "ok", "silent")


_D = "nrel/hive/"
# first-order faults that survived the unedited suite AND every check in the mutation sweep (tools/mutation_sweep.py) before the rule
# named here was added: kept as permanent break variants of the property whose clause they violate
SWEEP = {
    "C12": [("sweep-base-guard-or", _D + "dispatcher/instruction_generator/dispatcher.py", "isinstance(vehicle.vehicle_state, ChargingBase)\n                    and range_remaining_km",
             "isinstance(vehicle.vehicle_state, ChargingBase)\n                    or range_remaining_km", "GD.eligible")],
    "C18": [("sweep-queue-handover-flipped", _D + "state/vehicle_state/charge_queueing.py", "        elif not has_available_charger:\n            return (\n                SimulationStateError(f\"no charger is available",
             "        elif has_available_charger:\n            return (\n                SimulationStateError(f\"no charger is available", "GD.queue-hand-over")],
    "C03": [("sweep-oos-test-flipped", _D + "state/vehicle_state/servicing_trip.py", "        elif moved_vehicle.vehicle_state.vehicle_state_type == VehicleStateType.OUT_OF_SERVICE:\n            return None, move_sim",
             "        elif moved_vehicle.vehicle_state.vehicle_state_type != VehicleStateType.OUT_OF_SERVICE:\n            return None, move_sim", "DU.provenance"),
            ("sweep-exit-refusal-untested", _D + "state/entity_state/entity_state_ops.py", "    elif not exit_sim:\n        return None, None", "    elif not sim:\n        return None, None", "TS.transition")],
    "C09": [("sweep-exit-refusal-untested", _D + "state/entity_state/entity_state_ops.py", "    elif not exit_sim:\n        return None, None", "    elif not sim:\n        return None, None", "TS.transition")],
    "C13": [("sweep-same-position-test-flipped", _D + "model/roadnetwork/osm/osm_roadnetwork.py", "        if origin == destination:\n            return empty_route()",
             "        if origin != destination:\n            return empty_route()", "DU.route"),
            ("sweep-inner-none-flipped", _D + "model/roadnetwork/osm/osm_roadnetwork.py", "            elif inner_link_path is None:\n                return empty_route()",
             "            elif inner_link_path is not None:\n                return empty_route()", "DU.route")],
    "C20": [("sweep-driver-step-flipped", _D + "state/simulation_state/update/step_simulation_ops.py", "        elif not updated_sim:\n            return simulation_state\n        else:\n            return updated_sim",
             "        elif updated_sim:\n            return simulation_state\n        else:\n            return updated_sim", "DU.driver-commit")],
    "C02": [("sweep-stall-test-ge", _D + "model/base.py", "return bool(self.available_stalls > 0) and", "return bool(self.available_stalls >= 0) and", "CMP.bounded-counter")],
    "C06": [("sweep-stall-test-ge", _D + "model/base.py", "return bool(self.available_stalls > 0) and", "return bool(self.available_stalls >= 0) and", "CMP.bounded-counter")],
}


def sweep_variants(prop: str) -> List[V]:
    return [V(n, f, o, nw, rule=r) for n, f, o, nw, r in SWEEP.get(prop, [])]


def run_selftest(prop: str, mod, base_ctx: Ctx, jobs: int = None, only: Optional[List[str]] = None) -> dict:
    variants: List[V] = list(getattr(mod, "selftest")()) + sweep_variants(prop) + regression_variants(prop) + seed_variants(prop) + neutral_variants(prop)
    if only:
        variants = [v for v in variants if v.name in only]
    base_keys = _viol_keys(base_ctx)
    root = base_ctx.repo.root
    t0 = time.time()
    args = [(prop, v, root, base_keys) for v in variants]
    jobs = jobs or min(16, max(1, len(args)))
    if jobs > 1 and len(args) > 1:
        import multiprocessing as mp

        with mp.get_context("fork").Pool(jobs, maxtasksperchild=25) as pool:
            res = pool.map(_run_variant, args, chunksize=1)
    else:
        res = [_run_variant(a) for a in args]
    out = {
        "variants": len(res),
        "stale": sum(1 for r in res if r[2] == "stale"),
        "break_total": sum(1 for r in res if r[1] == "break" and r[2] != "stale"),
        "break_detected": sum(1 for r in res if r[1] == "break" and r[2] == "ok"),
        "twin_total": sum(1 for r in res if r[1] == "twin" and r[2] != "stale"),
        "twin_silent": sum(1 for r in res if r[1] == "twin" and r[2] == "ok"),
        "seed_quiet_total": sum(1 for r in res if r[1] == "quiet" and r[2] != "stale"),
        "seed_quiet_silent": sum(1 for r in res if r[1] == "quiet" and r[2] == "ok"),
        "quiet_refused": sum(1 for r in res if r[1] == "quiet" and r[2] == "ok" and "no verdict" in r[3]),
        "failed": sum(1 for r in res if r[2] == "fail"),
        "failures": [f"{r[0]}: {r[3]}" for r in res if r[2] == "fail"],
        "stale_names": [r[0] for r in res if r[2] == "stale"],
        "detail": [{"variant": r[0], "kind": r[1], "result": r[2], "by": r[3][:200]} for r in res],
        "neutral_residual": sorted(f"{nid}: {why[prop]}" for nid, why in neutral_residual().items() if prop in why),
        "wall_s": round(time.time() - t0, 2),
    }
    return out


# --------------------------------------------------------------------------------- regression variants from patches
def edits_from_patch(path: str, reverse: bool = True):
    """Turn a unified diff into textual (file, old, new) edits, one per hunk. With reverse=True the edit goes from the
    patched text back to the original (i.e. it re-introduces what the patch repaired)."""
    edits = []
    cur = None
    a: list = []
    b: list = []

    def flush():
        nonlocal a, b
        if cur and (a or b):
            old, new = ("".join(b), "".join(a)) if reverse else ("".join(a), "".join(b))
            if old != new:
                edits.append((cur, old, new))
        a, b = [], []

    with open(path, encoding="utf-8", errors="replace") as f:
        lines = f.readlines()
    in_hunk = False
    for ln in lines:
        if ln.startswith("diff --git"):
            flush()
            in_hunk = False
            cur = None
        elif ln.startswith("+++ "):
            p = ln[4:].strip()
            cur = p[2:] if p.startswith(("a/", "b/")) else p
        elif ln.startswith("--- "):
            continue
        elif ln.startswith("@@"):
            flush()
            in_hunk = True
        elif in_hunk:
            if ln.startswith("-- ") and ln.strip() == "--":
                in_hunk = False
                continue
            if ln.startswith("+"):
                b.append(ln[1:])
            elif ln.startswith("-"):
                a.append(ln[1:])
            elif ln.startswith(" "):
                a.append(ln[1:])
                b.append(ln[1:])
            elif ln.startswith("\\"):
                continue
            else:
                flush()
                in_hunk = False
    flush()
    return edits


def regression_variants(prop: str):
    """One break variant per `fix:` commit mapped to this property (planned_fixes/*.patch reversed): the check must
    report the repaired defect again if it ever returns."""
    import glob
    import json

    root = os.path.dirname(os.path.dirname(os.path.abspath(__file__)))
    with open(os.path.join(root, "known_findings.json")) as f:
        fixed = [e for e in json.load(f)["entries"] if e.get("status") == "fixed" and e.get("property") == prop]
    commits = sorted({e["commit"] for e in fixed})
    with open(os.path.join(root, "planned_fixes", "COMMITS.json")) as f:
        by_commit = json.load(f)
    out = []
    for c in commits:
        pf = by_commit.get(c)
        if not pf:
            continue
        eds = edits_from_patch(os.path.join(root, "planned_fixes", pf), reverse=True)
        if not eds:
            continue
        first, rest = eds[0], tuple(eds[1:])
        out.append(V(f"regression-{pf[:4]}-{c}", first[0], first[1], first[2], kind="break", more=rest))
    return out


def seed_variants(prop: str, expected_only: bool = True):
    """The stored seeded changes (seeded/<id>/patch.diff) as overlay variants. For the properties a change is recorded to
    break (seeded/EXPECTED.json, the audited matrix of DESIGN section 10) the check must report it; for every other
    property the check must stay quiet on it."""
    import glob
    import json

    root = os.path.dirname(os.path.dirname(os.path.abspath(__file__)))
    ep = os.path.join(root, "seeded", "EXPECTED.json")
    if not os.path.exists(ep):
        return []
    with open(ep) as f:
        exp = json.load(f)
    out = []
    for sid in sorted(exp):
        e = exp[sid]
        if prop in e.get("noverdict", []):
            continue
        pf = os.path.join(root, "seeded", sid, "patch.diff")
        if not os.path.exists(pf):
            continue
        kind = "break" if prop in e.get("fires", []) else "quiet"
        out.append(V(f"seed-{sid}", "", "", "", kind=kind, patch=pf))
    return out


def neutral_variants(prop: str):
    """The stored behaviour-preserving refactorings (neutral/<id>/patch.diff, written by independent sub-agents, suite
    unchanged): no check may raise an alarm on any of them (a refusal is tolerated and counted)."""
    import glob

    root = os.path.dirname(os.path.dirname(os.path.abspath(__file__)))
    out = []
    residual = neutral_residual()
    for pf in sorted(glob.glob(os.path.join(root, "neutral", "*", "patch.diff"))):
        if os.path.getsize(pf) == 0:
            continue
        nid = os.path.basename(os.path.dirname(pf))
        if prop in residual.get(nid, {}):
            continue  # a recorded false alarm of this check (neutral/RESIDUAL.json, DESIGN 10.12): listed in the evidence, not re-judged
        out.append(V(f"neutral-{nid}", "", "", "", kind="quiet", patch=pf))
    return out


def neutral_residual() -> dict:
    import json

    root = os.path.dirname(os.path.dirname(os.path.abspath(__file__)))
    try:
        with open(os.path.join(root, "neutral", "RESIDUAL.json")) as f:
            return {k: v for k, v in json.load(f).items() if not k.startswith("_")}
    except OSError:
        return {}


if __name__ == "__main__":
    import warnings

    warnings.filterwarnings("ignore")
    prop = sys.argv[1].upper()
    mod = importlib.import_module(f"hivecheck.props.{prop.lower()}")
    repo = Repo()
    ctx = Ctx(prop, repo, "quick", 0, quiet=True)
    mod.run(ctx)
    r = run_selftest(prop, mod, ctx, only=sys.argv[2:] or None)
    for d in r["detail"]:
        print(f"  {d['result']:5s} {d['kind']:5s} {d['variant']}: {d['by']}")
    print({k: v for k, v in r.items() if k not in ("detail",)})


